"""OPT - normal forms in the free associative algebra with (anti-)involutions.

A value T is a linear combination (Fraction coefficients) of words.  A word is a tuple of letters:
commutative scalar letters first (sorted), then non-commutative multivector letters in product order.

  ('s', payload)                    commutative scalar atom (a coefficient, 1/denominator, ...)
  ('v', name, rev, inv)             multivector variable, with reversion / grade-involution flags
  ('o', op, args, rev, inv)         opaque multivector-valued operator application (ip, op, inv, grade, ...)

By (M3) of DESIGN.md two recognised trees denote the same element in every Clifford algebra iff their
normal forms coincide: gp is flattened (associativity), reverse is pushed to the leaves
(~(ab) = ~b ~a, ~~a = a), involute likewise without reordering, conjugate = both, numbers are pulled
out, sub(a,b) = add(a, neg(b)), div(a,b) = gp(a, inv(b)).
"""
from __future__ import annotations

from fractions import Fraction
from typing import Dict, Tuple, Any

LINEAR_OPAQUE_UNARY = {"grade"}  # opaque but linear in the first argument (kept opaque; linearity not needed)


class T:
    __slots__ = ("terms", "cls")

    def __init__(self, terms: Dict[Tuple, Fraction] = None, cls: str = "MultiVector"):
        self.terms = {w: c for w, c in (terms or {}).items() if c != 0}
        self.cls = cls

    # -- constructors
    @staticmethod
    def var(name: str, cls="MultiVector") -> "T":
        return T({(("v", name, False, False),): Fraction(1)}, cls)

    @staticmethod
    def num(c, cls="MultiVector") -> "T":
        return T({(): Fraction(c)}, cls)

    @staticmethod
    def scalar(payload, cls="MultiVector") -> "T":
        return T({(("s", payload),): Fraction(1)}, cls)

    @staticmethod
    def opaque(op: str, args: Tuple[Any, ...], cls="MultiVector") -> "T":
        return T({(("o", op, tuple(args), False, False),): Fraction(1)}, cls)

    # -- algebra
    def _with(self, terms):
        return T(terms, self.cls)

    def add(self, o: "T") -> "T":
        t = dict(self.terms)
        for w, c in o.terms.items():
            t[w] = t.get(w, 0) + c
        return self._with(t)

    def neg(self) -> "T":
        return self._with({w: -c for w, c in self.terms.items()})

    def sub(self, o: "T") -> "T":
        return self.add(o.neg())

    def scale(self, c) -> "T":
        return self._with({w: k * Fraction(c) for w, k in self.terms.items()})

    def gp(self, o: "T") -> "T":
        t: Dict[Tuple, Fraction] = {}
        for w1, c1 in self.terms.items():
            for w2, c2 in o.terms.items():
                w = _join(w1, w2)
                t[w] = t.get(w, 0) + c1 * c2
        return self._with(t)

    def reverse(self) -> "T":
        return self._with(_collect((_rev_word(w), c) for w, c in self.terms.items()))

    def involute(self) -> "T":
        return self._with(_collect((_inv_word(w), c) for w, c in self.terms.items()))

    def conjugate(self) -> "T":
        return self.reverse().involute()

    # -- queries
    def key(self):
        return tuple(sorted((repr(w), str(c)) for w, c in self.terms.items()))

    def __eq__(self, o):
        return isinstance(o, T) and self.terms == o.terms

    def __hash__(self):
        return hash(self.key())

    def is_number(self):
        return all(w == () for w in self.terms)

    def number(self):
        return self.terms.get((), Fraction(0))

    def is_pure_scalar(self):
        """Only commutative scalar letters (numbers, coefficients)."""
        return all(all(l[0] == "s" for l in w) for w in self.terms)

    def __repr__(self):
        if not self.terms:
            return "0"
        parts = []
        for w, c in sorted(self.terms.items(), key=lambda x: repr(x[0])):
            s = " ".join(_letter_str(l) for l in w) or "1"
            if c == 1:
                parts.append(s)
            elif c == -1:
                parts.append("-" + s)
            else:
                parts.append(f"{c}*{s}" if w else str(c))
        return " + ".join(parts).replace("+ -", "- ")


def _collect(pairs):
    t: Dict[Tuple, Fraction] = {}
    for w, c in pairs:
        t[w] = t.get(w, 0) + c
    return t


def _split(word):
    s = tuple(l for l in word if l[0] == "s")
    n = tuple(l for l in word if l[0] != "s")
    return s, n


def _join(w1, w2):
    s1, n1 = _split(w1)
    s2, n2 = _split(w2)
    return tuple(sorted(s1 + s2, key=repr)) + n1 + n2


def _flip(letter, rev=False, inv=False):
    if letter[0] == "v":
        return ("v", letter[1], letter[2] ^ rev, letter[3] ^ inv)
    if letter[0] == "o":
        return ("o", letter[1], letter[2], letter[3] ^ rev, letter[4] ^ inv)
    return letter


def _rev_word(word):
    s, n = _split(word)
    return s + tuple(_flip(l, rev=True) for l in reversed(n))


def _inv_word(word):
    s, n = _split(word)
    return s + tuple(_flip(l, inv=True) for l in n)


def _letter_str(l):
    if l[0] == "s":
        return f"<{l[1]}>"
    if l[0] == "v":
        return ("~" if l[2] else "") + ("^" if l[3] else "") + l[1]
    return ("~" if l[3] else "") + ("^" if l[4] else "") + f"{l[1]}({', '.join(repr(a) for a in l[2])})"
