"""Resolver for kingdon's dispatch idioms: the operator registry of `Algebra` and the class-level
surface tables of `MultiVector` / `TapeRecorder` (aliases, forwarding one-liners, partialmethods)."""
from __future__ import annotations

import ast
from dataclasses import dataclass
from typing import Dict, List, Optional, Tuple

from .astx import chain, un, kwarg, params
from .core import Unknown
from .model import Repo


@dataclass
class RegistryRow:
    name: str
    dict_class: str            # OperatorDict | UnaryOperatorDict
    codegen: str               # name of the codegen function
    symbolcls: Optional[str]   # 'mathstr' or None
    node: ast.AST


def operator_registry(repo: Repo) -> Dict[str, RegistryRow]:
    """Dataclass fields of Algebra built with `operation_field(metadata={'codegen': ...})`."""
    cls = repo.cls("algebra.Algebra")
    rows: Dict[str, RegistryRow] = {}
    for st in cls.body:
        if not (isinstance(st, ast.AnnAssign) and isinstance(st.target, ast.Name) and isinstance(st.value, ast.Call)):
            continue
        md = kwarg(st.value, "metadata")
        if not isinstance(md, ast.Dict):
            continue
        keys = {}
        for k, v in zip(md.keys, md.values):
            if isinstance(k, ast.Constant):
                keys[k.value] = v
        if "codegen" not in keys:
            continue
        cg = chain(keys["codegen"])
        if cg is None:
            raise Unknown(f"algebra.Algebra.{st.target.id}", f"codegen metadata is not a name: {un(keys['codegen'])}", st)
        sc = chain(keys["codegen_symbolcls"]) if "codegen_symbolcls" in keys else None
        rows[st.target.id] = RegistryRow(st.target.id, un(st.annotation), cg, sc, st)
    return rows


@dataclass
class Entry:
    name: str
    kind: str                       # 'op' | 'python'
    op: Optional[str] = None
    order: Tuple[str, ...] = ()     # roles of the operator's operands: 'self', 'other'
    node: Optional[ast.AST] = None
    via: str = ""                   # def | alias:<name> | partialmethod

    def sig(self):
        return (self.op, self.order) if self.kind == "op" else ("python",)


def _forwarding(fn: ast.FunctionDef) -> Optional[Tuple[str, Tuple[str, ...]]]:
    """`def X(self, other): return self.algebra.OP(self, other)` -> (OP, ('self','other'))."""
    body = [s for s in fn.body if not (isinstance(s, ast.Expr) and isinstance(s.value, ast.Constant))]
    if len(body) != 1 or not isinstance(body[0], ast.Return) or not isinstance(body[0].value, ast.Call):
        return None
    call = body[0].value
    c = chain(call.func)
    ps = params(fn)
    if c is None or not ps or not c.startswith(ps[0] + ".algebra.") or c.count(".") != 2 or call.keywords:
        return None
    roles = []
    for a in call.args:
        if not isinstance(a, ast.Name) or a.id not in ps:
            return None
        idx = ps.index(a.id)
        roles.append("self" if idx == 0 else ("other" if idx == 1 else f"arg{idx}"))
    return c.split(".")[2], tuple(roles)


def _forwarding_by_interpretation(repo: Repo, qual: str, fn: ast.FunctionDef, bound_args=(), bound_kwargs=None):
    """The same classification for methods that do not have the one-line shape: the method is run in the interpreter
    with an algebra whose every attribute is a recorder.  It is a forwarding method iff it performs exactly one
    operator call / cache look-up on the algebra, with its own operands in some order, and returns what comes back
    (for the recorder class: a new recorder built from that look-up)."""
    ps = params(fn)
    n_free = len(ps) - 1 - len(bound_args) - len([k for k in (bound_kwargs or {}) if k in ps])
    if not ps or n_free not in (0, 1) or fn.args.vararg or fn.args.kwarg or fn.name in ("__new__", "__init__", "__getattr__", "__getitem__", "__setitem__"):
        return None
    if any(un(d) in ("property", "cached_property", "functools.cached_property", "classmethod", "staticmethod") for d in fn.decorator_list):
        return None
    from .absint import Interp, Obj, Unk, Raised
    from .astx import NoValue
    cname = qual.split(".")[-1]
    events = []
    result = Obj("token", {"fmt": "RESULT", "name": "RESULT"})

    def opdict(name):
        def call(*a, **k):
            events.append(("call", name, a))
            return result

        def getitem(key):
            events.append(("lookup", name, key))
            return (Obj("token", {"fmt": "KEYS_OUT", "name": "KEYS_OUT"}), Obj("function", {"__name__": "FN", "fmt": "<FN>"}))
        return Obj("OperatorDict", {"fmt": f"<{name}>"}, call=call, getitem=getitem)
    alg = Obj("algebra", {"fmt": "ALG"}, {"__getattr__": opdict})
    ks, ko = Obj("token", {"fmt": "KEYS_SELF", "name": "KEYS_SELF"}), Obj("token", {"fmt": "KEYS_OTHER", "name": "KEYS_OTHER"})
    me = Obj(cname, {"algebra": alg, "_keys": ks, "expr": "SELF"})
    other = Obj(cname, {"algebra": alg, "_keys": ko, "expr": "OTHER"})
    it = Interp(repo, {}, {}, algebra=alg, max_steps=4000)
    it.instance_classes[cname] = qual
    try:
        args = [me] + list(bound_args) + ([other] if n_free == 1 else [])
        out = it.call_function(fn, args, dict(bound_kwargs or {}), {}, qual.split(".")[0])
    except (NoValue, Raised, RecursionError):
        return None
    except Exception:
        return None
    if len(events) != 1:
        return None
    kind, name, payload = events[0]
    if kind == "call":
        if out is not result or not all(a is me or a is other for a in payload) or len(payload) != 1 + n_free:
            return None
        roles = tuple("self" if a is me else "other" for a in payload)
        if n_free == 1:
            # a foreign operand is handed on as it is, whatever its value: the same single call for plain numbers
            for number in (5, 0, 0.0, -1, 1):
                del events[:]
                it2 = Interp(repo, {}, {}, algebra=alg, max_steps=4000)
                it2.instance_classes[cname] = qual
                try:
                    out2 = it2.call_function(fn, [me] + list(bound_args) + [number], dict(bound_kwargs or {}), {}, qual.split(".")[0])
                except (NoValue, Raised, RecursionError):
                    out2 = None
                ok = out2 is result and len(events) == 1 and events[0][:2] == ("call", name) and len(events[0][2]) == 2 and \
                    all((a is me) if r == "self" else (type(a) is type(number) and a == number) for a, r in zip(events[0][2], roles))
                if not ok:
                    got = [(e[0], e[1], tuple("self" if a is me else repr(a) for a in e[2]) if e[0] == "call" else e[2]) for e in events]
                    repo.__dict__.setdefault("_surface_anomalies", {})[qual + "." + fn.name] = \
                        (f"with a multivector operand it is one call {name}({', '.join(roles)}), with the plain number {number!r} "
                         f"it does {got if got else 'no operator call'}: what reaches the operator depends on the value of the operand")
                    return None
        return name, roles
    key = payload if isinstance(payload, tuple) else (payload,)
    if not (isinstance(out, Obj) and out.kind == cname) or len(key) != 1 + n_free:
        return None
    roles = []
    for k in key:
        if k is ks:
            roles.append("self")
        elif k is ko:
            roles.append("other")
        else:
            return None
    return name, tuple(roles)


def class_surface(repo: Repo, qual: str) -> Dict[str, Entry]:
    cache = repo.__dict__.setdefault("_surface_cache", {})
    if qual not in cache:
        cache[qual] = _class_surface(repo, qual)
    return dict(cache[qual])


def _class_surface(repo: Repo, qual: str) -> Dict[str, Entry]:
    cls = repo.cls(qual)
    table: Dict[str, Entry] = {}
    for st in cls.body:
        if isinstance(st, (ast.FunctionDef, ast.AsyncFunctionDef)):
            fw = _forwarding(st)
            via = "def"
            if not fw:
                fw = _forwarding_by_interpretation(repo, qual, st)
                # a body with conditions was classified on generic operands only: what its branches do for operands of a
                # particular shape is decided by the rules that interpret it on representatives (C04.registry-names)
                if fw and any(isinstance(n, (ast.If, ast.IfExp, ast.While, ast.Try, ast.BoolOp, ast.Match if hasattr(ast, "Match") else ast.If))
                              for n in ast.walk(st)):
                    via = "def:branching"
            if fw:
                table[st.name] = Entry(st.name, "op", fw[0], fw[1], st, via)
            else:
                table[st.name] = Entry(st.name, "python", node=st, via="def")
        elif isinstance(st, ast.Assign):
            names = [t.id for t in st.targets if isinstance(t, ast.Name)]
            if len(names) != len(st.targets):
                continue
            v = st.value
            if isinstance(v, ast.Name) and v.id in table:
                src = table[v.id]
                for n in names:
                    table[n] = Entry(n, src.kind, src.op, src.order, st if src.kind == "op" else src.node,
                                     f"alias:{v.id}")
            elif isinstance(v, ast.Call) and chain(v.func) in ("partialmethod", "functools.partialmethod") and v.args:
                target = chain(v.args[0])
                opn = kwarg(v, "operator")
                if target in ("binary_operator", "unary_operator") and isinstance(opn, ast.Constant) \
                        and isinstance(opn.value, str):
                    order = ("self", "other") if target == "binary_operator" else ("self",)
                    for n in names:
                        table[n] = Entry(n, "op", opn.value, order, st, "partialmethod")
                else:
                    fw = None
                    tdef = next((x for x in cls.body if isinstance(x, ast.FunctionDef) and x.name == target), None)
                    if tdef is not None:
                        try:
                            bargs = [ast.literal_eval(a) for a in v.args[1:]]
                            bkw = {k.arg: ast.literal_eval(k.value) for k in v.keywords if k.arg}
                            fw = _forwarding_by_interpretation(repo, qual, tdef, bargs, bkw)
                        except (ValueError, SyntaxError):
                            fw = None
                    for n in names:
                        table[n] = Entry(n, "op", fw[0], fw[1], st, "partialmethod") if fw else Entry(n, "python", node=st, via="partialmethod?")
    return table


BINARY_DUNDERS = {
    "__mul__": "__rmul__", "__add__": "__radd__", "__sub__": "__rsub__", "__truediv__": "__rtruediv__",
    "__xor__": "__rxor__", "__and__": "__rand__", "__or__": "__ror__", "__rshift__": "__rrshift__",
    "__matmul__": "__rmatmul__", "__lshift__": "__rlshift__", "__pow__": "__rpow__",
    "__floordiv__": "__rfloordiv__", "__mod__": "__rmod__",
}
REFLECTED = {v: k for k, v in BINARY_DUNDERS.items()}
UNARY_DUNDERS = ("__neg__", "__invert__", "__pos__", "__abs__")

# Python operator node -> dunder
BINOP_DUNDER = {
    ast.Mult: "__mul__", ast.Add: "__add__", ast.Sub: "__sub__", ast.Div: "__truediv__",
    ast.BitXor: "__xor__", ast.BitAnd: "__and__", ast.BitOr: "__or__", ast.RShift: "__rshift__",
    ast.MatMult: "__matmul__", ast.Pow: "__pow__", ast.LShift: "__lshift__",
}
UNOP_DUNDER = {ast.USub: "__neg__", ast.Invert: "__invert__", ast.UAdd: "__pos__"}
