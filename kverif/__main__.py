import sys

from .cli import main

sys.exit(main())
