"""Product-operator resolver, the checker's own blade-sign specification, polynomial coefficient tokens."""
from __future__ import annotations

import ast
from fractions import Fraction
from typing import Any, Dict, List, Optional, Tuple

from .absint import Obj, Unk, Raised
from .astx import Poly, un, params, default_of, single_assignments, subst, clone, walk_shallow, call_name, kwarg
from .core import Unknown
from . import bitauto
from .bitauto import KX, KY, P


# --------------------------------------------------------------------------- effective (filter, sign, keyout)
class Triple:
    def __init__(self):
        self.filter: Optional[ast.AST] = None
        self.sign: Optional[ast.AST] = None
        self.keyout: Optional[ast.AST] = None
        self.operands: Tuple[str, ...] = ()
        self.chain: List[str] = []
        self.node: Optional[ast.AST] = None


class _PssPattern(ast.NodeTransformer):
    """len(<algebra>) - 1  and  2 ** <algebra>.d - 1  ->  Name('P') (the pseudoscalar key 2^d - 1)."""

    def visit_BinOp(self, node):
        self.generic_visit(node)
        if isinstance(node.op, ast.Sub) and isinstance(node.right, ast.Constant) and node.right.value == 1:
            l = node.left
            if isinstance(l, ast.Call) and call_name(l) == "len" and len(l.args) == 1 and "alg" in un(l.args[0]):
                return ast.copy_location(ast.Name(id="P", ctx=ast.Load()), node)
            if isinstance(l, ast.BinOp) and isinstance(l.op, ast.Pow) and isinstance(l.left, ast.Constant) and l.left.value == 2 \
                    and un(l.right).endswith(".d"):
                return ast.copy_location(ast.Name(id="P", ctx=ast.Load()), node)
        return node


def _inline_all(node, env, depth=10):
    for _ in range(depth):
        used = {n.id for n in ast.walk(node) if isinstance(n, ast.Name) and isinstance(n.ctx, ast.Load)} & set(env)
        # never substitute a lambda's own parameters
        if not used:
            break
        new = subst(node, {k: env[k] for k in used})
        if ast.dump(new) == ast.dump(node):
            break
        node = new
    return _PssPattern().visit(node)


_GENERIC_D = 5
_GENERIC_PSS = 2 ** _GENERIC_D - 1


def _closure_ast(v, depth=0):
    """Syntax of a function value captured by the interpreter, with everything its closure binds to other function
    values / numbers substituted (beta-reduction is left to _inline_all)."""
    from .absint import Closure, PyFunc
    if depth > 6:
        raise ValueError("closure nesting")
    if v is None:
        return None
    if isinstance(v, PyFunc):
        name = v.name.split(".")[-1]
        if name in ("xor", "or_", "and_"):
            return ast.Attribute(value=ast.Name(id="operator", ctx=ast.Load()), attr=name, ctx=ast.Load())
        if name in ("abs", "neg", "pos"):
            return ast.Name(id="abs", ctx=ast.Load()) if name == "abs" else \
                ast.Attribute(value=ast.Name(id="operator", ctx=ast.Load()), attr=name, ctx=ast.Load())
        raise ValueError(f"library function {v.name}")
    if not isinstance(v, Closure):
        raise ValueError(f"not a function value: {v!r}")
    node = v.node
    if isinstance(node, ast.FunctionDef):
        inner = [b for b in node.body if not (isinstance(b, ast.Expr) and isinstance(b.value, ast.Constant))]
        if len(inner) != 1 or not isinstance(inner[0], ast.Return) or inner[0].value is None:
            raise ValueError("function-valued argument is not a single return")
        node = ast.Lambda(args=node.args, body=inner[0].value)
    own = {a.arg for a in node.args.args}
    env = {}
    free = {n.id for n in ast.walk(node.body) if isinstance(n, ast.Name) and isinstance(n.ctx, ast.Load)} - own
    for name in free:
        try:
            val = v.env[name] if name in v.env else None
        except Exception:
            val = None
        if isinstance(val, (Closure, PyFunc)):
            env[name] = _closure_ast(val, depth + 1)
        elif isinstance(val, int) and not isinstance(val, bool) and val == _GENERIC_PSS:
            env[name] = ast.Name(id="P", ctx=ast.Load())        # the pseudoscalar key of the generic algebra: symbolic
        elif isinstance(val, (int, float)) and not isinstance(val, bool):
            env[name] = ast.Constant(value=val)
    lam = ast.Lambda(args=node.args, body=_inline_all(clone(node.body), env))
    return ast.fix_missing_locations(lam)


def resolve_product_interp(repo, fname: str) -> Triple:
    """The same triple, obtained by RUNNING the wrapper chain in the interpreter on generic operands with
    codegen_product replaced by a recorder: whatever local variables, branches or helpers the wrappers use, what
    reaches codegen_product on the generic path is what counts."""
    from .absint import PyFunc
    from .symenv import make_interp, rep_algebra, mv_obj
    alg = rep_algebra(_GENERIC_D)
    n = 2 ** _GENERIC_D
    x = mv_obj(alg, tuple(range(n)), [Obj("token", {"fmt": f"a{k}", "name": f"a{k}"}) for k in range(n)])
    y = mv_obj(alg, tuple(range(n)), [Obj("token", {"fmt": f"b{k}", "name": f"b{k}"}) for k in range(n)])
    seen = {}

    def recorder(a, b, filter_func=None, sign_func=None, keyout_func=None, **kw):
        seen.update(x=a, y=b, filter=filter_func, sign=sign_func, keyout=keyout_func, extra=kw)
        return {}
    it = make_interp(repo)
    it.algebra = alg
    callee = repo.func("codegen.codegen_product")
    it.overrides["codegen.codegen_product"] = PyFunc(recorder, "codegen_product", True)
    out = it.run(f"codegen.{fname}", [x, y])
    if out[0] == "raise" or "x" not in seen:
        raise ValueError(f"generic operands do not reach codegen_product ({out!r})")
    t = Triple()
    t.chain, t.node = [fname, "...", "codegen_product"], repo.func(f"codegen.{fname}")
    t.operands = tuple(0 if o is x else 1 if o is y else "?" for o in (seen["x"], seen["y"]))
    for attr in ("filter", "sign", "keyout"):
        v = seen[attr]
        if v is None:
            d = default_of(callee, f"{attr}_func")
            v_ast = None if d is None or (isinstance(d, ast.Constant) and d.value is None) else d
        else:
            v_ast = _closure_ast(v)
        setattr(t, attr, v_ast)
    return t


def captured_functions(repo, fname: str, signature):
    """(interpreter, filter, sign, keyout, operand order) as FUNCTION VALUES: the wrapper chain of codegen.<fname> is run
    on generic full operands of an algebra with the given signature and codegen_product is replaced by a recorder.
    The values can be applied with interpreter.call(value, [kx, ky, ...]) whatever their form (lambda, nested def,
    bound method of a helper object, callable instance)."""
    from .absint import PyFunc
    from .symenv import make_interp, rep_algebra, mv_obj
    d = len(signature)
    alg = rep_algebra(d, extra_attrs={"signs": sign_table_obj(list(signature)), "signature": list(signature),
                                      "p": sum(1 for x in signature if x == 1), "q": sum(1 for x in signature if x == -1),
                                      "r": sum(1 for x in signature if x == 0)})
    n = 2 ** d
    x = mv_obj(alg, tuple(range(n)), [Obj("token", {"fmt": f"a{k}", "name": f"a{k}"}) for k in range(n)])
    y = mv_obj(alg, tuple(range(n)), [Obj("token", {"fmt": f"b{k}", "name": f"b{k}"}) for k in range(n)])
    seen = {}

    def recorder(a, b, filter_func=None, sign_func=None, keyout_func=None, **kw):
        seen.update(x=a, y=b, filter=filter_func, sign=sign_func, keyout=keyout_func)
        return {}
    it = make_interp(repo)
    it.algebra = alg
    it.instance_classes["algebra"] = "algebra.Algebra"
    it.overrides["codegen.codegen_product"] = PyFunc(recorder, "codegen_product", True)
    out = it.run(f"codegen.{fname}", [x, y])
    if out[0] == "raise" or "x" not in seen:
        raise ValueError(f"generic operands do not reach codegen_product ({out!r})")
    order = tuple(0 if o is x else 1 if o is y else "?" for o in (seen["x"], seen["y"]))
    return it, seen["filter"], seen["sign"], seen["keyout"], order


def bounded_filter_table(repo, fname: str, signature):
    """{(kx, ky): (kept?, key_out)} for ALL blade pairs of the algebra, by applying the captured function values."""
    it, filt, _sign, keyout, order = captured_functions(repo, fname, signature)
    n = 2 ** len(signature)
    table = {}
    for kx in range(n):
        for ky in range(n):
            ko = it.call(keyout, [kx, ky], {}) if keyout is not None else kx ^ ky
            if not isinstance(ko, int):
                raise ValueError(f"key-out of ({kx}, {ky}) evaluates to {ko!r}")
            keep = True if filt is None else it.truth(it.call(filt, [kx, ky, ko], {}))
            table[kx, ky] = (bool(keep), ko)
    return table, order


def resolve_product(repo, fname: str, bindings: Optional[Dict[str, ast.AST]] = None, chain=None) -> Triple:
    """Follow `return codegen_X(x, y, kw=...)` wrappers down to codegen_product (syntactically; when a wrapper is not a
    straight-line forwarding call, by running the chain on generic operands)."""
    if not chain and not bindings:
        try:
            t = _resolve_product_syntactic(repo, fname, None, None)
            odd = [a for a in (t.filter, t.keyout, t.sign) if a is not None and not isinstance(a, ast.Lambda)
                   and un(a) not in ("operator.xor", "operator.or_", "operator.and_")]
            if odd:
                try:
                    return resolve_product_interp(repo, fname)
                except Exception:
                    return t
            return t
        except Unknown as exc:
            try:
                return resolve_product_interp(repo, fname)
            except Exception:
                raise exc
    return _resolve_product_syntactic(repo, fname, bindings, chain)


def _resolve_product_syntactic(repo, fname: str, bindings: Optional[Dict[str, ast.AST]] = None, chain=None) -> Triple:
    chain = (chain or []) + [fname]
    if len(chain) > 6:
        raise Unknown(f"codegen.{fname}", "wrapper chain too deep")
    fn = repo.func(f"codegen.{fname}")
    ps = params(fn)
    env: Dict[str, ast.AST] = {}
    for p in ps[2:]:
        d = default_of(fn, p)
        if d is not None:
            env[p] = d
    env.update(bindings or {})
    defs = single_assignments(fn)
    for st in fn.body:
        if isinstance(st, ast.FunctionDef):
            inner = [b for b in st.body if not (isinstance(b, ast.Expr) and isinstance(b.value, ast.Constant))]
            if len(inner) == 1 and isinstance(inner[0], ast.Return) and inner[0].value is not None and not st.decorator_list:
                defs.setdefault(st.name, ast.Lambda(args=st.args, body=inner[0].value))
    for k, v in defs.items():
        if k not in env:
            env[k] = v
    rets = [n for n in walk_shallow(fn) if isinstance(n, ast.Return)]
    body = [s for s in fn.body if not (isinstance(s, ast.Expr) and isinstance(s.value, ast.Constant))
            and not isinstance(s, ast.FunctionDef)]
    if len(rets) != 1 or not isinstance(rets[0].value, ast.Call) or any(
            isinstance(s, (ast.If, ast.For, ast.While, ast.Try, ast.With)) for s in body):
        raise Unknown(f"codegen.{fname}", "not a straight-line wrapper ending in one call", fn)
    call = rets[0].value
    target = call_name(call)
    if target is None or not repo.has(f"codegen.{target}"):
        raise Unknown(f"codegen.{fname}", f"returns a call of {un(call.func)!r}, not of a codegen function", rets[0])
    callee = repo.func(f"codegen.{target}")
    cps = params(callee)
    passed: Dict[str, ast.AST] = {}
    for i, a in enumerate(call.args):
        if isinstance(a, ast.Starred) or i >= len(cps):
            raise Unknown(f"codegen.{fname}", "unrecognised call arguments", call)
        passed[cps[i]] = a
    for k in call.keywords:
        if k.arg is None:
            raise Unknown(f"codegen.{fname}", "**kwargs in wrapper call", call)
        passed[k.arg] = k.value
    operands = tuple(un(_inline_all(passed[p], {k: v for k, v in env.items() if k not in ps[:2]})) if p in passed else "?"
                     for p in cps[:2])
    # operand names must be the wrapper's own first two parameters, in order
    if target == "codegen_product":
        t = Triple()
        t.chain, t.node = chain + [target], fn
        t.operands = operands
        penv = {k: v for k, v in env.items() if k not in ps[:2]}
        for attr, pname in (("filter", "filter_func"), ("sign", "sign_func"), ("keyout", "keyout_func")):
            v = passed.get(pname)
            if v is None:
                v = default_of(callee, pname)
            if v is not None and not (isinstance(v, ast.Constant) and v.value is None):
                v = _inline_all(v, penv)
                setattr(t, attr, v)
        t.operands = tuple(ps[:2].index(o) if o in ps[:2] else o for o in operands)
        return t
    new_bind = {}
    penv = {k: v for k, v in env.items() if k not in ps[:2]}
    for p in cps[2:]:
        if p in passed:
            new_bind[p] = _inline_all(passed[p], penv)
    t = _resolve_product_syntactic(repo, target, new_bind, chain)
    # compose operand positions
    mine = tuple(ps[:2].index(o) if o in ps[:2] else o for o in operands)
    t.operands = tuple(mine[i] if isinstance(i, int) and i < len(mine) else i for i in t.operands)
    return t


def keyout_ir(t: Triple):
    k = t.keyout
    if k is None or un(k) == "operator.xor":
        return ("xor", KX, KY)
    if isinstance(k, ast.Lambda):
        ps = [a.arg for a in k.args.args]
        if len(ps) != 2:
            raise bitauto.Unsupported("keyout arity")
        return bitauto.int_ir(k.body, {ps[0]: KX, ps[1]: KY, "P": P})
    if un(k) in ("operator.or_",):
        return ("or", KX, KY)
    if un(k) in ("operator.and_",):
        return ("and", KX, KY)
    raise bitauto.Unsupported(f"keyout {un(k)!r}")


def filter_ir(t: Triple):
    f = t.filter
    if f is None:
        return ("true",)
    if not isinstance(f, ast.Lambda):
        raise bitauto.Unsupported(f"filter {un(f)!r}")
    ps = [a.arg for a in f.args.args]
    if len(ps) != 3:
        raise bitauto.Unsupported("filter arity")
    return bitauto.bool_ir(f.body, {ps[0]: KX, ps[1]: KY, ps[2]: keyout_ir(t), "P": P})


# --------------------------------------------------------------------------- the checker's blade-sign specification
def spec_sign(I: int, J: int, signature: List[int]) -> int:
    """Sign of e_I e_J for the default basis (generator i <-> bit i, ascending): (-1)^{#(a in I, b in J, a > b)}
    times the product of the metric entries of the common generators."""
    swaps = 0
    for a in range(len(signature)):
        if I >> a & 1:
            swaps += bin(J & ((1 << a) - 1)).count("1")
    s = -1 if swaps % 2 else 1
    common = I & J
    for a in range(len(signature)):
        if common >> a & 1:
            s *= signature[a]
    return s


def basis_maps(basis):
    """canon2bin / bin2canon as kingdon builds them for a custom basis: bit j <-> j-th listed grade-1 name."""
    vecs = [b[1:] for b in basis if len(b) == 2]
    vec2bin = {v: 1 << j for j, v in enumerate(vecs)}
    c2b = {}
    for b in basis:
        k = 0
        for ch in b[1:]:
            k ^= vec2bin[ch]
        c2b[b] = k
    b2c = {k: n for n, k in sorted(c2b.items(), key=lambda x: x[1])}
    lowest = min(int(v, 16) for v in vecs) if vecs else 0
    return c2b, b2c, {v: int(v, 16) - lowest for v in vecs}


def spec_sign_basis(I: int, J: int, b2c, metric_pos, signature) -> int:
    """Sign of blade(I) * blade(J) expressed in blade(I ^ J), every blade being the ordered product of the
    generators in its spelling (normal ordering of the concatenated words)."""
    word = list(b2c[I][1:] + b2c[J][1:])
    target = b2c[I ^ J][1:]
    swaps = 0
    sign = 1
    i = 0
    while i < len(word):
        ch = word[i]
        try:
            j = word.index(ch, i + 1)
        except ValueError:
            i += 1
            continue
        swaps += j - i - 1
        del word[j]
        del word[i]
        sign *= signature[metric_pos[ch]]
    pos = {c: k for k, c in enumerate(target)}
    seq = [pos[c] for c in word]
    swaps += sum(1 for a in range(len(seq)) for b in range(a + 1, len(seq)) if seq[a] > seq[b])
    return -sign if swaps % 2 else sign


def grade(k: int) -> int:
    return bin(k).count("1")


# --------------------------------------------------------------------------- polynomial coefficient tokens
MATHSTR_EVENTS: List[str] = []


def PV(poly: Poly, shape: str = "atom") -> Obj:
    """Coefficient token carrying a commutative polynomial and the shape a `mathstr` would have
    (atom / monomial / sum): unary minus, * and the right operand of binary - are only sound on
    atoms and monomials for the string implementation."""
    o = Obj("value", {"poly": poly, "shape": shape, "fmt": repr(poly)})

    def lift(x):
        if isinstance(x, Obj) and x.kind == "value" and "poly" in x.attrs:
            return x.attrs["poly"], x.attrs["shape"]
        if isinstance(x, (int, Fraction)) and not isinstance(x, bool):
            return Poly.const(x), "atom"
        if isinstance(x, float) and x == int(x):
            return Poly.const(int(x)), "atom"
        return None, None

    def binop(op, other, refl):
        po, so = lift(other)
        if po is None:
            if isinstance(other, Obj) and other.kind != "value":
                return NotImplemented          # a multivector (or another object with operators of its own) decides
            return NotImplemented if isinstance(other, Obj) and "binop" in other.methods and not refl else Unk("arith")
        a, sa, b, sb = (po, so, poly, shape) if refl else (poly, shape, po, so)
        if op == "Add":
            return PV(a + b, "sum")
        if op == "Sub":
            if sb == "sum":
                MATHSTR_EVENTS.append(f"binary minus with a sum on the right: ({a!r}) - ({b!r})")
            return PV(a - b, "sum")
        if op == "Mult":
            if "sum" in (sa, sb):
                MATHSTR_EVENTS.append(f"product with a sum operand: ({a!r}) * ({b!r})")
            return PV(a * b, "monomial" if "sum" not in (sa, sb) else "sum")
        if op == "Div" and not b.atoms() and not b.is_zero():
            c = list(b.terms.values())[0]
            return PV(a * Poly.const(1 / c), sa)
        return Unk("arith")

    def unop(op):
        if op == "USub":
            if shape == "sum":
                MATHSTR_EVENTS.append(f"unary minus of a sum: -({poly!r})")
            return PV(-poly, shape)
        if op == "UAdd":
            return o
        return Unk("unop")

    def compare(op, other):
        po, _ = lift(other)
        if po is None or op not in ("Eq", "NotEq"):
            return NotImplemented
        same = (poly - po).is_zero()          # identically equal, the zero test of kingdon's own polynomials
        return same if op == "Eq" else not same
    o.methods["binop"] = binop
    o.methods["unop"] = unop
    o.methods["compare"] = compare
    o.methods["truth"] = lambda: not poly.is_zero()
    return o


def pv_atom(name: str) -> Obj:
    return PV(Poly.atom(name), "atom")


def poly_of_value(v) -> Optional[Poly]:
    if isinstance(v, Obj) and v.kind == "value" and "poly" in v.attrs:
        return v.attrs["poly"]
    if isinstance(v, (int, Fraction)) and not isinstance(v, bool):
        return Poly.const(v)
    return None


def sign_table_obj(signature: List[int], log: Optional[list] = None, lazy: bool = False, sign_fn=None) -> Obj:
    """Stand-in for Algebra.signs.  lazy=True models the DefaultKeyDict used above six dimensions: entries exist
    only after they were requested by subscription (dict.get / `in` do not trigger __missing__)."""
    cache = {}

    def getitem(key):
        v = _getitem(key)
        cache[key] = v
        return v

    def get(key, default=None):
        if lazy:
            return cache.get(key, default)
        try:
            return _getitem(key)
        except Raised:
            return default

    def _getitem(key):
        if not (isinstance(key, tuple) and len(key) == 2 and all(isinstance(k, int) for k in key)):
            raise Raised("KeyError")
        if log is not None:
            log.append(key)
        n = 1 << len(signature)
        if not (0 <= key[0] < n and 0 <= key[1] < n):
            raise Raised("KeyError")
        return sign_fn(key[0], key[1]) if sign_fn is not None else spec_sign(key[0], key[1], signature)
    o = Obj("dict", {}, {"get": get}, getitem=getitem)

    def compare(op, other):
        return NotImplemented
    return o
