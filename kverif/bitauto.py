"""BIT - bit-serial automaton decider for predicates over bitmasks, for all widths at once.

Integer expressions over `kx`, `ky` (arbitrary w-bit non-negative integers), `P` (= 2^w - 1) and integer
constants, built from + - ^ & | unary minus and abs; predicates from == != < <= > >=, truthiness, not/and/or.
Read least-significant bit first, every operation on two's-complement integers is a finite-state
transducer (state: carry; `==` keeps an "equal so far" flag; the sign of a value is its bit in the
limit; abs(d) is eliminated by a case split on the sign of d).  The checker explores the reachable
states of the product machine of two predicates under arbitrary input bits (active phase, P bit = 1),
flushes every reachable state with zero inputs to its fixed point and compares the truth values.
Agreement in every reachable state decides

    for all w >= 0, for all kx, ky < 2^w :  A(kx, ky, P) <=> B(kx, ky, P)

and a disagreeing state yields a concrete witness (w, kx, ky) through back pointers.
This is an exact finite abstraction, not a bounded sweep and not a solver call.
"""
from __future__ import annotations

import ast
from typing import Any, Dict, List, Optional, Tuple

from .astx import un, ValueIdentity


class Unsupported(Exception):
    pass


# --------------------------------------------------------------------------- IR construction from Python AST
# integer IR:  ('var', n) ('const', c) ('add', a, b) ('sub', a, b) ('neg', a) ('xor'|'and'|'or', a, b) ('abs', a)
# boolean IR:  ('eq', a, b) ('lt', a, b) ('not', p) ('band', p, q) ('bor', p, q) ('true',) ('false',) ('sign', a)

_BINOPS = {ast.Add: "add", ast.Sub: "sub", ast.BitXor: "xor", ast.BitAnd: "and", ast.BitOr: "or"}


def int_ir(node: ast.AST, env: Dict[str, Any]) -> tuple:
    """env maps names to IR tuples (variables) or to ast.Lambda / ast.Name for function-valued names."""
    if isinstance(node, ast.Name):
        if node.id in env and isinstance(env[node.id], tuple):
            return env[node.id]
        raise Unsupported(f"free name {node.id!r}")
    if isinstance(node, ast.Constant) and isinstance(node.value, int) and not isinstance(node.value, bool):
        return ("const", node.value)
    if isinstance(node, ast.UnaryOp) and isinstance(node.op, ast.USub):
        return ("neg", int_ir(node.operand, env))
    if isinstance(node, ast.UnaryOp) and isinstance(node.op, ast.UAdd):
        return int_ir(node.operand, env)
    if isinstance(node, ast.UnaryOp) and isinstance(node.op, ast.Invert):
        return ("sub", ("neg", int_ir(node.operand, env)), ("const", 1))
    if isinstance(node, ast.BinOp) and type(node.op) in _BINOPS:
        return (_BINOPS[type(node.op)], int_ir(node.left, env), int_ir(node.right, env))
    if isinstance(node, ast.Call) and not node.keywords:
        f = node.func
        if isinstance(f, ast.Name) and f.id in env and not isinstance(env[f.id], tuple):
            f = env[f.id]
        if isinstance(f, ast.Name) and f.id == "abs" and len(node.args) == 1:
            return ("abs", int_ir(node.args[0], env))
        if isinstance(f, ast.Attribute) and un(f) in ("operator.neg", "operator.pos", "operator.abs", "operator.invert", "operator.inv") \
                and len(node.args) == 1:
            a = int_ir(node.args[0], env)
            return {"neg": ("neg", a), "pos": a, "abs": ("abs", a), "invert": ("sub", ("neg", a), ("const", 1)),
                    "inv": ("sub", ("neg", a), ("const", 1))}[f.attr]
        if isinstance(f, ast.Attribute) and un(f) in ("operator.xor", "operator.and_", "operator.or_", "operator.add",
                                                      "operator.sub") and len(node.args) == 2:
            op = {"xor": "xor", "and_": "and", "or_": "or", "add": "add", "sub": "sub"}[f.attr]
            return (op, int_ir(node.args[0], env), int_ir(node.args[1], env))
        if isinstance(f, ast.Lambda):
            ps = [a.arg for a in f.args.posonlyargs + f.args.args]
            if len(ps) != len(node.args):
                raise Unsupported("lambda arity")
            sub = dict(env)
            for p, a in zip(ps, node.args):
                sub[p] = int_ir(a, env)
            return int_ir(f.body, sub)
    if isinstance(node, ast.IfExp):
        raise Unsupported("conditional integer expression")
    raise Unsupported(f"integer expression {un(node)!r}")


def bool_ir(node: ast.AST, env: Dict[str, Any]) -> tuple:
    if isinstance(node, ast.Constant) and isinstance(node.value, bool):
        return ("true",) if node.value else ("false",)
    if isinstance(node, ast.BoolOp):
        parts = [bool_ir(v, env) for v in node.values]
        out = parts[0]
        for p in parts[1:]:
            out = ("band" if isinstance(node.op, ast.And) else "bor", out, p)
        return out
    if isinstance(node, ast.UnaryOp) and isinstance(node.op, ast.Not):
        return ("not", bool_ir(node.operand, env))
    if isinstance(node, ast.Compare):
        left = node.left
        out = None
        for op, right in zip(node.ops, node.comparators):
            a, b = int_ir(left, env), int_ir(right, env)
            if isinstance(op, ast.Eq):
                p = ("eq", a, b)
            elif isinstance(op, ast.NotEq):
                p = ("not", ("eq", a, b))
            elif isinstance(op, ast.Lt):
                p = ("lt", a, b)
            elif isinstance(op, ast.Gt):
                p = ("lt", b, a)
            elif isinstance(op, ast.LtE):
                p = ("not", ("lt", b, a))
            elif isinstance(op, ast.GtE):
                p = ("not", ("lt", a, b))
            elif isinstance(op, (ast.Is, ast.IsNot)):
                raise ValueIdentity(node, un(left), un(right))        # both sides are integer expressions here
            else:
                raise Unsupported(f"comparison {type(op).__name__}")
            out = p if out is None else ("band", out, p)
            left = right
        return out
    if isinstance(node, ast.IfExp):
        c = bool_ir(node.test, env)
        return ("bor", ("band", c, bool_ir(node.body, env)), ("band", ("not", c), bool_ir(node.orelse, env)))
    # truthiness of an integer expression
    return ("not", ("eq", int_ir(node, env), ("const", 0)))


# --------------------------------------------------------------------------- abs elimination
def _find_abs(ir) -> Optional[tuple]:
    if not isinstance(ir, tuple):
        return None
    if ir[0] == "abs":
        inner = _find_abs(ir[1])
        return inner if inner is not None else ir
    for x in ir[1:]:
        r = _find_abs(x)
        if r is not None:
            return r
    return None


def _replace(ir, old, new):
    if ir == old:
        return new
    if not isinstance(ir, tuple):
        return ir
    return (ir[0],) + tuple(_replace(x, old, new) for x in ir[1:])


def eliminate_abs(pred: tuple) -> tuple:
    while True:
        a = _find_abs(pred)
        if a is None:
            return pred
        d = a[1]
        neg_case = ("band", ("sign", d), _replace(pred, a, ("neg", d)))
        pos_case = ("band", ("not", ("sign", d)), _replace(pred, a, d))
        pred = ("bor", pos_case, neg_case)


# --------------------------------------------------------------------------- machine
class Machine:
    """Synchronous product of the transducers of a set of predicates (shared sub-expressions are shared)."""

    def __init__(self, preds: List[tuple]):
        self.preds = [eliminate_abs(self._lower(p)) for p in preds]
        self.nodes: List[tuple] = []       # integer nodes and eq nodes, topologically ordered
        self.index: Dict[tuple, int] = {}
        for p in self.preds:
            self._collect_pred(p)

    def _lower(self, p):
        if p[0] == "lt":
            return ("sign", ("sub", p[1], p[2]))
        if p[0] in ("not",):
            return ("not", self._lower(p[1]))
        if p[0] in ("band", "bor"):
            return (p[0], self._lower(p[1]), self._lower(p[2]))
        return p

    def _collect_int(self, e):
        if e in self.index:
            return
        if e[0] in ("add", "sub", "xor", "and", "or"):
            self._collect_int(e[1])
            self._collect_int(e[2])
        elif e[0] == "neg":
            self._collect_int(e[1])
        elif e[0] not in ("var", "const"):
            raise Unsupported(f"integer node {e[0]}")
        self.index[e] = len(self.nodes)
        self.nodes.append(e)

    def _collect_pred(self, p):
        if p[0] in ("true", "false"):
            return
        if p[0] == "not":
            self._collect_pred(p[1])
        elif p[0] in ("band", "bor"):
            self._collect_pred(p[1])
            self._collect_pred(p[2])
        elif p[0] == "eq":
            self._collect_int(p[1])
            self._collect_int(p[2])
            if p not in self.index:
                self.index[p] = len(self.nodes)
                self.nodes.append(p)
        elif p[0] == "sign":
            self._collect_int(p[1])
        elif p[0] == "lt":
            self._collect_pred(self._lower(p))
        else:
            raise Unsupported(f"predicate node {p[0]}")

    def initial(self) -> tuple:
        st = []
        for n in self.nodes:
            if n[0] in ("add",):
                st.append(0)
            elif n[0] in ("sub", "neg"):
                st.append(1)          # a - b = a + ~b + 1
            elif n[0] == "const":
                st.append(n[1])
            elif n[0] == "eq":
                st.append(True)
            else:
                st.append(None)
        return tuple(st)

    def step(self, state: tuple, bits: Dict[str, int]) -> Tuple[tuple, List[int]]:
        out = [0] * len(self.nodes)
        new = list(state)
        for i, n in enumerate(self.nodes):
            k = n[0]
            if k == "var":
                out[i] = bits[n[1]]
            elif k == "const":
                out[i] = state[i] & 1
                new[i] = state[i] >> 1
            elif k in ("xor", "and", "or"):
                a, b = out[self.index[n[1]]], out[self.index[n[2]]]
                out[i] = (a ^ b) if k == "xor" else (a & b) if k == "and" else (a | b)
            elif k == "add":
                a, b, c = out[self.index[n[1]]], out[self.index[n[2]]], state[i]
                s = a + b + c
                out[i], new[i] = s & 1, s >> 1
            elif k == "sub":
                a, b, c = out[self.index[n[1]]], 1 - out[self.index[n[2]]], state[i]
                s = a + b + c
                out[i], new[i] = s & 1, s >> 1
            elif k == "neg":
                b, c = 1 - out[self.index[n[1]]], state[i]
                s = b + c
                out[i], new[i] = s & 1, s >> 1
            elif k == "eq":
                new[i] = state[i] and (out[self.index[n[1]]] == out[self.index[n[2]]])
        return tuple(new), out

    def flush(self, state: tuple) -> Tuple[tuple, List[int]]:
        zero = {"kx": 0, "ky": 0, "P": 0}
        for _ in range(256):
            nxt, out = self.step(state, zero)
            if nxt == state:
                return state, out
            state = nxt
        raise Unsupported("flush did not converge")

    def truth(self, pred: tuple, state: tuple, out: List[int]) -> bool:
        k = pred[0]
        if k == "true":
            return True
        if k == "false":
            return False
        if k == "not":
            return not self.truth(pred[1], state, out)
        if k == "band":
            return self.truth(pred[1], state, out) and self.truth(pred[2], state, out)
        if k == "bor":
            return self.truth(pred[1], state, out) or self.truth(pred[2], state, out)
        if k == "eq":
            return bool(state[self.index[pred]])
        if k == "sign":
            return bool(out[self.index[pred[1]]])
        raise Unsupported(k)


def equivalent(a: tuple, b: tuple, assume: Optional[tuple] = None):
    """Decide  forall w, kx, ky < 2^w : assume => (a <=> b).
    Returns (True, n_states, None) or (False, n_states, witness dict)."""
    preds = [a, b] + ([assume] if assume is not None else [])
    m = Machine(preds)
    pa, pb = m.preds[0], m.preds[1]
    pc = m.preds[2] if assume is not None else None
    init = m.initial()
    parent: Dict[tuple, Optional[Tuple[tuple, int, int]]] = {init: None}
    order = [init]
    i = 0
    while i < len(order):
        st = order[i]
        i += 1
        fs, out = m.flush(st)
        if pc is None or m.truth(pc, fs, out):
            ta, tb = m.truth(pa, fs, out), m.truth(pb, fs, out)
            if ta != tb:
                bits = []
                cur = st
                while parent[cur] is not None:
                    prev, bx, by = parent[cur]
                    bits.append((bx, by))
                    cur = prev
                bits.reverse()
                kx = sum(bx << j for j, (bx, _) in enumerate(bits))
                ky = sum(by << j for j, (_, by) in enumerate(bits))
                return False, len(order), {"w": len(bits), "kx": kx, "ky": ky, "P": (1 << len(bits)) - 1,
                                           "first": ta, "second": tb}
        for bx in (0, 1):
            for by in (0, 1):
                nxt, _ = m.step(st, {"kx": bx, "ky": by, "P": 1})
                if nxt not in parent:
                    parent[nxt] = (st, bx, by)
                    order.append(nxt)
                    if len(order) > 200000:
                        raise Unsupported("state space too large")
    return True, len(order), None


def int_equal(a: tuple, b: tuple, assume: Optional[tuple] = None):
    """Decide forall inputs: assume => a == b (integer expressions)."""
    return equivalent(("eq", a, b), ("true",), assume)


KX, KY, P = ("var", "kx"), ("var", "ky"), ("var", "P")
