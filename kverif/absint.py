"""DT + OPT: abstract interpretation of small kingdon functions on one representative of a finite
partition.  Scalars that the function only compares with constants carry a concrete representative;
multivector-typed values are operator trees in normal form (optree.T); everything else is Unk.

Infix operators and method calls on multivector-typed values are resolved through the class surface
tables read from the repository source (surface.class_surface), so re-binding a dunder in the
repository changes the trees this interpreter builds.  Branching on an unknown value raises NoValue
(the rule then reports UNKNOWN); an exception the analysed code raises is the outcome ('raise', name).
"""
from __future__ import annotations

import ast
import operator as _op
import re
from fractions import Fraction
from typing import Any, Dict, List, Optional

from .astx import NoValue, un, _BIN, _CMP, identity, ValueIdentity
from .optree import T
from .surface import BINOP_DUNDER, UNOP_DUNDER, BINARY_DUNDERS, Entry

BLADE_RE = re.compile(r"^e[0-9a-fA-F]*$")
ALGEBRAIC = {"gp", "add", "sub", "neg", "reverse", "involute", "conjugate", "div"}


class Unk:
    def __init__(self, desc=""):
        self.desc = desc

    def __repr__(self):
        return f"Unk({self.desc})"


class Raised(Exception):
    def __init__(self, name: str, node=None, detail: str = ""):
        super().__init__(name)
        self.name, self.node, self.detail = name, node, detail


class _Return(Exception):
    def __init__(self, value):
        self.value = value


class _Break(Exception):
    pass


class _Continue(Exception):
    pass


class GenList(list):
    """Eagerly evaluated generator (generator function result or generator expression)."""


class _Consuming:
    """Iteration over an eagerly evaluated generator / iterator object that CONSUMES it, so that a `break` leaves the rest
    for whoever iterates the same object next (Python's iterator protocol)."""

    def __init__(self, gen):
        self.gen = gen

    def __iter__(self):
        return self

    def __next__(self):
        if not self.gen:
            raise StopIteration
        return self.gen.pop(0)


class BranchOracle:
    """Decisions for conditions whose value the representative does not fix (one decision per condition text)."""

    def __init__(self, script=()):
        self.script, self.log, self.memo = list(script), [], {}

    def decide(self, key):
        if key not in self.memo:
            i = len(self.log)
            self.memo[key] = self.script[i] if i < len(self.script) else True
            self.log.append((key, self.memo[key]))
        return self.memo[key]


def explore_branches(run, limit=16):
    """All outcomes of run(oracle) over the undetermined conditions it meets: [(decisions, outcome)] (depth first;
    NoValue if there are more than `limit` paths)."""
    results, stack = [], [[]]
    while stack:
        script = stack.pop()
        oracle = BranchOracle(script)
        outcome = run(oracle)
        results.append((list(oracle.log), outcome))
        if len(results) > limit:
            raise NoValue(f"more than {limit} paths over undetermined conditions")
        for j in range(len(script), len(oracle.log)):
            stack.append([v for _, v in oracle.log[:j]] + [False])
    return results


class ClassRef:
    def __init__(self, name):
        self.name = name

    def __repr__(self):
        return f"<class {self.name}>"

    def __eq__(self, o):
        return isinstance(o, ClassRef) and o.name == self.name

    def __hash__(self):
        return hash(self.name)


class Obj:
    """Symbolic object with attributes (values or zero-argument thunks) and methods (python callables)."""

    def __init__(self, kind: str, attrs: Dict[str, Any] = None, methods: Dict[str, Any] = None, getitem=None, call=None):
        self.kind, self.attrs, self.methods, self.getitem, self.call = kind, attrs or {}, methods or {}, getitem, call

    def __repr__(self):
        return f"<{self.kind}>"

    def __str__(self):
        return str(self.attrs["fmt"]) if "fmt" in self.attrs else f"<{self.kind}>"

    def __format__(self, spec):
        return format(str(self), spec)


class Closure:
    def __init__(self, node, env, module, defaults=None):
        self.node, self.env, self.module = node, env, module
        self.defaults = defaults        # {id(default expression): value}, evaluated where the function was defined

    def __repr__(self):
        return f"<closure {getattr(self.node, 'name', 'lambda')}>"


class _NoDefault:
    def __init__(self, reason):
        self.reason = reason


class Bound:
    def __init__(self, obj, name):
        self.obj, self.name = obj, name


class PyFunc:
    def __init__(self, fn, name="", symbolic=False):
        self.fn, self.name, self.symbolic = fn, name, symbolic

    def __repr__(self):
        return f"<py {self.name}>"


_CONSUMERS = {"list", "tuple", "sorted", "sum", "min", "max", "set", "frozenset", "dict", "enumerate", "filter", "map",
              "reduce", "Counter", "chain", "accumulate", "groupby", "starmap", "deque"}
_NUMBER_CLASSES = {"Fraction": Fraction, "Number": __import__("numbers").Number, "Real": __import__("numbers").Real,
                   "Rational": __import__("numbers").Rational, "Integral": __import__("numbers").Integral,
                   "Complex": __import__("numbers").Complex}
PY_TYPES = {"int": int, "float": float, "str": str, "tuple": tuple, "list": list, "dict": dict, "bool": bool,
            "complex": complex}


def _flatten(x):
    out = []
    for e in x:
        if isinstance(e, (list, tuple)):
            out.extend(_flatten(e))
        else:
            out.append(e)
    return out


def _fmt(v):
    """str() of a value inside an f-string; tokens (Obj with a 'fmt' attribute) print their placeholder."""
    if isinstance(v, Obj):
        return v.attrs.get("fmt")
    if isinstance(v, T):
        return f"<<{v!r}>>"
    if isinstance(v, (tuple, list)):
        parts = [_fmt(x) if not isinstance(x, str) else repr(x) for x in v]
        if any(p is None for p in parts):
            return None
        if isinstance(v, list):
            return "[" + ", ".join(parts) + "]"
        return "(" + ", ".join(parts) + ("," if len(parts) == 1 else "") + ")"
    if _concrete(v):
        return str(v)
    return None


def _hashable_key(v) -> bool:
    if isinstance(v, (Unk, T)):
        return False
    if isinstance(v, tuple):
        return all(_hashable_key(x) for x in v)
    if isinstance(v, Obj):
        return True
    return _concrete(v) and not isinstance(v, (list, dict, set))


_BUILTIN_TYPES = {"str": str, "int": int, "float": float, "dict": dict, "list": list, "tuple": tuple, "set": set,
                  "frozenset": frozenset, "bytes": bytes, "bool": bool}


def _concrete(v) -> bool:
    if isinstance(v, (Unk, T, Obj, Closure, Bound, PyFunc, ClassRef)):
        return False
    if isinstance(v, (tuple, list)):
        return all(_concrete(x) for x in v)
    if isinstance(v, dict):
        return all(_concrete(x) for x in v.values())
    return True


class Interp:
    def __init__(self, repo, tables: Dict[str, Dict[str, Entry]], registry: Dict[str, Any],
                 algebra: Optional[Obj] = None, isinstance_hook=None, attr_hook=None, max_steps: int = 40000,
                 opaque_calls=()):
        self.repo, self.tables, self.registry = repo, tables, registry
        self.algebra = algebra or Obj("algebra")
        self.isinstance_hook, self.attr_hook = isinstance_hook, attr_hook
        self.steps, self.max_steps = 0, max_steps
        self.depth = 0
        self._fn_defaults: Dict[int, Any] = {}
        self._keepalive: List[Any] = []
        self.opaque_calls = set(opaque_calls)
        self.trace: List[str] = []
        self.builtins = {
            "len": PyFunc(self._len, "len", True), "range": PyFunc(range, "range"), "abs": PyFunc(self._abs, "abs", True),
            "tuple": PyFunc(tuple, "tuple", True), "list": PyFunc(list, "list", True),
            "dict": PyFunc(lambda *a, **k: dict(*[x.attrs["__store__"] if isinstance(x, Obj) and isinstance(x.attrs.get("__store__"), dict) else x for x in a], **k), "dict", True),
            "sorted": PyFunc(self._sorted, "sorted", True), "min": PyFunc(lambda *a, **k: self._minmax(min, a, k), "min", True),
            "max": PyFunc(lambda *a, **k: self._minmax(max, a, k), "max", True),
            "sum": PyFunc(self._sum, "sum", True), "int": ClassRef("int"), "float": ClassRef("float"), "str": ClassRef("str"),
            "bool": ClassRef("bool"), "complex": ClassRef("complex"),
            "isinstance": PyFunc(self._isinstance, "isinstance", True), "zip": PyFunc(self._zip, "zip", True),
            "enumerate": PyFunc(lambda a, start=0: list(enumerate(a, start)), "enumerate", True),
            "reversed": PyFunc(lambda a: list(reversed(a)), "reversed", True),
            "any": PyFunc(lambda seq: any(self.truth(x) for x in (_Consuming(seq) if isinstance(seq, GenList) else list(seq))), "any", True),
            "all": PyFunc(lambda seq: all(self.truth(x) for x in (_Consuming(seq) if isinstance(seq, GenList) else list(seq))), "all", True), "hasattr": PyFunc(self._hasattr, "hasattr", True), "format": PyFunc(self._format_builtin, "format", True),
            "bin": PyFunc(bin, "bin"), "hex": PyFunc(hex, "hex"), "set": PyFunc(self._set, "set", True), "frozenset": PyFunc(lambda *a: frozenset(self._set(*a)) if not isinstance(self._set(*a), Unk) else Unk("frozenset"), "frozenset", True),
            "object": ClassRef("object"), "type": PyFunc(self._type, "type", True), "id": PyFunc(lambda o: id(o), "id", True), "slice": PyFunc(slice, "slice"), "Ellipsis": Ellipsis,
            "filter": PyFunc(lambda f, seq: [x for x in list(seq) if self.truth(self.call(f, [x], {}) if f is not None else x)], "filter", True),
            "map": PyFunc(lambda f, *seqs: [self.call(f, list(xs), {}) for xs in zip(*[list(q) for q in seqs])], "map", True), "iter": PyFunc(self._iter, "iter", True), "next": PyFunc(self._next, "next", True),
            "print": PyFunc(lambda *a, **k: None, "print", True),
            "exec": PyFunc(lambda *a, **k: (_ for _ in ()).throw(NoValue("exec of generated source (no stub installed)")), "exec", True),
            "eval": PyFunc(lambda *a, **k: (_ for _ in ()).throw(NoValue("eval of a string (no stub installed)")), "eval", True),
            "compile": PyFunc(lambda *a, **k: (_ for _ in ()).throw(NoValue("compile of generated source (no stub installed)")), "compile", True),
            "round": PyFunc(round, "round"), "divmod": PyFunc(divmod, "divmod"), "pow": PyFunc(self._pow, "pow", True),
            "oct": PyFunc(oct, "oct"), "chr": PyFunc(chr, "chr"), "ord": PyFunc(ord, "ord"), "ascii": PyFunc(ascii, "ascii"),
            "repr": PyFunc(lambda v: (lambda t: t if t is not None else Unk("repr"))(self.format_value(v, "", 114)), "repr", True),
            "issubclass": PyFunc(self._issubclass, "issubclass", True),
            "getattr": PyFunc(self._getattr, "getattr", True),
            "setattr": PyFunc(self._setattr, "setattr", True),
            "callable": PyFunc(self._callable, "callable", True),
            "True": True, "False": False, "None": None, "NotImplemented": NotImplemented,
            "Exception": ClassRef("Exception"), "ValueError": ClassRef("ValueError"), "TypeError": ClassRef("TypeError"),
            "NotImplementedError": ClassRef("NotImplementedError"), "ZeroDivisionError": ClassRef("ZeroDivisionError"),
            "AttributeError": ClassRef("AttributeError"), "RuntimeWarning": ClassRef("RuntimeWarning"),
            "KeyError": ClassRef("KeyError"),
        }

        self.standins = {
            "operator": Obj("module:operator", {
                "add": PyFunc(lambda a, b: self.binop(ast.Add(), a, b), "operator.add", True),
                "mul": PyFunc(lambda a, b: self.binop(ast.Mult(), a, b), "operator.mul", True),
                "sub": PyFunc(lambda a, b: self.binop(ast.Sub(), a, b), "operator.sub", True),
                "xor": PyFunc(lambda a, b: self.binop(ast.BitXor(), a, b), "operator.xor", True),
                "or_": PyFunc(lambda a, b: self.binop(ast.BitOr(), a, b), "operator.or_", True),
                "and_": PyFunc(lambda a, b: self.binop(ast.BitAnd(), a, b), "operator.and_", True),
                "iadd": PyFunc(lambda a, b: (a.extend(list(b)), a)[1] if isinstance(a, list) and not isinstance(a, GenList) and isinstance(b, (list, tuple)) else self.binop(ast.Add(), a, b), "operator.iadd", True),
                "isub": PyFunc(lambda a, b: self.binop(ast.Sub(), a, b), "operator.isub", True),
                "imul": PyFunc(lambda a, b: self.binop(ast.Mult(), a, b), "operator.imul", True),
                "itruediv": PyFunc(lambda a, b: self.binop(ast.Div(), a, b), "operator.itruediv", True),
                "ixor": PyFunc(lambda a, b: self.binop(ast.BitXor(), a, b), "operator.ixor", True),
                "ior": PyFunc(lambda a, b: self.binop(ast.BitOr(), a, b), "operator.ior", True),
                "iand": PyFunc(lambda a, b: self.binop(ast.BitAnd(), a, b), "operator.iand", True),
                "lshift": PyFunc(lambda a, b: self.binop(ast.LShift(), a, b), "operator.lshift", True),
                "abs": PyFunc(lambda a: self._abs(a), "operator.abs", True),
                "is_": PyFunc(lambda a, b: self.compare(ast.Is(), a, b, None), "operator.is_", True),
                "is_not": PyFunc(lambda a, b: self.compare(ast.IsNot(), a, b, None), "operator.is_not", True),
                "setitem": PyFunc(lambda a, k, v: a.__setitem__(k, v) if isinstance(a, (list, dict)) else (_ for _ in ()).throw(NoValue("operator.setitem")), "operator.setitem", True),
                "neg": PyFunc(lambda a: self.unop(ast.USub(), a), "operator.neg", True),
                "pos": PyFunc(lambda a: self.unop(ast.UAdd(), a), "operator.pos", True),
                "invert": PyFunc(lambda a: self.unop(ast.Invert(), a), "operator.invert", True),
                "inv": PyFunc(lambda a: self.unop(ast.Invert(), a), "operator.inv", True),
                "not_": PyFunc(lambda a: not self.truth(a), "operator.not_", True),
                "index": PyFunc(lambda a: __import__("operator").index(a) if isinstance(a, int) else Unk("operator.index"), "operator.index", True),
                "truth": PyFunc(lambda a: self.truth(a), "operator.truth", True),
                "truediv": PyFunc(lambda a, b: self.binop(ast.Div(), a, b), "operator.truediv", True),
                "matmul": PyFunc(lambda a, b: self.binop(ast.MatMult(), a, b), "operator.matmul", True),
                "rshift": PyFunc(lambda a, b: self.binop(ast.RShift(), a, b), "operator.rshift", True),
                "pow": PyFunc(lambda a, b: self.binop(ast.Pow(), a, b), "operator.pow", True),
                "mod": PyFunc(lambda a, b: self.binop(ast.Mod(), a, b), "operator.mod", True),
                "floordiv": PyFunc(lambda a, b: self.binop(ast.FloorDiv(), a, b), "operator.floordiv", True),
                "eq": PyFunc(lambda a, b: self.compare(ast.Eq(), a, b, None), "operator.eq", True),
                "ne": PyFunc(lambda a, b: self.compare(ast.NotEq(), a, b, None), "operator.ne", True),
                "lt": PyFunc(lambda a, b: self.compare(ast.Lt(), a, b, None), "operator.lt", True),
                "le": PyFunc(lambda a, b: self.compare(ast.LtE(), a, b, None), "operator.le", True),
                "gt": PyFunc(lambda a, b: self.compare(ast.Gt(), a, b, None), "operator.gt", True),
                "ge": PyFunc(lambda a, b: self.compare(ast.GtE(), a, b, None), "operator.ge", True),
                "contains": PyFunc(lambda a, b: self.compare(ast.In(), b, a, None), "operator.contains", True),
                "getitem": PyFunc(lambda a, b: self.subscript(a, b, None), "operator.getitem", True),
                "itemgetter": PyFunc(lambda *idx: PyFunc((lambda o: self.subscript(o, idx[0], None)) if len(idx) == 1 else
                                                         (lambda o: tuple(self.subscript(o, i, None) for i in idx)), "itemgetter", True), "operator.itemgetter", True),
                "attrgetter": PyFunc(lambda *names: PyFunc((lambda o: self.getattr_value(o, names[0])) if len(names) == 1 else
                                                           (lambda o: tuple(self.getattr_value(o, n) for n in names)), "attrgetter", True), "operator.attrgetter", True),
                "methodcaller": PyFunc(lambda name, *a, **k: PyFunc(lambda o: self.call(self.getattr_value(o, name), list(a), k), "methodcaller", True), "operator.methodcaller", True),
            }),
            "math": Obj("module:math", {n: (PyFunc(getattr(__import__("math"), n), f"math.{n}") if callable(getattr(__import__("math"), n))
                                            else getattr(__import__("math"), n)) for n in dir(__import__("math")) if not n.startswith("_")}),
            "warnings": Obj("module:warnings", {"warn": PyFunc(lambda *a, **k: None, "warn", True)}),
            "re": Obj("module:re", {"match": PyFunc(lambda p, s, *a: re.match(p, s), "re.match"),
                                    "search": PyFunc(lambda p, s, *a: re.search(p, s), "re.search"),
                                    "fullmatch": PyFunc(lambda p, s, *a: re.fullmatch(p, s), "re.fullmatch"),
                                    "split": PyFunc(lambda p, s, *a: re.split(p, s), "re.split"),
                                    "findall": PyFunc(lambda p, s, *a: re.findall(p, s), "re.findall"),
                                    "sub": PyFunc(lambda p, r, s, *a: re.sub(p, r, s), "re.sub")}),
            "functools.reduce": PyFunc(self._reduce, "reduce", True),
            "functools.wraps": PyFunc(lambda f, *a, **k: PyFunc(lambda g: g, "wraps(f)", True), "wraps", True),
            "functools.singledispatch": PyFunc(self._singledispatch, "singledispatch", True),
            "functools.lru_cache": PyFunc(self._lru_cache, "lru_cache", True),
            "functools.cache": PyFunc(self._lru_cache, "cache", True),
            "functools.partial": PyFunc(lambda f, *a, **k: Obj("partial", {"fmt": "<partial>"}, call=lambda *a2, **k2: self.call(f, list(a) + list(a2), {**k, **k2})), "partial", True),
            **{f"itertools.{k}": v for k, v in self._itertools().items()},
            "collections.namedtuple": PyFunc(self._namedtuple, "namedtuple", True),
            "fractions.Fraction": PyFunc(Fraction, "Fraction"),
            "collections.deque": PyFunc(lambda *a, **k: __import__("collections").deque(*a, **k), "deque"),
            "collections.OrderedDict": PyFunc(lambda *a, **k: __import__("collections").OrderedDict(*a, **k), "OrderedDict"),
            "collections.defaultdict": PyFunc(self._defaultdict, "defaultdict", True),
            "sympy.utilities.iterables.iterable": PyFunc(lambda x, *a, **k: isinstance(x, (list, tuple, set, dict)), "iterable", True),
            "sympy.utilities.iterables.flatten": PyFunc(lambda x, *a, **k: _flatten(x), "flatten", True),
            "inspect.signature": PyFunc(self._signature, "signature", True),
            "inspect": Obj("module:inspect", {
                "signature": PyFunc(self._signature, "signature", True),
                "isfunction": PyFunc(lambda x: isinstance(x, (Closure, PyFunc)), "isfunction", True),
                "isclass": PyFunc(lambda x: isinstance(x, ClassRef), "isclass", True)}),
            "keyword": Obj("module:keyword", {"iskeyword": PyFunc(__import__("keyword").iskeyword, "iskeyword")}),
            "builtins": Obj("module:builtins"),
            "itertools": Obj("module:itertools", dict(self._itertools())),
            "collections.Counter": PyFunc(lambda *a, **k: __import__("collections").Counter(*a, **k), "Counter"),
            "dataclasses.fields": PyFunc(self._dataclass_fields, "fields", True),
            "dataclasses.replace": PyFunc(self._dataclass_replace, "replace", True),
            "string": Obj("module:string", {"ascii_lowercase": "abcdefghijklmnopqrstuvwxyz",
                                            "ascii_uppercase": "ABCDEFGHIJKLMNOPQRSTUVWXYZ"}),
        }
        self.standins["functools"] = Obj("module:functools", {k.split(".", 1)[1]: v for k, v in self.standins.items() if k.startswith("functools.")})
        self.class_call_hook = None
        self.class_attr_writes: List[Any] = []
        self.module_state: Dict[Any, Any] = {}   # (module, name) -> mutable module-level object, evaluated once
        self.overrides: Dict[str, Any] = {}      # 'module.function' -> value replacing the repository definition
        self.plain_classes = {"KingdonPrinter": "codegen.KingdonPrinter", "AdditionChains": "codegen.AdditionChains",
                              "Polynomial": "polynomial.Polynomial", "RationalPolynomial": "polynomial.RationalPolynomial"}
        # classes whose instances (Obj of that kind) resolve attributes through the repository source
        self.instance_classes = {"MultiVector": "multivector.MultiVector", "TapeRecorder": "taperecorder.TapeRecorder",
                                 "GraphWidget": "graph.GraphWidget"}

    def _itertools(self):
        """Stand-ins for itertools on the interpreter's eager lists."""
        import itertools as _it

        def seq(q):
            q = self._iterable(q)
            if isinstance(q, (Unk, T, Obj)):
                raise NoValue("itertools over an abstract iterable")
            return list(q)

        def lazy(q):
            """An iterator over q that may be unbounded (count(), a generator expression over it): for consumers that stop
            with their other, finite argument."""
            if isinstance(q, Obj) and q.kind == "itertools.count":
                return self._count_iter(q)
            if isinstance(q, Obj) and q.kind == "lazy-iter":
                return q.attrs["iter"]
            return iter(seq(q))

        def repeat(x, times=None):
            if times is None:
                raise NoValue("itertools.repeat without a count")
            return [x] * times

        def accumulate(q, func=None, *, initial=None):
            out, acc, first = [], initial, initial is None
            if initial is not None:
                out.append(initial)
            for x in seq(q):
                if first:
                    acc, first = x, False
                else:
                    acc = self.call(func, [acc, x], {}) if func is not None else self.binop(ast.Add(), acc, x)
                out.append(acc)
            return out

        def zip_longest(*qs, fillvalue=None):
            return list(_it.zip_longest(*[seq(q) for q in qs], fillvalue=fillvalue))

        chain = PyFunc(lambda *a: [y for q in a for y in seq(q)], "chain", True)
        chain_obj = Obj("itertools.chain", {"fmt": "<chain>", "from_iterable": PyFunc(lambda qq: [y for q in seq(qq) for y in seq(q)], "chain.from_iterable", True)},
                        call=lambda *a: [y for q in a for y in seq(q)])
        return {
            "product": PyFunc(lambda *a, repeat=1: list(_it.product(*[seq(q) for q in a], repeat=repeat)), "product", True),
            "chain": chain_obj,
            "groupby": PyFunc(self._groupby, "groupby", True),
            "combinations": PyFunc(lambda a, r: list(_it.combinations(seq(a), r)), "combinations", True),
            "combinations_with_replacement": PyFunc(lambda a, r: list(_it.combinations_with_replacement(seq(a), r)), "combinations_with_replacement", True),
            "permutations": PyFunc(lambda a, r=None: list(_it.permutations(seq(a), r)), "permutations", True),
            "repeat": PyFunc(repeat, "repeat", True),
            "starmap": PyFunc(lambda f, q: [self.call(f, list(xs), {}) for xs in seq(q)], "starmap", True),
            "accumulate": PyFunc(accumulate, "accumulate", True),
            "zip_longest": PyFunc(zip_longest, "zip_longest", True),
            "islice": PyFunc(lambda q, *a: list(_it.islice(q.attrs["iter"] if isinstance(q, Obj) and q.kind == "lazy-iter" else
                                                           self._count_iter(q) if isinstance(q, Obj) and q.kind == "itertools.count" else
                                                           _Consuming(q) if isinstance(q, GenList) else seq(q), *a)), "islice", True),
            "takewhile": PyFunc(lambda f, q: list(_it.takewhile(lambda x: self.truth(self.call(f, [x], {})), lazy(q))), "takewhile", True),
            "dropwhile": PyFunc(lambda f, q: list(_it.dropwhile(lambda x: self.truth(self.call(f, [x], {})), seq(q))), "dropwhile", True),
            "filterfalse": PyFunc(lambda f, q: [x for x in seq(q) if not self.truth(self.call(f, [x], {}) if f is not None else x)], "filterfalse", True),
            "compress": PyFunc(lambda q, sel: [x for x, s_ in zip(lazy(q), seq(sel)) if self.truth(s_)], "compress", True),
            "count": PyFunc(lambda start=0, step=1: Obj("itertools.count", {"next": start, "step": step, "fmt": f"count({start})"}), "count", True),
            "pairwise": PyFunc(lambda q: list(zip(seq(q), seq(q)[1:])), "pairwise", True),
        }

    def decorated(self, node, module):
        """A module-level function with decorators: the decorators are applied ONCE per interpreter (the decorated
        object, with whatever state its decorator closes over, is one object for the life of the process)."""
        key = (module, "@" + node.name)
        if key in self.module_state:
            return self.module_state[key]
        f = Closure(node, {}, module)
        for deco in reversed(node.decorator_list):
            d = self.eval(deco, Env({}, {}, module, self))
            if isinstance(d, Unk):
                raise NoValue(f"decorator {un(deco)} of {module}.{node.name} is not understood")
            f = self.call(d, [f], {})
        self.module_state[key] = f
        return f

    # ------------------------------------------------------------------ builtins
    def _len(self, v):
        if isinstance(v, T):
            facts = getattr(self, "tvar_facts", {}).get("__len__", {})
            if len(v.terms) == 1:
                (w, c), = v.terms.items()
                if c == 1 and len(w) == 1 and w[0][0] == "v" and w[0][1] in facts:
                    return facts[w[0][1]]
            return Unk("len")
        if isinstance(v, Unk):
            return Unk("len")
        if isinstance(v, Obj):
            if "__len__" in v.methods:
                return v.methods["__len__"]()
            if isinstance(v.attrs.get("__fields__"), list):
                return len(v.attrs["__fields__"])
            if v.kind in self.instance_classes:
                d = self._class_def(v.kind, "__len__")
                if isinstance(d, ast.FunctionDef):
                    return self.call_function(d, [v], {}, {}, self.instance_classes[v.kind].split(".")[0])
            return Unk("len")
        return len(v)

    def _type(self, v, *rest):
        if rest:
            return Unk("type(name, bases, dict)")
        if isinstance(v, GenList):
            return ClassRef("generator")
        if isinstance(v, Obj):
            return ClassRef(v.kind)
        if isinstance(v, T):
            return ClassRef(v.cls)
        if isinstance(v, (Unk, Closure, PyFunc, Bound, ClassRef)):
            return Unk("type")
        return ClassRef(type(v).__name__)

    def _singledispatch(self, f):
        """functools.singledispatch: dispatch on the class of the first argument; implementations registered at module
        level with @f.register(cls) / @f.register (annotation) are collected from the module of `f`."""
        registry = []           # (class name or tuple of names, implementation)
        collected = {"done": False}

        def collect():
            if collected["done"] or not isinstance(f, Closure):
                return
            collected["done"] = True
            fname = getattr(f.node, "name", None)
            mod = self.repo.modules.get(f.module)
            for st in (mod.tree.body if mod else []):
                if isinstance(st, ast.FunctionDef):
                    for d in st.decorator_list:
                        target = d.func if isinstance(d, ast.Call) else d
                        if isinstance(target, ast.Attribute) and target.attr == "register" and un(target.value) == fname:
                            if isinstance(d, ast.Call) and d.args:
                                cls = self.eval(d.args[0], Env({}, {}, f.module, self))
                            else:
                                ann = st.args.args[0].annotation if st.args.args else None
                                cls = self.eval(ann, Env({}, {}, f.module, self)) if ann is not None else None
                            registry.append((cls, Closure(st, {}, f.module)))

        def call(*args, **kwargs):
            collect()
            if args:
                for cls, impl in registry:
                    r = self._isinstance(args[0], cls) if cls is not None else False
                    if isinstance(r, Unk):
                        raise NoValue("singledispatch on an abstract argument")
                    if r:
                        return self.call(impl, list(args), kwargs)
            return self.call(f, list(args), kwargs)

        def register(cls, func=None):
            if func is not None:
                registry.append((cls, func))
                return func
            if isinstance(cls, (Closure,)):
                ann = cls.node.args.args[0].annotation if cls.node.args.args else None
                registry.append((self.eval(ann, Env({}, {}, cls.module, self)) if ann is not None else None, cls))
                return cls
            return PyFunc(lambda g: (registry.append((cls, g)), g)[1], "register(cls)", True)
        return Obj("singledispatch", {"fmt": "<singledispatch>", "register": PyFunc(register, "register", True), "__wrapped__": f}, call=call)

    def _ancestors(self, kind):
        """Names of the base classes (transitively) of a class defined in the repository."""
        out, todo = [], [kind]
        while todo:
            n = todo.pop()
            for mod in self.repo.modules.values():
                for st in mod.tree.body:
                    if isinstance(st, ast.ClassDef) and st.name == n:
                        for b in st.bases:
                            bn = un(b).split(".")[-1]
                            if bn not in out:
                                out.append(bn)
                                todo.append(bn)
        return out

    def _exception_ancestors(self, name):
        """The class and its base classes by name: Python's own hierarchy for built-in exceptions, the `class X(Base)`
        statements of the repository for its own."""
        import builtins
        out, todo = [], [name]
        while todo:
            n = todo.pop()
            if n in out:
                continue
            out.append(n)
            c = getattr(builtins, n, None)
            if isinstance(c, type) and issubclass(c, BaseException):
                out.extend(b.__name__ for b in c.__mro__ if b.__name__ not in out and b is not object)
                continue
            found = False
            for mod in self.repo.modules.values():
                for st in mod.tree.body:
                    if isinstance(st, ast.ClassDef) and st.name == n:
                        todo.extend(un(b).split(".")[-1] for b in st.bases)
                        found = True
            if not found:
                out.extend(x for x in ("Exception", "BaseException") if x not in out)     # an unknown class: at least an Exception
        return out

    def _dataclass_fields(self, o):
        kind = o.kind if isinstance(o, Obj) else getattr(o, "name", None)
        if kind not in self.instance_classes and kind is not None:
            for mname, mod in self.repo.modules.items():
                if any(isinstance(st, ast.ClassDef) and st.name == kind for st in mod.tree.body):
                    self.instance_classes.setdefault(kind, f"{mname}.{kind}")
        if kind not in self.instance_classes:
            return Unk("fields")
        out = []
        for st in self.repo.cls(self.instance_classes[kind]).body:
            if isinstance(st, ast.AnnAssign) and isinstance(st.target, ast.Name) and "ClassVar" not in un(st.annotation):
                attrs = {"name": st.target.id, "type": un(st.annotation), "init": True, "compare": True, "repr": True, "metadata": {},
                         "fmt": f"Field({st.target.id})"}
                if isinstance(st.value, ast.Call) and un(st.value.func).split(".")[-1] == "field":
                    for kw in st.value.keywords:
                        if kw.arg in ("init", "compare", "repr", "metadata"):
                            try:
                                attrs[kw.arg] = ast.literal_eval(kw.value)
                            except Exception:
                                attrs[kw.arg] = Unk(kw.arg)
                out.append(Obj("Field", attrs))
        return tuple(out)

    def _dataclass_replace(self, o, **changes):
        flds = self._dataclass_fields(o)
        if isinstance(flds, Unk) or not isinstance(o, Obj):
            return Unk("replace")
        kwargs = {}
        for f in flds:
            n = f.attrs["name"]
            if f.attrs["init"] is not True:
                if n in changes:
                    raise Raised("ValueError")
                continue
            kwargs[n] = changes[n] if n in changes else o.attrs.get(n)
        if set(changes) - {f.attrs["name"] for f in flds}:
            raise Raised("TypeError")
        return self.call(ClassRef(o.kind), [], kwargs)

    def _signature(self, f, **k):
        """inspect.signature: the parameter names, in order (Signature.parameters is an ordered mapping)."""
        names = None
        if isinstance(f, Closure):
            a = f.node.args
            names = [p.arg for p in a.posonlyargs + a.args] + ([a.vararg.arg] if a.vararg else []) + [p.arg for p in a.kwonlyargs] + \
                ([a.kwarg.arg] if a.kwarg else [])
        elif isinstance(f, Obj) and isinstance(f.attrs.get("__signature__"), (list, tuple)):
            names = list(f.attrs["__signature__"])            # a stand-in that states its signature
        elif isinstance(f, PyFunc):
            import inspect
            try:
                names = list(inspect.signature(f.fn).parameters)
            except (TypeError, ValueError):
                raise Raised("ValueError")
        elif isinstance(f, ClassRef) and f.name in _BUILTIN_TYPES:
            import inspect
            try:
                names = list(inspect.signature(_BUILTIN_TYPES[f.name]).parameters)
            except (TypeError, ValueError):
                raise Raised("ValueError")
        if names is None:
            return Unk("signature")
        return Obj("Signature", {"parameters": {n: Obj("Parameter", {"name": n, "fmt": n}) for n in names}, "fmt": f"({', '.join(names)})"})

    def _count_iter(self, c):
        """The unbounded counter as a lazy Python iterator that advances the stand-in's state."""
        while True:
            v = c.attrs["next"]
            c.attrs["next"] = self.binop(ast.Add(), v, c.attrs["step"])
            yield v

    def _zip(self, *seqs, **k):
        """zip over lists and generator objects with Python's consumption: every generator object is advanced exactly as
        far as zip advances it (the same object given twice is advanced twice per tuple)."""
        iters = {}
        its = []
        for q in seqs:
            q = self._iterable(q)
            if isinstance(q, Obj) and q.kind == "itertools.count":
                its.append(iters.setdefault(id(q), self._count_iter(q)))
                continue
            if isinstance(q, Obj) and q.kind == "lazy-iter":
                its.append(q.attrs["iter"])
                continue
            if isinstance(q, (Unk, T, Obj)):
                raise NoValue("zip over an unknown iterable")
            if isinstance(q, GenList):
                its.append(iters.setdefault(id(q), _Consuming(q)))
            else:
                its.append(iter(list(q)))
        return list(zip(*its))

    def _pow(self, a, b, *mod):
        if mod:
            if _concrete([a, b, mod[0]]):
                return pow(a, b, mod[0])
            return Unk("pow")
        return self.binop(ast.Pow(), a, b)

    def _issubclass(self, c, bases):
        bases = bases if isinstance(bases, tuple) else (bases,)
        names = [getattr(x, "name", None) for x in (c,) + tuple(bases)]
        if all(n in _BUILTIN_TYPES or n in ("bool", "object") for n in names):
            real = {**_BUILTIN_TYPES, "bool": bool, "object": object}
            return issubclass(real[names[0]], tuple(real[n] for n in names[1:]))
        if names[0] is not None and names[0] in names[1:]:
            return True
        return Unk("issubclass")

    def _minmax(self, which, a, k):
        key = k.get("key")
        seq = a[0] if len(a) == 1 else list(a)
        seq = self._iterable(seq)
        if isinstance(seq, (Unk, T, Obj)):
            return Unk(which.__name__)
        items = list(seq)
        if isinstance(seq, GenList):
            del seq[:]
        if not items:
            if "default" in k:
                return k["default"]
            raise Raised("ValueError")
        keys = [self.call(key, [x], {}) for x in items] if key is not None else items
        if not _concrete(keys):
            return Unk(which.__name__)
        try:
            best = which(range(len(items)), key=lambda i: keys[i])
        except TypeError:
            raise Raised("TypeError")
        return items[best]

    def _namedtuple(self, name, fields, **k):
        """collections.namedtuple(name, fields): a real named-tuple class; its instances are tuples whose items may be
        abstract values."""
        import collections
        try:
            cls = collections.namedtuple(name, fields, **{kk: v for kk, v in k.items() if kk in ("defaults", "rename")})
        except (TypeError, ValueError):
            raise Raised("ValueError")
        return PyFunc(lambda *a, **kw: cls(*a, **kw), name, True)

    def _defaultdict(self, factory=None, *a, **k):
        import collections
        if factory is None:
            return collections.defaultdict(None, *a, **k)
        return collections.defaultdict(lambda: self.call(factory, [], {}), *a, **k)

    def _lru_cache(self, *a, **k):
        """functools.lru_cache / cache with Python's semantics: results are remembered per (hashable) argument tuple for
        the life of the decorated object - so a memoised function that is not pure goes stale here as it does in Python."""
        def decorate(f):
            memo = {}

            def call(*args, **kwargs):
                try:
                    key = (args, tuple(sorted(kwargs.items())))
                    hash(key)
                except TypeError:
                    return self.call(f, list(args), kwargs)
                if not (_concrete(list(args)) and _concrete(kwargs)):
                    key = (tuple(id(x) if isinstance(x, (Obj, T, Closure)) else x for x in args), tuple(sorted((n, id(v)) for n, v in kwargs.items())))
                if key not in memo:
                    memo[key] = self.call(f, list(args), kwargs)
                return memo[key]
            return Obj("lru_cached", {"fmt": "<lru_cache>", "__wrapped__": f, "__name__": getattr(getattr(f, "node", None), "name", "f")}, call=call)
        if len(a) == 1 and not k and isinstance(a[0], (Closure, PyFunc, Bound)):
            return decorate(a[0])                 # @lru_cache without parentheses
        return PyFunc(decorate, "lru_cache(...)", True)

    def format_value(self, val, spec="", conversion=-1):
        """Text of `{val!conv:spec}` / format(val, spec): through __format__ / __str__ / __repr__ of repository classes,
        Python's own formatting for concrete values, the placeholder of a token (no spec)."""
        if isinstance(val, Obj) and val.kind in self.instance_classes:
            module = self.instance_classes[val.kind].split(".")[0]
            order = {115: ["__str__", "__repr__"], 114: ["__repr__"], 97: ["__repr__"]}.get(conversion, ["__format__", "__str__", "__repr__"])
            for name in order:
                d = self._class_def(val.kind, name)
                if isinstance(d, ast.FunctionDef):
                    r = self.call_function(d, [val] + ([spec] if name == "__format__" else []), {}, {}, module)
                    if isinstance(r, str):
                        return format(r, spec) if (name != "__format__" and spec) else r
                    return None
        if isinstance(val, Obj):
            txt = val.attrs.get("fmt")
            if txt is None:
                return None
            if spec and not re.fullmatch(r"[<>^]?\d*s?", spec):
                return None                      # a numeric presentation of an opaque value is not known
            return format(str(txt), spec) if spec else str(txt)
        if conversion in (114, 97) and _concrete(val):
            val = repr(val) if conversion == 114 else ascii(val)
        elif conversion == 115 and _concrete(val):
            val = str(val)
        if spec and _concrete(val) and not isinstance(val, (list, tuple, dict)):
            try:
                return format(val, spec)
            except (ValueError, TypeError):
                raise Raised("ValueError")
        return _fmt(val)

    def _format_builtin(self, val, spec=""):
        txt = self.format_value(val, spec if isinstance(spec, str) else "")
        return txt if txt is not None else Unk("format")

    def _iter(self, v, *sentinel):
        if sentinel or isinstance(v, (Unk, T)):
            return Unk("iter")
        v = self._iterable(v)
        if isinstance(v, Obj):
            return Unk("iter")
        if isinstance(v, GenList):
            return v                      # an iterator is its own iterator
        return GenList(list(v))

    def _next(self, it, *default):
        """next() on an eagerly evaluated generator: the list holds what is still to come."""
        if isinstance(it, Obj) and it.kind == "itertools.count":
            return next(self._count_iter(it))
        if isinstance(it, Obj) and it.kind == "lazy-iter":
            try:
                return next(it.attrs["iter"])
            except StopIteration:
                if default:
                    return default[0]
                raise Raised("StopIteration")
        if not isinstance(it, GenList):
            if isinstance(it, (list, tuple, dict, str)):
                raise Raised("TypeError")
            return Unk("next")
        if it:
            return it.pop(0)
        if default:
            return default[0]
        raise Raised("StopIteration")

    def _callable(self, v):
        if isinstance(v, (Closure, PyFunc, ClassRef, Bound)):
            return True
        if isinstance(v, Obj):
            if v.call is not None or "__call__" in v.methods:
                return True
            if v.kind in self.instance_classes:
                return isinstance(self._class_def(v.kind, "__call__"), ast.FunctionDef)
            return False
        if isinstance(v, (Unk, T)):
            return Unk("callable")
        return callable(v)

    def _setattr(self, o, n, v):
        if isinstance(o, Obj) and isinstance(n, str):
            o.attrs[n] = v
            return None
        if isinstance(o, ClassRef) and isinstance(n, str):
            self.class_attr_writes.append((o.name, n, v))     # a class attribute: recorded, instances do not see it
            return None
        raise NoValue(f"setattr on {o!r}")

    def _getattr(self, o, n, *default):
        if default:
            if isinstance(o, (list, tuple, dict, str, int, float)) and not hasattr(o, n):
                return default[0]
            if isinstance(o, Obj) and n not in o.attrs and n not in o.methods and o.kind not in self.instance_classes \
                    and "__getattr__" not in o.methods:
                return default[0]
            try:
                return self.getattr_value(o, n)
            except Raised as r:
                if r.name == "AttributeError":
                    return default[0]
                raise
        return self.getattr_value(o, n)

    def _iterable(self, v):
        if isinstance(v, Obj) and "__iter__" in v.methods:
            return list(v.methods["__iter__"]())
        if isinstance(v, Obj) and isinstance(v.attrs.get("__store__"), dict) and v.kind in self.instance_classes \
                and self._class_def(v.kind, "__iter__") is None:
            return list(v.attrs["__store__"])             # a dict subclass iterates over its keys
        if isinstance(v, Obj) and isinstance(v.attrs.get("__fields__"), list):
            return tuple(v.attrs.get(f) for f in v.attrs["__fields__"])
        if isinstance(v, Obj) and v.kind in self.instance_classes:
            d = self._class_def(v.kind, "__iter__")
            if isinstance(d, ast.FunctionDef):
                r = self.call_function(d, [v], {}, {}, self.instance_classes[v.kind].split(".")[0])
                if isinstance(r, (list, tuple, GenList)):
                    return r
        return v

    def _hasattr(self, v, name):
        if isinstance(v, Unk):
            return Unk("hasattr")
        if isinstance(v, Closure):
            return name in ("__code__", "__name__", "__call__")
        if isinstance(v, (PyFunc, Bound)):
            return name in ("__call__",)
        if isinstance(v, Obj):
            if name in v.attrs or name in v.methods:
                return True
            if v.kind in self.instance_classes:
                if self._class_def(v.kind, name) is not None:
                    return True
                if self._class_def(v.kind, "__getattr__") is not None or "__getattr__" in v.methods:
                    try:                    # hasattr is "getattr does not raise AttributeError"
                        self.getattr_value(v, name)
                        return True
                    except Raised as r:
                        if r.name == "AttributeError":
                            return False
                        raise
                return False
            return False
        if isinstance(v, T):
            return name in self.tables.get(v.cls, {})
        return hasattr(v, name)

    def _groupby(self, seq, key=None):
        out = []
        for x in list(seq):
            k = self.call(key, [x], {}) if key is not None else x
            if out and out[-1][0] == k:
                out[-1][1].append(x)
            else:
                out.append((k, [x]))
        return out

    def _sum(self, seq, start=0):
        if isinstance(seq, (Unk, T, Obj)):
            return Unk("sum")
        acc = start
        for x in list(seq):
            acc = self.binop(ast.Add(), acc, x)
        return acc

    def _sorted(self, seq, key=None, reverse=False):
        if isinstance(seq, (Unk, T, Obj)):
            return Unk("sorted")
        items = list(seq)
        if key is None:
            if not _concrete(items):
                return Unk("sorted")
            return sorted(items, reverse=reverse)
        keys = [self.call(key, [x], {}) for x in items]
        if not _concrete(keys):
            return Unk("sorted")
        order = sorted(range(len(items)), key=lambda i: keys[i], reverse=reverse)
        return [items[i] for i in order]

    def _set(self, *a):
        try:
            return set(*a)
        except TypeError:
            return Unk("set")

    def _abs(self, v):
        if isinstance(v, (int, float, Fraction)):
            return abs(v)
        return Unk("abs")

    def _reduce(self, f, seq, *init):
        seq = list(seq)
        if init:
            acc = init[0]
        else:
            if not seq:
                raise Raised("TypeError")
            acc, seq = seq[0], seq[1:]
        for x in seq:
            acc = self.call(f, [acc, x], {})
        return acc

    def _isinstance(self, v, cls):
        classes = cls if isinstance(cls, tuple) else (cls,)
        res = False
        for c in classes:
            name = c.name if isinstance(c, ClassRef) else getattr(c, "name", None)
            if name is None:
                return Unk("isinstance")
            if self.isinstance_hook is not None:
                r = self.isinstance_hook(v, name)
                if r is not None:
                    if r:
                        return True
                    continue
            if isinstance(v, T):
                if name == v.cls or (name == "__class__"):
                    return True
                continue
            if isinstance(v, Unk):
                return Unk("isinstance")
            if name == "tuple" and isinstance(v, Obj) and isinstance(v.attrs.get("__fields__"), list):
                return True                      # an instance of a NamedTuple class
            if name in PY_TYPES:
                if isinstance(v, PY_TYPES[name]) and not (name == "list" and isinstance(v, GenList)):
                    return True
                continue
            if name in _NUMBER_CLASSES and not isinstance(v, (Obj, Closure, PyFunc, Bound, ClassRef)):
                if isinstance(v, _NUMBER_CLASSES[name]):
                    return True
                continue
            if name in ("Callable",):
                if isinstance(v, (Closure, PyFunc, Bound)) or (isinstance(v, Obj) and v.call is not None):
                    return True
                if isinstance(v, Obj) and v.kind in self.instance_classes and self._class_def(v.kind, "__call__") is not None:
                    return True
                continue
            if isinstance(v, Obj):
                if v.kind == name or name in self._ancestors(v.kind):
                    return True
                continue
            if name == "Mapping":
                if isinstance(v, dict):
                    return True
                continue
            if name == "GeneratorType":
                if isinstance(v, GenList):
                    return True
                continue
            if isinstance(v, (int, float, str, tuple, list, dict, set, Fraction, range, type(None), Closure, PyFunc, Bound)):
                continue  # a plain Python value is not an instance of a library class
            return Unk("isinstance")
        return res

    # ------------------------------------------------------------------ operators
    def apply_op(self, opname: str, operands: List[Any], cls: str, node=None):
        if opname not in self.registry:
            raise Raised("AttributeError", node)
        row = self.registry[opname]
        arity = 1 if "Unary" in row.dict_class else 2
        if len(operands) != arity:
            raise Raised("TypeError", node)
        ts = []
        for o in operands:
            if isinstance(o, T):
                ts.append(o)
            elif isinstance(o, (int, float, Fraction)) and not isinstance(o, bool):
                ts.append(T.num(Fraction(o), cls))
            else:
                return Unk(f"{opname}({o!r})")
        self.trace.append(opname)
        if opname == "gp":
            r = ts[0].gp(ts[1])
        elif opname == "add":
            r = ts[0].add(ts[1])
        elif opname == "sub":
            r = ts[0].sub(ts[1])
        elif opname == "neg":
            r = ts[0].neg()
        elif opname == "reverse":
            r = ts[0].reverse()
        elif opname == "involute":
            r = ts[0].involute()
        elif opname == "conjugate":
            r = ts[0].conjugate()
        elif opname == "div":
            if ts[1].is_number() and ts[1].number() != 0:
                r = ts[0].scale(1 / ts[1].number())
            else:
                r = ts[0].gp(T.opaque("inv", (ts[1],), cls))
        else:
            r = T.opaque(opname, tuple(ts), cls)
        r.cls = cls
        return r

    def _method(self, t: T, name: str, args, kwargs, node=None):
        table = self.tables.get(t.cls, {})
        e = table.get(name)
        if e is None:
            if "__getattr__" in table and BLADE_RE.match(name):
                return self.getattr_value(t, name, node)
            raise Raised("AttributeError", node)
        if e.kind == "op":
            roles = {"self": t}
            if args:
                roles["other"] = args[0]
            if len(args) > 1 or kwargs:
                raise Raised("TypeError", node)
            try:
                operands = [roles[r] for r in e.order]
            except KeyError:
                raise Raised("TypeError", node)
            return self.apply_op(e.op, operands, t.cls, node)
        if name in self.opaque_calls or not isinstance(e.node, (ast.FunctionDef,)):
            return self.opaque_method(t, name, args, kwargs)
        return self.call_function(e.node, [t] + list(args), kwargs, {}, self._module_of_cls(t.cls))

    def opaque_method(self, t: T, name, args, kwargs):
        if name in ("values", "items", "keys") and not args:
            if t.is_pure_scalar():
                return {"values": [t], "items": [(0, t)], "keys": (0,)}[name]
            k, v = Obj("keys-of", {"fmt": f"keys({t!r})", "of": t}), Obj("values-of", {"fmt": f"values({t!r})", "of": t})
            return {"values": [v], "items": [(k, v)], "keys": (k,)}[name]
        if any(isinstance(a, Unk) for a in args):
            return Unk(name)
        r = T.opaque(name, (t,) + tuple(args), t.cls)
        return r

    def _module_of_cls(self, cls):
        return {"MultiVector": "multivector", "TapeRecorder": "taperecorder"}.get(cls, "multivector")

    def binop(self, op, a, b, node=None):
        if isinstance(op, ast.Div) and isinstance(b, T) and b.is_pure_scalar() and isinstance(a, (int, float)) and a == 1 \
                and getattr(self, "scalar_reciprocals", False):
            return Obj("reciprocal", {"of": b, "fmt": f"(1/{b!r})"})
        if isinstance(a, T) or isinstance(b, T):
            d = BINOP_DUNDER.get(type(op))
            if d is None:
                raise Raised("TypeError", node)
            if isinstance(a, T):
                table = self.tables.get(a.cls, {})
                if d in table:
                    return self._method(a, d, [b], {}, node)
                if not isinstance(b, T):
                    raise Raised("TypeError", node)
            if isinstance(b, T):
                if isinstance(a, Unk):
                    return Unk("binop")
                rd = BINARY_DUNDERS.get(d)
                table = self.tables.get(b.cls, {})
                if rd in table:
                    return self._method(b, rd, [a], {}, node)
            raise Raised("TypeError", node)
        if isinstance(a, Unk) or isinstance(b, Unk):
            return Unk("binop")
        if isinstance(a, Obj) or isinstance(b, Obj):
            for o, other, refl in ((a, b, False), (b, a, True)):
                if isinstance(o, Obj) and "binop" in o.methods:
                    r = o.methods["binop"](type(op).__name__, other, refl)
                    if r is not NotImplemented:
                        return r
            d = BINOP_DUNDER.get(type(op))
            if d is not None:
                for o, other, name in ((a, b, d), (b, a, BINARY_DUNDERS.get(d))):
                    if isinstance(o, Obj) and o.kind in self.instance_classes and name:
                        fn = self._class_def(o.kind, name)
                        if isinstance(fn, ast.FunctionDef):
                            r_ = self.call_function(fn, [o, other], {}, {}, self.instance_classes[o.kind].split(".")[0])
                            if r_ is NotImplemented:
                                continue                     # Python then tries the reflected method of the other operand
                            return r_
                        if isinstance(fn, ast.Assign):          # e.g. __mul__ = partialmethod(binary_operator, operator='gp')
                            bound = self._class_attribute(o, fn, name, self.instance_classes[o.kind].split(".")[0])
                            if isinstance(bound, PyFunc):
                                return self.call(bound, [other], {})
            return Unk("binop")
        if isinstance(op, ast.Div):
            try:
                if isinstance(a, Fraction) or isinstance(b, Fraction):
                    return Fraction(a) / Fraction(b)
                return a / b
            except ZeroDivisionError:
                raise Raised("ZeroDivisionError", node)
            except TypeError:
                raise Raised("TypeError", node)
        fn = _BIN.get(type(op))
        if fn is None:
            raise NoValue(f"operator {type(op).__name__}")
        try:
            return fn(a, b)
        except TypeError as exc:
            if not (_concrete(a) and _concrete(b)):
                raise NoValue(f"operator {type(op).__name__} on abstract operands ({exc})")
            raise Raised("TypeError", node)
        except ZeroDivisionError:
            raise Raised("ZeroDivisionError", node)

    def unop(self, op, v, node=None):
        if isinstance(op, ast.Not):
            return not self.truth(v, node)
        if isinstance(v, T):
            d = UNOP_DUNDER.get(type(op))
            table = self.tables.get(v.cls, {})
            if d in table:
                return self._method(v, d, [], {}, node)
            raise Raised("TypeError", node)
        if isinstance(v, Unk):
            return Unk("unop")
        if isinstance(v, Obj):
            if "unop" in v.methods:
                return v.methods["unop"](type(op).__name__)
            d = UNOP_DUNDER.get(type(op))
            if v.kind in self.instance_classes and d:
                fn = self._class_def(v.kind, d)
                if isinstance(fn, ast.FunctionDef):
                    return self.call_function(fn, [v], {}, {}, self.instance_classes[v.kind].split(".")[0])
            return Unk("unop")
        if isinstance(op, ast.USub):
            return -v
        if isinstance(op, ast.UAdd):
            return +v
        if isinstance(op, ast.Invert):
            return ~v
        raise NoValue(un(node))

    def truth(self, v, node=None) -> bool:
        if isinstance(v, Unk) and getattr(self, "branch_oracle", None) is not None and node is not None:
            # a data-dependent condition the representative does not fix: the rule follows it both ways
            return self.branch_oracle.decide(un(node))
        if isinstance(v, Unk):
            raise NoValue(f"branch on unknown value {v.desc} in {un(node) if node is not None else ''}")
        if isinstance(v, T):
            hook = getattr(self, "t_truth", None)
            if hook is not None:
                return hook(v)
            table = self.tables.get(v.cls, {})
            if "__bool__" in table:
                raise NoValue("truth value of a multivector-typed value")
            return True
        if isinstance(v, Obj):
            if "truth" in v.methods:
                return v.methods["truth"]()
            if v.kind in self.instance_classes:
                for d in ("__bool__", "__len__"):
                    fn = self._class_def(v.kind, d)
                    if isinstance(fn, ast.FunctionDef):
                        r = self.call_function(fn, [v], {}, {}, self.instance_classes[v.kind].split(".")[0])
                        return self.truth(r, node)
            return True
        return bool(v)

    # ------------------------------------------------------------------ attribute access
    def getattr_value(self, v, name: str, node=None):
        if self.attr_hook is not None:
            r = self.attr_hook(v, name)
            if r is not NotImplemented:
                return r
        if isinstance(v, T):
            if name == "algebra":
                return self.algebra
            if name == "__class__":
                return ClassRef(v.cls)
            table = self.tables.get(v.cls, {})
            if name in table:
                e = table[name]
                if e.kind == "python" and isinstance(e.node, ast.FunctionDef) and any(
                        un(d) in ("cached_property", "property") for d in e.node.decorator_list):
                    if name in self.opaque_calls:
                        facts = getattr(self, "tvar_facts", {}).get(name, {})
                        if len(v.terms) == 1:
                            (w, c), = v.terms.items()
                            if c == 1 and len(w) == 1 and w[0][0] == "v" and not w[0][2] and not w[0][3] and w[0][1] in facts:
                                return facts[w[0][1]]
                        return Obj("opaque-property", {"fmt": f"{name}({v!r})", "of": v.key(), "name": name})
                    return self.call_function(e.node, [v], {}, {}, self._module_of_cls(v.cls))
                return Bound(v, name)
            if BLADE_RE.match(name):
                if name == "e" and v.is_pure_scalar():
                    return v
                return T.scalar(("coef", v.key(), name), v.cls)
            if name in ("_values", "_keys", "expr"):
                return Unk(name)
            raise Raised("AttributeError", node)
        if isinstance(v, Obj):
            if name == "__class__":
                return ClassRef(v.kind)
            if name == "__dict__":
                return v.attrs
            if name in v.attrs:
                a = v.attrs[name]
                return a() if callable(a) and not isinstance(a, (PyFunc, Closure, Bound, ClassRef, Obj, T)) else a
            if name in v.methods:
                return PyFunc(v.methods[name], f"{v.kind}.{name}", True)
            if isinstance(v.attrs.get("__fields__"), list) and name in ("_replace", "_asdict", "_fields"):
                flds = v.attrs["__fields__"]
                if name == "_fields":
                    return tuple(flds)
                if name == "_asdict":
                    return PyFunc(lambda: {f: v.attrs.get(f) for f in flds}, "_asdict", True)

                def _replace(**kw):
                    if set(kw) - set(flds):
                        raise Raised("ValueError")
                    o = Obj(v.kind, dict(v.attrs))
                    o.attrs.update(kw)
                    return o
                return PyFunc(_replace, "_replace", True)
            if "__getattr__" in v.methods:
                return v.methods["__getattr__"](name)
            if v.kind in self.instance_classes:
                return self._instance_attr(v, name, node)
            if v.kind == "module:re" and hasattr(re, name):
                a = getattr(re, name)
                return PyFunc(a, f"re.{name}") if callable(a) else a
            if v.kind.startswith("module:") and (name[:1].isupper() or name in ("ndarray",)):
                return ClassRef(name)
            return Unk(f"{v.kind}.{name}")
        if isinstance(v, Unk):
            return Unk(f"{v.desc}.{name}")
        if isinstance(v, PyFunc) and v.name in ("dict", "list", "tuple", "str", "int", "float", "set", "frozenset") \
                and hasattr(_BUILTIN_TYPES.get(v.name, object), name):
            return PyFunc(getattr(_BUILTIN_TYPES[v.name], name), f"{v.name}.{name}")      # dict.fromkeys, str.join, int.from_bytes, ...
        if isinstance(v, Closure):
            if name == "__code__":
                a = v.node.args
                return Obj("code", {"co_argcount": len(a.posonlyargs) + len(a.args)})
            if name == "__name__":
                return getattr(v.node, "name", "<lambda>")
            return Unk(f"function.{name}")
        if isinstance(v, ClassRef) and name in ("__name__", "__qualname__"):
            return v.name
        if isinstance(v, ClassRef):
            if v.name not in self.instance_classes and v.name not in _BUILTIN_TYPES:
                for mname, mod in self.repo.modules.items():
                    if any(isinstance(st, ast.ClassDef) and st.name == v.name for st in mod.tree.body) and self._namedtuple_fields(v.name) is None:
                        self.instance_classes.setdefault(v.name, f"{mname}.{v.name}")
            if v.name in self.instance_classes:
                d = self._class_def(v.name, name)
                if isinstance(d, ast.FunctionDef):
                    decos = {un(x) for x in d.decorator_list}
                    module = self.instance_classes[v.name].split(".")[0]
                    if "classmethod" in decos:
                        return PyFunc(lambda *a, **k: self.call_function(d, [v] + list(a), k, {}, module), f"{v.name}.{name}", True)
                    return PyFunc(lambda *a, **k: self.call_function(d, list(a), k, {}, module), f"{v.name}.{name}", True)
            if v.name in _BUILTIN_TYPES and hasattr(_BUILTIN_TYPES[v.name], name):
                return PyFunc(getattr(_BUILTIN_TYPES[v.name], name), f"{v.name}.{name}")
            if v.name == "object" and name == "__new__":
                return PyFunc(lambda cls, *a, **k: Obj(cls.name if isinstance(cls, ClassRef) else "object"), "object.__new__", True)
            return Unk(f"{v.name}.{name}")
        if isinstance(v, (list, tuple, dict, str, set, frozenset)) and name == "__class__":
            return ClassRef(type(v).__name__ if not isinstance(v, GenList) else "generator")
        if isinstance(v, tuple) and name in getattr(v, "_fields", ()):
            return getattr(v, name)                        # a field of a named tuple
        if isinstance(v, tuple) and name == "_fields" and hasattr(v, "_fields"):
            return v._fields
        if isinstance(v, (list, tuple, dict, str, set, frozenset)) and hasattr(v, name):
            return PyFunc(getattr(v, name), name, True)
        if isinstance(v, (re.Pattern, re.Match)) and hasattr(v, name):
            a = getattr(v, name)
            return PyFunc(a, f"re.{name}") if callable(a) else a
        if isinstance(v, (int, float, Fraction, complex)):
            if name in ("e",):
                return v
            if hasattr(v, name):
                a = getattr(v, name)
                return PyFunc(a, name) if callable(a) else a          # numerator, real, imag, ... are values
            raise Raised("AttributeError", node)
        import collections as _c
        if isinstance(v, (_c.deque, _c.Counter, _c.OrderedDict, _c.defaultdict, range, slice, bytes)) and hasattr(v, name):
            a = getattr(v, name)
            return PyFunc(a, name, True) if callable(a) else a
        return Unk(name)

    def _instantiate(self, name, args, kwargs):
        """Instance of a plain class of the repository: run its __init__ from source."""
        if name in ("MultiVector", "TapeRecorder", "GraphWidget"):
            return NotImplemented
        if name not in self.plain_classes:
            # any other class DEFINED IN THE REPOSITORY (a helper class a refactoring introduced, a callable object
            # replacing a closure, ...) is instantiated from its source as well
            if name in ("Algebra", "OperatorDict", "UnaryOperatorDict", "Registry", "BladeDict") or self._namedtuple_fields(name) is not None:
                return NotImplemented
            found = None
            for mname, mod in self.repo.modules.items():
                for st in mod.tree.body:
                    if isinstance(st, ast.ClassDef) and st.name == name:
                        found = f"{mname}.{name}"
            if found is None or any(un(b).split(".")[-1] in ("Exception", "BaseException", "NamedTuple", "Enum", "DOMWidget", "AnyWidget")
                                    or un(b).endswith("Error") for b in self.repo.cls(found).bases):
                return NotImplemented
            self.plain_classes[name] = found
        qual = self.plain_classes[name]
        self.instance_classes[name] = qual
        o = Obj(name)
        # a repository class that extends an EXTERNAL class for which the rule supplies a callable stand-in (a printer of sympy, ...)
        # and has no constructor of its own: the instance is what the stand-in base constructs, under the subclass's name (methods
        # the subclass defines are found through the class; everything else is the stand-in's)
        cdef = self.repo.cls(qual)
        if cdef.bases and self._class_def(name, "__init__") is None and self._class_def(name, "__new__") is None:
            for b in cdef.bases:
                try:
                    base = self.eval(b, Env({}, {}, qual.split(".")[0], self))
                except (NoValue, Raised):
                    continue
                if isinstance(base, Obj) and base.call is not None:
                    inst = base.call(*args, **kwargs)
                    if isinstance(inst, Obj):
                        return Obj(name, dict(inst.attrs), dict(inst.methods), inst.getitem, inst.call)
        if any(un(b) in ("dict", "collections.UserDict", "UserDict") for b in self.repo.cls(qual).bases):
            store = {}
            o.attrs["__store__"] = store
            module = qual.split(".")[0]

            def getitem(key, o=o, store=store):
                if key in store:
                    return store[key]
                missing = self._class_def(name, "__missing__")
                if isinstance(missing, ast.FunctionDef):
                    return self.call_function(missing, [o, key], {}, {}, module)
                raise Raised("KeyError")
            o.getitem = getitem
            o.methods["setitem"] = lambda k, v, store=store: store.__setitem__(k, v)
            o.methods["get"] = lambda k, d=None, store=store: store.get(k, d)
            o.methods["__len__"] = lambda store=store: len(store)
            o.methods["__contains__"] = lambda k, store=store: k in store
            o.methods["keys"] = lambda store=store: list(store.keys())
            o.methods["items"] = lambda store=store: list(store.items())
            o.methods["values"] = lambda store=store: list(store.values())
        new = self._class_def(name, "__new__")
        if isinstance(new, ast.FunctionDef):
            made = self.call_function(new, [ClassRef(name)] + list(args), kwargs, {}, qual.split(".")[0])
            if not (isinstance(made, Obj) and made.kind == name):
                return made                       # __new__ returned something else: __init__ is not run
            made.attrs.update({k: v for k, v in o.attrs.items() if k not in made.attrs})
            made.methods.update({k: v for k, v in o.methods.items() if k not in made.methods})
            if made.getitem is None:
                made.getitem = o.getitem
            o = made
        init = self._class_def(name, "__init__")
        if isinstance(init, ast.FunctionDef):
            self.call_function(init, [o] + list(args), kwargs, {}, qual.split(".")[0])
        elif isinstance(new, ast.FunctionDef):
            pass
        else:
            cls = self.repo.cls(qual)
            fields = [st.target.id for st in cls.body if isinstance(st, ast.AnnAssign) and isinstance(st.target, ast.Name)
                      and not (isinstance(st.value, ast.Call) and "init=False" in un(st.value))]
            vals = dict(zip(fields, args))
            vals.update(kwargs)
            o.attrs.update(vals)
            for st in cls.body:
                if isinstance(st, ast.AnnAssign) and isinstance(st.target, ast.Name) and st.target.id not in o.attrs \
                        and st.value is not None and not (isinstance(st.value, ast.Call) and un(st.value.func).split(".")[-1] == "field"):
                    o.attrs[st.target.id] = self._default(st.value, None, {}, qual.split(".")[0])      # `name: type = default`
                if isinstance(st, ast.AnnAssign) and isinstance(st.target, ast.Name) and st.target.id not in o.attrs \
                        and isinstance(st.value, ast.Call):
                    for kw in st.value.keywords:
                        if kw.arg == "default_factory" and un(kw.value) in ("dict", "list", "tuple"):
                            o.attrs[st.target.id] = {"dict": dict, "list": list, "tuple": tuple}[un(kw.value)]()
                        elif kw.arg == "default":
                            try:
                                o.attrs[st.target.id] = ast.literal_eval(kw.value)
                            except Exception:
                                pass
            post = self._class_def(name, "__post_init__")
            if isinstance(post, ast.FunctionDef):
                self.call_function(post, [o], {}, {}, qual.split(".")[0])
        return o

    def _import_origin(self, mod, local_name):
        """The imported name behind a local alias of a module (`from typing import NamedTuple as _NT` -> 'NamedTuple')."""
        for st in mod.tree.body:
            if isinstance(st, ast.ImportFrom):
                for al in st.names:
                    if (al.asname or al.name) == local_name:
                        return al.name
        return local_name

    def _namedtuple_fields(self, name):
        for mname, mod in self.repo.modules.items():
            for st in mod.tree.body:
                if isinstance(st, ast.ClassDef) and st.name == name and any(
                        self._import_origin(mod, un(b).split(".")[-1]) == "NamedTuple" for b in st.bases):
                    return [x.target.id for x in st.body if isinstance(x, ast.AnnAssign) and isinstance(x.target, ast.Name)]
        return None

    def _namedtuple_defaults(self, name):
        for mname, mod in self.repo.modules.items():
            for st in mod.tree.body:
                if isinstance(st, ast.ClassDef) and st.name == name and self._namedtuple_fields(name) is not None:
                    return {x.target.id: (x.value, mname) for x in st.body
                            if isinstance(x, ast.AnnAssign) and isinstance(x.target, ast.Name) and x.value is not None}
        return {}

    def _class_def(self, cls_name, attr):
        """Definition of `attr` in the class body (follows one level of class-level aliasing)."""
        qual = self.instance_classes[cls_name]
        return self._class_def_q(qual, attr, cls_name)

    def _class_def_q(self, qual, attr, cls_name=None, depth=0):
        cls = self.repo.cls(qual)
        found = None
        for st in cls.body:
            if isinstance(st, ast.FunctionDef) and st.name == attr:
                if any(un(d) in (f"{attr}.setter", f"{attr}.deleter") for d in st.decorator_list) and found is not None:
                    continue            # the setter / deleter of a property defined above: reading still goes through the getter
                found = st
            elif isinstance(st, ast.Assign) and any(isinstance(t, ast.Name) and t.id == attr for t in st.targets):
                if isinstance(st.value, ast.Name):
                    found = self._class_def_q(qual, st.value.id, cls_name, depth)
                else:
                    found = st
        if found is None and depth < 4:
            module = qual.split(".")[0]
            for b in cls.bases:
                bq = f"{module}.{un(b)}"
                if self.repo.has(bq) and isinstance(self.repo.lookup(bq), ast.ClassDef):
                    found = self._class_def_q(bq, attr, cls_name, depth + 1)
                    if found is not None:
                        break
        return found

    def _super(self, env, node):
        """Zero-argument super() inside a method: attribute look-up continues in the bases of the DEFINING class."""
        scope = env
        while scope is not None and getattr(scope, "fn", None) is None:
            scope = getattr(scope, "comprehension_of", None)
        fn = getattr(scope, "fn", None)
        cls = getattr(fn, "_parent", None)
        if not isinstance(fn, ast.FunctionDef) or not isinstance(cls, ast.ClassDef) or not fn.args.args:
            raise NoValue("super() outside a method")
        me = scope.local.get(fn.args.args[0].arg)
        module = scope.module
        bases = [un(b) for b in cls.bases]
        interp = self

        def getattr_(name):
            for b in bases:
                bq = f"{module}.{b.split('.')[-1]}"
                if interp.repo.has(bq) and isinstance(interp.repo.lookup(bq), ast.ClassDef):
                    d = interp._class_def_q(bq, name)
                    if isinstance(d, ast.FunctionDef):
                        decos = {un(x) for x in d.decorator_list}
                        if decos & {"property", "cached_property", "functools.cached_property"}:
                            return interp.call_function(d, [me], {}, {}, module)
                        first = ClassRef(me.kind) if ("classmethod" in decos and isinstance(me, Obj)) else me
                        return PyFunc(lambda *a, **k: interp.call_function(d, ([] if "staticmethod" in decos else [first]) + list(a), k, {}, module), f"super().{name}", True)
            if name in ("__init__", "__init_subclass__", "__post_init__", "__setattr__") and all(
                    not interp.repo.has(f"{module}.{b.split('.')[-1]}") for b in bases):
                if name == "__setattr__":
                    return PyFunc(lambda n, v: me.attrs.__setitem__(n, v), "object.__setattr__", True)
                return PyFunc(lambda *a, **k: None, f"super().{name}", True)     # a base class outside the repository
            if name == "__new__":
                return PyFunc(lambda c, *a, **k: Obj(c.name if isinstance(c, ClassRef) else "object"), "object.__new__", True)
            if isinstance(me, Obj) and name in me.methods:
                # the instance was made by a stand-in for an EXTERNAL base class: what the stand-in provides is the base's method
                return PyFunc(me.methods[name], f"super().{name}", True)
            return Unk(f"super().{name}")
        return Obj("super", {"fmt": "<super>"}, {"__getattr__": getattr_})

    def _class_attribute(self, inst, st, name, module):
        """`name = <expr>` in a class body: a partialmethod is bound to the instance, anything else is evaluated once per
        interpreter (a mutable class attribute is ONE object shared by all instances)."""
        v = st.value
        if isinstance(v, ast.Call) and un(v.func).split(".")[-1] == "partialmethod" and v.args and isinstance(v.args[0], ast.Name):
            target = self._class_def(inst.kind, v.args[0].id) if isinstance(inst, Obj) else None
            if isinstance(target, ast.FunctionDef):
                env = Env({}, {}, module, self)
                bargs = [self.eval(a, env) for a in v.args[1:]]
                bkw = {k.arg: self.eval(k.value, env) for k in v.keywords if k.arg}
                return PyFunc(lambda *a, **k: self.call_function(target, [inst] + bargs + list(a), {**bkw, **k}, {}, module), f"{inst.kind}.{name}", True)
            return NotImplemented
        if isinstance(v, ast.Call) and un(v.func).split(".")[-1] in ("field", "Instance", "List", "Dict", "Unicode", "Int", "Float", "Bool", "Any"):
            return NotImplemented                           # dataclass / traitlets declarations are not plain values
        key = ("class-attr", id(st))
        if key not in self.module_state:
            try:
                self.module_state[key] = self.eval(v, Env({}, {}, module, self))
            except NoValue:
                return NotImplemented
            self._keepalive.append(st)
        return self.module_state[key]

    def _property_setter(self, kind, attr):
        qual = self.instance_classes.get(kind)
        seen = 0
        while qual and seen < 5:
            cls = self.repo.cls(qual)
            for st in cls.body:
                if isinstance(st, ast.FunctionDef) and st.name == attr and any(un(d) == f"{attr}.setter" for d in st.decorator_list):
                    return st, qual.split(".")[0]
            nxt = None
            for b in cls.bases:
                bq = f"{qual.split('.')[0]}.{un(b)}"
                if self.repo.has(bq) and isinstance(self.repo.lookup(bq), ast.ClassDef):
                    nxt = bq
                    break
            qual, seen = nxt, seen + 1
        return None, None

    def _is_frozen_dataclass(self, kind):
        qual = self.instance_classes.get(kind)
        if not qual:
            return False
        for d in self.repo.cls(qual).decorator_list:
            if isinstance(d, ast.Call) and un(d.func).split(".")[-1] == "dataclass":
                for kw in d.keywords:
                    if kw.arg == "frozen" and isinstance(kw.value, ast.Constant) and kw.value.value is True:
                        return True
        return False

    def _instance_attr(self, v, name, node=None):
        d = self._class_def(v.kind, name)
        module = self.instance_classes[v.kind].split(".")[0]
        if isinstance(d, ast.FunctionDef):
            decos = {un(x) for x in d.decorator_list}
            if decos & {"property", "cached_property", "functools.cached_property"}:
                return self.call_function(d, [v], {}, {}, module)
            if "classmethod" in decos:
                return PyFunc(lambda *a, **k: self.call_function(d, [ClassRef(v.kind)] + list(a), k, {}, module), name, True)
            if "staticmethod" in decos:
                return PyFunc(lambda *a, **k: self.call_function(d, list(a), k, {}, module), name, True)
            return PyFunc(lambda *a, **k: self.call_function(d, [v] + list(a), k, {}, module), f"{v.kind}.{name}", True)
        if isinstance(d, ast.Assign):
            got = self._class_attribute(v, d, name, module)
            if got is not NotImplemented:
                return got
        if d is not None:
            return Unk(f"{v.kind}.{name}")
        ga = self._class_def(v.kind, "__getattr__")
        if isinstance(ga, ast.FunctionDef):
            return self.call_function(ga, [v, name], {}, {}, module)
        # a declared (annotated) field that the stand-in instance was not given: its declared default, else a gap of
        # the stand-in - never the program's AttributeError
        for st in self.repo.cls(self.instance_classes[v.kind]).body:
            if isinstance(st, ast.AnnAssign) and isinstance(st.target, ast.Name) and st.target.id == name:
                val = st.value
                if isinstance(val, ast.Call):
                    for kw in val.keywords:
                        if kw.arg == "default_factory" and un(kw.value) in ("dict", "list", "set", "tuple"):
                            v.attrs[name] = {"dict": dict, "list": list, "set": set, "tuple": tuple}[un(kw.value)]()
                            return v.attrs[name]
                        if kw.arg == "default":
                            try:
                                v.attrs[name] = ast.literal_eval(kw.value)
                                return v.attrs[name]
                            except Exception:
                                pass
                elif val is not None:
                    try:
                        v.attrs[name] = ast.literal_eval(val)
                        return v.attrs[name]
                    except Exception:
                        pass
                # a required field the stand-in was not given: an opaque token (branching on it is UNKNOWN, merely
                # formatting or passing it on is harmless)
                v.attrs[name] = Obj("token", {"fmt": f"<{v.kind}.{name}>", "name": f"<{v.kind}.{name}>"})
                return v.attrs[name]
        raise Raised("AttributeError", node)

    # ------------------------------------------------------------------ calls
    def call(self, f, args, kwargs, node=None):
        self.steps += 1
        if self.steps > self.max_steps:
            raise NoValue("step limit")
        if isinstance(f, Closure):
            return self.call_function(f.node, args, kwargs, f.env, f.module, f.defaults)
        if isinstance(f, Bound):
            return self._method(f.obj, f.name, args, kwargs, node)
        if isinstance(f, PyFunc):
            if not f.symbolic and not (_concrete(args) and _concrete(kwargs)):
                return Unk(f.name)
            if f.name in _CONSUMERS and any(isinstance(a, Obj) for a in args):
                args = [(a.attrs["__store__"] if f.name == "dict" and isinstance(a.attrs.get("__store__"), dict) else self._iterable(a))
                        if isinstance(a, Obj) else a for a in args]     # instances that define iteration
            try:
                if f.name in _CONSUMERS and any(isinstance(a, GenList) for a in args):
                    # a generator / iterator object handed to a consumer is used up by it (Python's iterator protocol)
                    snapshot = [list(a) if isinstance(a, GenList) else a for a in args]
                    r = f.fn(*snapshot, **kwargs)
                    if f.name == "zip":
                        n = len(r)
                        lens = [len(a) for a in snapshot]
                        first_short = lens.index(n) if n in lens else len(lens)
                        for i, a in enumerate(args):
                            if isinstance(a, GenList):
                                del a[:n + (1 if i < first_short and len(a) > n else 0)]
                    else:
                        for a in args:
                            if isinstance(a, GenList):
                                del a[:]
                    return r
                return f.fn(*args, **kwargs)
            except (Raised, NoValue):
                raise
            except TypeError as exc:
                if not (_concrete(args) and _concrete(kwargs)):
                    # a Python-level TypeError on ABSTRACT arguments is a gap of this interpreter, not the program's
                    raise NoValue(f"{f.name} cannot be applied to abstract arguments ({exc})")
                raise Raised("TypeError", node)
            except ValueError:
                raise Raised("ValueError", node)
            except KeyError:
                raise Raised("KeyError", node)
            except IndexError:
                raise Raised("IndexError", node)
            except StopIteration:
                raise Raised("StopIteration", node)
            except ZeroDivisionError:
                raise Raised("ZeroDivisionError", node)
        if isinstance(f, ClassRef):
            if self.class_call_hook is not None:
                r = self.class_call_hook(f.name, args, kwargs)
                if r is not NotImplemented:
                    return r
            inst = self._instantiate(f.name, args, kwargs)
            if inst is not NotImplemented:
                return inst
            fields = self._namedtuple_fields(f.name)
            if fields is not None:
                vals = dict(zip(fields, args))
                vals.update(kwargs)
                if len(args) > len(fields) or set(kwargs) - set(fields):
                    raise Raised("TypeError", node)
                for k, (dnode, dmod) in self._namedtuple_defaults(f.name).items():
                    if k not in vals:
                        vals[k] = self._default(dnode, None, {}, dmod)
                missing = [k for k in fields if k not in vals]
                if missing:
                    raise Raised("TypeError", node)          # a required field was not given
                o = Obj(f.name, {k: vals[k] for k in fields})
                o.attrs["__fields__"] = fields
                return o
            if f.name in ("list", "tuple") and len(args) == 1 and isinstance(args[0], (list, tuple, GenList)):
                return list(args[0]) if f.name == "list" else tuple(args[0])
            if f.name == "bool" and len(args) == 1 and not kwargs:
                return self.truth(args[0], node)
            if f.name == "str" and len(args) == 1 and not kwargs:
                txt = self.format_value(args[0], "", 115)       # str(x) is format through __str__ / __repr__
                return txt if txt is not None else Unk("str")
            if f.name in PY_TYPES and _concrete(args) and _concrete(kwargs):
                try:
                    return PY_TYPES[f.name](*args, **kwargs)
                except (ValueError, TypeError, OverflowError, KeyError) as exc:
                    raise Raised(type(exc).__name__, node)
            return Obj("instance:" + f.name, {"args": list(args)})
        if isinstance(f, Obj) and f.call is not None:
            return f.call(*args, **kwargs)
        if isinstance(f, Obj) and f.kind in self.instance_classes:
            d = self._class_def(f.kind, "__call__")
            if isinstance(d, ast.FunctionDef):
                return self.call_function(d, [f] + list(args), kwargs, {}, self.instance_classes[f.kind].split(".")[0])
        if isinstance(f, T):
            return Unk("call of multivector")
        return Unk("call")

    def _eval_defaults(self, fn, env):
        """Default values are computed once, where the function is defined (a gap there only matters if the default is used)."""
        out = {}
        for d in list(fn.args.defaults) + [k for k in fn.args.kw_defaults if k is not None]:
            try:
                out[id(d)] = self.eval(d, env)
            except NoValue as exc:
                out[id(d)] = _NoDefault(str(exc))
        return out

    def _default(self, d, defaults, closure_env, module):
        if defaults is None:
            # a function of the repository (module level / method): its defaults are evaluated once per interpreter, so a
            # mutable default is one object shared by all calls - as in Python
            defaults = self._fn_defaults
        if id(d) not in defaults:
            defaults[id(d)] = self.eval(d, Env({}, closure_env, module, self))
            self._keepalive.append(d)
        v = defaults[id(d)]
        if isinstance(v, _NoDefault):
            raise NoValue(v.reason)
        return v

    def call_function(self, fn, args, kwargs, closure_env, module, defaults=None):
        self.depth += 1
        if self.depth > 40:
            raise NoValue("recursion limit")
        try:
            env: Dict[str, Any] = {}
            a = fn.args
            pos = a.posonlyargs + a.args
            pos_defaults = [None] * (len(pos) - len(a.defaults)) + list(a.defaults)
            if len(args) > len(pos) and not a.vararg:
                raise Raised("TypeError", fn)
            for i, p in enumerate(pos):
                if i < len(args):
                    env[p.arg] = args[i]
                elif p.arg in kwargs:
                    env[p.arg] = kwargs[p.arg]
                elif pos_defaults[i] is not None:
                    env[p.arg] = self._default(pos_defaults[i], defaults, closure_env, module)
                else:
                    raise Raised("TypeError", fn)
            if a.vararg:
                env[a.vararg.arg] = tuple(args[len(pos):])
            for p, d in zip(a.kwonlyargs, a.kw_defaults):
                if p.arg in kwargs:
                    env[p.arg] = kwargs[p.arg]
                elif d is not None:
                    env[p.arg] = self._default(d, defaults, closure_env, module)
                else:
                    raise Raised("TypeError", fn)
            known = {p.arg for p in pos} | {p.arg for p in a.kwonlyargs}
            extra = {k: v for k, v in kwargs.items() if k not in known}
            if extra:
                if a.kwarg:
                    env[a.kwarg.arg] = extra
                else:
                    raise Raised("TypeError", fn)
            elif a.kwarg:
                env[a.kwarg.arg] = {}
            e = Env(env, closure_env, module, self)
            e.fn = fn
            if isinstance(fn, ast.Lambda):
                return self.eval(fn.body, e)
            is_gen = any(isinstance(n, (ast.Yield, ast.YieldFrom)) for n in _walk_shallow_body(fn))
            if is_gen:
                e.yielded = GenList()
            try:
                self.exec_block(fn.body, e)
            except _Return as r:
                return e.yielded if is_gen else r.value
            return e.yielded if is_gen else None
        finally:
            self.depth -= 1

    # ------------------------------------------------------------------ statements
    def exec_block(self, stmts, env):
        for st in stmts:
            self.exec(st, env)

    def exec(self, st, env):
        self.steps += 1
        if self.steps > self.max_steps:
            raise NoValue("step limit")
        if isinstance(st, ast.Expr):
            self.eval(st.value, env)
        elif isinstance(st, ast.Assign):
            v = self.eval(st.value, env)
            for t in st.targets:
                self.assign(t, v, env)
        elif isinstance(st, ast.AnnAssign):
            if st.value is not None:
                self.assign(st.target, self.eval(st.value, env), env)
        elif isinstance(st, ast.AugAssign):
            cur = self.eval(_load(st.target), env)
            rhs = self.eval(st.value, env)
            # lists, sets and dicts are updated IN PLACE (every alias sees it); everything else is rebound
            if isinstance(cur, list) and not isinstance(cur, GenList) and isinstance(st.op, ast.Add):
                it = self._iterable(rhs)
                if isinstance(it, (Unk, T, Obj)):
                    raise NoValue("list += unknown iterable")
                items = list(it)
                if isinstance(it, GenList):
                    del it[:]
                cur.extend(items)
                self.assign(st.target, cur, env)
            elif isinstance(cur, list) and not isinstance(cur, GenList) and isinstance(st.op, ast.Mult) and isinstance(rhs, int):
                cur[:] = cur * rhs
                self.assign(st.target, cur, env)
            elif isinstance(cur, set) and isinstance(rhs, (set, frozenset)) and isinstance(st.op, (ast.BitOr, ast.BitAnd, ast.Sub, ast.BitXor)):
                {ast.BitOr: cur.update, ast.BitAnd: cur.intersection_update, ast.Sub: cur.difference_update,
                 ast.BitXor: cur.symmetric_difference_update}[type(st.op)](rhs)
                self.assign(st.target, cur, env)
            elif isinstance(cur, dict) and isinstance(rhs, dict) and isinstance(st.op, ast.BitOr):
                cur.update(rhs)
                self.assign(st.target, cur, env)
            else:
                self.assign(st.target, self.binop(st.op, cur, rhs, st), env)
        elif isinstance(st, ast.If):
            if self.truth(self.eval(st.test, env), st.test):
                self.exec_block(st.body, env)
            else:
                self.exec_block(st.orelse, env)
        elif isinstance(st, ast.Return):
            raise _Return(self.eval(st.value, env) if st.value is not None else None)
        elif isinstance(st, ast.Raise):
            name = "Exception"
            if st.exc is not None:
                exc = st.exc.func if isinstance(st.exc, ast.Call) else st.exc
                name = un(exc).split(".")[-1]
            raise Raised(name, st)
        elif isinstance(st, ast.For):
            it = self._iterable(self.eval(st.iter, env))
            if isinstance(it, (Unk, T, Obj)):
                raise NoValue(f"loop over unknown iterable {un(st.iter)}")
            broke = False
            try:
                seq = _Consuming(it) if isinstance(it, GenList) else list(it)
            except TypeError:
                raise Raised("TypeError", st)
            for x in seq:
                self.assign(st.target, x, env)
                try:
                    self.exec_block(st.body, env)
                except _Break:
                    broke = True
                    break
                except _Continue:
                    continue
            if not broke:
                self.exec_block(st.orelse, env)
        elif isinstance(st, ast.While):
            n = 0
            broke = False
            while self.truth(self.eval(st.test, env), st.test):
                n += 1
                if n > 256:
                    raise NoValue("while-loop bound exceeded")
                try:
                    self.exec_block(st.body, env)
                except _Break:
                    broke = True
                    break
                except _Continue:
                    continue
            if not broke:
                self.exec_block(st.orelse, env)
        elif isinstance(st, ast.Break):
            raise _Break()
        elif isinstance(st, ast.Continue):
            raise _Continue()
        elif isinstance(st, ast.Pass):
            pass
        elif isinstance(st, ast.Nonlocal):
            env.nonlocals = getattr(env, "nonlocals", set()) | set(st.names)
        elif isinstance(st, ast.Global):
            env.globals_ = getattr(env, "globals_", set()) | set(st.names)
        elif isinstance(st, (ast.FunctionDef,)):
            f = Closure(st, env.flat(), env.module, self._eval_defaults(st, env))
            for deco in reversed(st.decorator_list):
                d = self.eval(deco, env)
                if isinstance(d, Unk):
                    raise NoValue(f"decorator {un(deco)} of the nested function {st.name} is not understood")
                f = self.call(d, [f], {})
            env.local[st.name] = f
        elif isinstance(st, ast.Import):
            for al in st.names:
                env.local[(al.asname or al.name).split(".")[0]] = self.standins.get(al.name, Obj("module:" + al.name))
        elif isinstance(st, ast.ImportFrom):
            for al in st.names:
                nm = al.asname or al.name
                full = f"{st.module}.{al.name}"
                env.local[nm] = self.standins.get(full, ClassRef(nm) if nm[:1].isupper() else Unk(f"import {nm}"))
        elif isinstance(st, ast.Assert):
            if not self.truth(self.eval(st.test, env), st.test):
                raise Raised("AssertionError", st)
        elif isinstance(st, ast.Delete):
            for t in st.targets:
                if isinstance(t, ast.Name):
                    if t.id in env.local:
                        del env.local[t.id]
                    else:
                        raise Raised("NameError", st)
                elif isinstance(t, ast.Subscript):
                    base = self.eval(t.value, env)
                    idx = self.eval(t.slice, env)
                    if isinstance(base, Obj) and "__store__" in base.attrs and _hashable_key(idx):
                        base = base.attrs["__store__"]
                    if isinstance(base, (list, dict)) and (_concrete(idx) or (isinstance(base, dict) and _hashable_key(idx))):
                        try:
                            del base[idx]
                        except KeyError:
                            raise Raised("KeyError", st)
                        except IndexError:
                            raise Raised("IndexError", st)
                    else:
                        raise NoValue(f"del {un(t)}")
                elif isinstance(t, ast.Attribute):
                    base = self.eval(t.value, env)
                    if isinstance(base, Obj) and t.attr in base.attrs:
                        del base.attrs[t.attr]
                    else:
                        raise NoValue(f"del {un(t)}")
                else:
                    raise NoValue(f"del {un(t)}")
        elif isinstance(st, ast.Try):
            try:
                try:
                    self.exec_block(st.body, env)
                except Raised as r:
                    for h in st.handlers:
                        names = []
                        if h.type is not None:
                            for t in (h.type.elts if isinstance(h.type, ast.Tuple) else [h.type]):
                                names.append(un(t).split(".")[-1])
                        if h.type is None or any(n in names for n in self._exception_ancestors(r.name)):
                            if h.name:
                                env.local[h.name] = Obj("exception:" + r.name)
                            self.exec_block(h.body, env)
                            break
                    else:
                        raise
                else:
                    self.exec_block(st.orelse, env)
            finally:
                self.exec_block(st.finalbody, env)
        else:
            raise NoValue(f"statement kind {type(st).__name__}")

    def assign(self, target, value, env):
        if isinstance(target, ast.Name):
            env.bind(target.id, value)
        elif isinstance(target, (ast.Tuple, ast.List)):
            if isinstance(value, Obj) and isinstance(value.attrs.get("__fields__"), list):
                value = tuple(value.attrs.get(f) for f in value.attrs["__fields__"])      # a NamedTuple instance is a tuple
            elif isinstance(value, Obj) and "__iter__" in value.methods:
                value = list(value.methods["__iter__"]())
            if isinstance(value, (Unk, T, Obj)):
                for t in target.elts:
                    self.assign(t, Unk("unpack"), env)
                return
            vals = list(value)
            star = [i for i, t in enumerate(target.elts) if isinstance(t, ast.Starred)]
            if star:
                i = star[0]
                after = len(target.elts) - i - 1
                if len(vals) < len(target.elts) - 1:
                    raise Raised("ValueError", target)
                for t, v in zip(target.elts[:i], vals[:i]):
                    self.assign(t, v, env)
                self.assign(target.elts[i].value, vals[i:len(vals) - after], env)
                for t, v in zip(target.elts[i + 1:], vals[len(vals) - after:]):
                    self.assign(t, v, env)
                return
            if len(vals) != len(target.elts):
                raise Raised("ValueError", target)
            for t, v in zip(target.elts, vals):
                self.assign(t, v, env)
        elif isinstance(target, ast.Subscript):
            base = self.eval(target.value, env)
            idx = self.eval(target.slice, env)
            if isinstance(base, Obj) and "setitem" in base.methods:
                base.methods["setitem"](idx, value)
            elif isinstance(base, (dict, list)) and (_concrete(idx) or (isinstance(base, dict) and _hashable_key(idx))):
                try:
                    base[idx] = value
                except Exception:
                    raise Raised("TypeError", target)
        elif isinstance(target, ast.Attribute):
            base = self.eval(target.value, env)
            if isinstance(base, Obj) and base.kind in self.instance_classes:
                setter, smod = self._property_setter(base.kind, target.attr)
                if setter is not None:
                    self.call_function(setter, [base, value], {}, {}, smod)
                    return
                if self._is_frozen_dataclass(base.kind) and not getattr(env, "in_init_of", None) is base:
                    raise Raised("FrozenInstanceError", target)
            if isinstance(base, Obj):
                base.attrs[target.attr] = value
            elif isinstance(base, T):
                raise NoValue(f"store to attribute {target.attr} of a multivector-typed value")
        else:
            raise NoValue(f"assignment target {un(target)}")

    # ------------------------------------------------------------------ expressions
    def eval(self, node, env):
        self.steps += 1
        if self.steps > self.max_steps:
            raise NoValue("step limit")
        if isinstance(node, ast.Constant):
            return node.value
        if isinstance(node, ast.Name):
            return env.lookup(node.id)
        if isinstance(node, ast.Attribute):
            return self.getattr_value(self.eval(node.value, env), node.attr, node)
        if isinstance(node, ast.Call) and isinstance(node.func, ast.Name) and node.func.id == "super" and not node.args \
                and "super" not in env.local:
            return self._super(env, node)
        if isinstance(node, ast.Call):
            f = self.eval(node.func, env)
            args = []
            for a in node.args:
                if isinstance(a, ast.Starred):
                    v = self.eval(a.value, env)
                    if isinstance(v, (Unk, T, Obj)):
                        return Unk("starred")
                    args.extend(list(v))
                else:
                    args.append(self.eval(a, env))
            kwargs = {}
            for k in node.keywords:
                if k.arg is None:
                    v = self.eval(k.value, env)
                    if isinstance(v, dict):
                        kwargs.update(v)
                    else:
                        return Unk("**kwargs")
                else:
                    kwargs[k.arg] = self.eval(k.value, env)
            return self.call(f, args, kwargs, node)
        if isinstance(node, ast.BinOp):
            return self.binop(node.op, self.eval(node.left, env), self.eval(node.right, env), node)
        if isinstance(node, ast.UnaryOp):
            return self.unop(node.op, self.eval(node.operand, env), node)
        if isinstance(node, ast.BoolOp):
            val = None
            for v in node.values:
                val = self.eval(v, env)
                t = self.truth(val, v)
                if isinstance(node.op, ast.And) and not t:
                    return val
                if isinstance(node.op, ast.Or) and t:
                    return val
            return val
        if isinstance(node, ast.Compare):
            left = self.eval(node.left, env)
            for op, rn in zip(node.ops, node.comparators):
                right = self.eval(rn, env)
                r = self.compare(op, left, right, node)
                if isinstance(r, Unk):
                    return r
                if not r:
                    return False
                left = right
            return True
        if isinstance(node, ast.IfExp):
            return self.eval(node.body if self.truth(self.eval(node.test, env), node.test) else node.orelse, env)
        if isinstance(node, ast.Tuple):
            return tuple(self._elts(node.elts, env))
        if isinstance(node, ast.List):
            return list(self._elts(node.elts, env))
        if isinstance(node, ast.Set):
            try:
                return set(self._elts(node.elts, env))
            except TypeError:
                return Unk("set")
        if isinstance(node, ast.Dict):
            d = {}
            for k, v in zip(node.keys, node.values):
                if k is None:
                    m = self.eval(v, env)
                    if isinstance(m, Obj) and isinstance(m.attrs.get("_store"), dict):
                        m = m.attrs["_store"]
                    if not isinstance(m, dict):
                        return Unk("dict-unpack")
                    d.update(m)
                    continue
                d[self.eval(k, env)] = self.eval(v, env)
            return d
        if isinstance(node, ast.Subscript):
            base = self.eval(node.value, env)
            idx = self.eval(node.slice, env)
            return self.subscript(base, idx, node)
        if isinstance(node, ast.Slice):
            parts = [self.eval(p, env) if p is not None else None for p in (node.lower, node.upper, node.step)]
            if not _concrete(parts):
                return Unk("slice")
            return slice(*parts)
        if isinstance(node, ast.Lambda):
            return Closure(node, env.flat(), env.module, self._eval_defaults(node, env))
        if isinstance(node, ast.NamedExpr):
            v = self.eval(node.value, env)
            scope = env
            while getattr(scope, "comprehension_of", None) is not None:
                scope = scope.comprehension_of          # PEP 572: the target lives in the scope containing the comprehension
            scope.local[node.target.id] = v
            return v
        if isinstance(node, ast.JoinedStr):
            parts = []
            for v in node.values:
                if isinstance(v, ast.Constant):
                    parts.append(str(v.value))
                else:
                    val = self.eval(v.value, env)
                    spec = self.eval(v.format_spec, env) if v.format_spec is not None else ""
                    if not isinstance(spec, str):
                        return Unk("f-string")
                    txt = self.format_value(val, spec, v.conversion)
                    if txt is None:
                        return Unk("f-string")
                    parts.append(txt)
            return "".join(parts)
        if isinstance(node, (ast.ListComp, ast.GeneratorExp, ast.SetComp, ast.DictComp)):
            return self.comprehension(node, env)
        if isinstance(node, ast.Yield):
            v = self.eval(node.value, env) if node.value is not None else None
            env.yield_target().append(v)
            return None
        if isinstance(node, ast.YieldFrom):
            v = self.eval(node.value, env)
            if isinstance(v, (Unk, T, Obj)):
                raise NoValue("yield from unknown iterable")
            env.yield_target().extend(list(v))
            return None
        if isinstance(node, ast.Starred):
            raise NoValue("starred expression")
        raise NoValue(f"expression kind {type(node).__name__}: {un(node)[:60]}")

    def _elts(self, elts, env):
        out = []
        for e in elts:
            if isinstance(e, ast.Starred):
                v = self.eval(e.value, env)
                if isinstance(v, (Unk, T, Obj)):
                    raise NoValue("starred unknown")
                out.extend(list(v))
            else:
                out.append(self.eval(e, env))
        return out

    def compare(self, op, a, b, node):
        if isinstance(op, (ast.Is, ast.IsNot)) and isinstance(a, ClassRef) and isinstance(b, ClassRef):
            return (a == b) if isinstance(op, ast.Is) else (a != b)     # one class object per name
        if isinstance(op, (ast.Is, ast.IsNot)) and (isinstance(a, (Obj, T, Closure, ClassRef)) or isinstance(b, (Obj, T, Closure, ClassRef)) or a is None or b is None):
            return (a is b) if isinstance(op, ast.Is) else (a is not b)
        if isinstance(a, Obj) and "compare" in a.methods:
            r = a.methods["compare"](type(op).__name__, b)
            if r is not NotImplemented:
                return r
        if isinstance(b, Obj) and "compare" in b.methods and not isinstance(a, Obj) and isinstance(op, (ast.Eq, ast.NotEq)):
            r = b.methods["compare"](type(op).__name__, a)
            if r is not NotImplemented:
                return r
        if isinstance(op, (ast.Eq, ast.NotEq)):
            ta = tuple(a.attrs.get(f) for f in a.attrs["__fields__"]) if isinstance(a, Obj) and isinstance(a.attrs.get("__fields__"), list) else a
            tb = tuple(b.attrs.get(f) for f in b.attrs["__fields__"]) if isinstance(b, Obj) and isinstance(b.attrs.get("__fields__"), list) else b
            if (ta is not a or tb is not b) and isinstance(ta, tuple) and isinstance(tb, tuple) and _concrete(ta) and _concrete(tb):
                return (ta == tb) if isinstance(op, ast.Eq) else (ta != tb)      # a NamedTuple instance is a tuple
        if isinstance(op, (ast.In, ast.NotIn)) and isinstance(b, Obj) and b.kind in self.instance_classes and "__contains__" not in b.methods:
            fn = self._class_def(b.kind, "__contains__")
            if isinstance(fn, ast.FunctionDef):
                r = self.call_function(fn, [b, a], {}, {}, self.instance_classes[b.kind].split(".")[0])
                if isinstance(r, Unk):
                    return r
                r = self.truth(r, node)
                return r if isinstance(op, ast.In) else not r
        if isinstance(op, (ast.Lt, ast.LtE, ast.Gt, ast.GtE)):
            direct = {ast.Lt: "__lt__", ast.LtE: "__le__", ast.Gt: "__gt__", ast.GtE: "__ge__"}[type(op)]
            mirror = {ast.Lt: "__gt__", ast.LtE: "__ge__", ast.Gt: "__lt__", ast.GtE: "__le__"}[type(op)]
            for o, other, dn in ((a, b, direct), (b, a, mirror)):
                if isinstance(o, Obj) and o.kind in self.instance_classes and "compare" not in o.methods:
                    fn = self._class_def(o.kind, dn)
                    if isinstance(fn, ast.FunctionDef):
                        r = self.call_function(fn, [o, other], {}, {}, self.instance_classes[o.kind].split(".")[0])
                        if r is not NotImplemented:
                            return r
        if isinstance(op, (ast.Eq, ast.NotEq)):
            for o, other in ((a, b), (b, a)):
                if isinstance(o, Obj) and o.kind in self.instance_classes:
                    fn = self._class_def(o.kind, "__eq__")
                    if isinstance(fn, ast.FunctionDef):
                        r = self.call_function(fn, [o, other], {}, {}, self.instance_classes[o.kind].split(".")[0])
                        if isinstance(r, Unk):
                            return r
                        r = self.truth(r, node)
                        return r if isinstance(op, ast.Eq) else not r
        if isinstance(op, (ast.In, ast.NotIn)) and isinstance(b, GenList) and _concrete(a):
            found = False
            while b:
                if b.pop(0) == a:
                    found = True
                    break
            return found if isinstance(op, ast.In) else not found
        if isinstance(op, (ast.In, ast.NotIn)) and isinstance(b, Obj) and "__contains__" in b.methods and not isinstance(a, Unk):
            r = bool(b.methods["__contains__"](a))
            return r if isinstance(op, ast.In) else not r
        if isinstance(a, (Unk, T, Obj)) or isinstance(b, (Unk, T, Obj)):
            if isinstance(op, (ast.Is, ast.IsNot)):
                r = a is b
                return r if isinstance(op, ast.Is) else not r
            if isinstance(op, (ast.In, ast.NotIn)) and isinstance(b, (tuple, list, dict, set, frozenset)) and not isinstance(a, Unk):
                r = any(a is x or (isinstance(x, T) and isinstance(a, T) and a == x) for x in b)
                return r if isinstance(op, ast.In) else not r
            if isinstance(a, T) and isinstance(b, T) and isinstance(op, (ast.Eq, ast.NotEq)):
                return Unk("mv-eq")
            if isinstance(op, (ast.Eq, ast.NotEq)) and ((isinstance(a, T) and isinstance(b, (int, float, Fraction))) or
                                                        (isinstance(b, T) and isinstance(a, (int, float, Fraction)))):
                t, num = (a, b) if isinstance(a, T) else (b, a)
                if t.is_number():
                    r = t.number() == num
                    return r if isinstance(op, ast.Eq) else not r
                if getattr(self, "t_generic", False):
                    # a generic operand: an opaque scalar expression is not identically equal to a number
                    return isinstance(op, ast.NotEq)
            return Unk("compare")
        if isinstance(op, (ast.Is, ast.IsNot)):
            return identity(op, a, b, node)
        try:
            return _CMP[type(op)](a, b)
        except TypeError:
            raise Raised("TypeError", node)

    def subscript(self, base, idx, node):
        if isinstance(base, Obj):
            if base.getitem is not None:
                return base.getitem(idx)
            if isinstance(base.attrs.get("__fields__"), list) and isinstance(idx, (int, slice)):
                try:
                    return tuple(base.attrs.get(f) for f in base.attrs["__fields__"])[idx]
                except IndexError:
                    raise Raised("IndexError", node)
            if base.kind in self.instance_classes:
                fn = self._class_def(base.kind, "__getitem__")
                if isinstance(fn, ast.FunctionDef):
                    return self.call_function(fn, [base, idx], {}, {}, self.instance_classes[base.kind].split(".")[0])
            return Unk(f"{base.kind}[...]")
        if isinstance(base, (Unk, T)):
            return Unk("subscript")
        if not _concrete(idx) and not (isinstance(base, dict) and _hashable_key(idx)):
            return Unk("subscript")
        try:
            return base[idx]
        except (IndexError,):
            raise Raised("IndexError", node)
        except KeyError:
            def value_keyed(k):
                return (isinstance(k, Obj) and k.kind in self.instance_classes and k.kind != "token") or \
                    (isinstance(k, tuple) and any(value_keyed(x) for x in k))
            if value_keyed(idx) or (isinstance(base, dict) and any(value_keyed(k) for k in base)):
                # the stand-ins hash by identity; the class may define value equality: not a KeyError of the program
                raise NoValue("dictionary look-up with an object of a repository class as key")
            raise Raised("KeyError", node)
        except TypeError:
            raise Raised("TypeError", node)

    def comprehension(self, node, env):
        results = []
        sub = Env({}, env.flat(), env.module, self)
        sub.comprehension_of = env
        if isinstance(node, ast.GeneratorExp) and len(node.generators) == 1:
            first = self.eval(node.generators[0].iter, sub)
            if isinstance(first, Obj) and first.kind in ("itertools.count", "lazy-iter"):
                # a generator expression over an unbounded iterator stays lazy: whoever consumes it (zip, islice, next)
                # pulls one element at a time
                src = self._count_iter(first) if first.kind == "itertools.count" else first.attrs["iter"]
                g = node.generators[0]

                def lazy():
                    for x in src:
                        self.assign(g.target, x, sub)
                        if all(self.truth(self.eval(c, sub), c) for c in g.ifs):
                            yield self.eval(node.elt, sub)
                return Obj("lazy-iter", {"iter": lazy(), "fmt": "<generator>"})

        def rec(i):
            if i == len(node.generators):
                if isinstance(node, ast.DictComp):
                    results.append((self.eval(node.key, sub), self.eval(node.value, sub)))
                else:
                    results.append(self.eval(node.elt, sub))
                return
            g = node.generators[i]
            it = self._iterable(self.eval(g.iter, sub))
            if isinstance(it, (Unk, T, Obj)):
                raise NoValue(f"comprehension over unknown iterable {un(g.iter)}")
            for x in (_Consuming(it) if isinstance(it, GenList) else list(it)):
                self.assign(g.target, x, sub)
                if all(self.truth(self.eval(c, sub), c) for c in g.ifs):
                    rec(i + 1)
        rec(0)
        if isinstance(node, ast.DictComp):
            return dict(results)
        if isinstance(node, ast.SetComp):
            return set(results)
        if isinstance(node, ast.GeneratorExp):
            return GenList(results)
        return results

    # ------------------------------------------------------------------ entry point
    def run(self, qual: str, args: List[Any], kwargs: Dict[str, Any] = None, self_cls: str = None):
        """Outcome of one function on one representative: ('return', v) | ('raise', name)."""
        fn = self.repo.func(qual)
        module = qual.split(".")[0]
        try:
            v = self.call_function(fn, args, kwargs or {}, {}, module)
            return ("return", v)
        except Raised as r:
            self.last_raise = r
            return ("raise", r.name)
        except RecursionError:
            raise NoValue("python recursion limit")


def _walk_shallow_body(fn):
    stack = list(fn.body)
    while stack:
        n = stack.pop()
        if isinstance(n, (ast.FunctionDef, ast.AsyncFunctionDef, ast.ClassDef, ast.Lambda)):
            continue
        yield n
        stack.extend(ast.iter_child_nodes(n))


def _load(target):
    t = ast.parse(un(target), mode="eval").body
    return t


class Env:
    def __init__(self, local, closure, module, interp: Interp):
        self.local, self.closure, self.module, self.interp = local, (closure if closure is not None else {}), module, interp

    def flat(self):
        d = dict(self.closure)
        d.update(self.local)
        return _Live(self)

    yielded = None
    fn = None
    nonlocals: frozenset = frozenset()
    globals_: frozenset = frozenset()
    comprehension_of = None

    def bind(self, name, value):
        if name in self.globals_:
            self.interp.module_state[self.module, name] = value
            return
        if name in self.nonlocals:
            scope = self.closure
            while isinstance(scope, _Live):
                if name in scope._env.local:
                    scope._env.local[name] = value
                    return
                scope = scope._env.closure
            raise NoValue(f"nonlocal {name} has no binding in an enclosing function")
        self.local[name] = value

    def yield_target(self):
        if self.yielded is None:
            raise NoValue("yield outside a generator function")
        return self.yielded

    def interp_note(self, msg):
        self.interp.trace.append("note:" + msg)

    def lookup(self, name):
        if name in self.local:
            return self.local[name]
        if name in self.closure:
            return self.closure[name]
        interp = self.interp
        repo = interp.repo
        if (self.module, name) in interp.module_state:
            return interp.module_state[self.module, name]
        if self.module in repo.modules:
            q = f"{self.module}.{name}"
            if q in interp.overrides:
                return interp.overrides[q]
            if repo.has(q):
                node = repo.lookup(q)
                if isinstance(node, ast.FunctionDef):
                    if node.decorator_list:
                        return interp.decorated(node, self.module)
                    return Closure(node, {}, self.module)
                return ClassRef(name)
            found = None
            for st in repo.modules[self.module].tree.body:
                if isinstance(st, ast.ImportFrom) and st.module:
                    for al in st.names:
                        if (al.asname or al.name) != name:
                            continue
                        if st.module.startswith("kingdon."):
                            src = st.module.split(".", 1)[1]
                            if src in repo.modules and repo.has(f"{src}.{al.name}"):
                                node = repo.lookup(f"{src}.{al.name}")
                                if isinstance(node, ast.FunctionDef) and node.decorator_list:
                                    found = interp.decorated(node, src)
                                else:
                                    found = Closure(node, {}, src) if isinstance(node, ast.FunctionDef) else ClassRef(al.name)
                            else:
                                found = Unk(f"import {name}")
                        else:
                            found = interp.standins.get(f"{st.module}.{al.name}",
                                                        ClassRef(name) if name[:1].isupper() else Unk(f"import {name}"))
                elif isinstance(st, ast.Import):
                    for al in st.names:
                        if (al.asname or al.name.split(".")[0]) == name:
                            found = interp.standins.get(al.name, Obj("module:" + al.name))
                elif isinstance(st, ast.Assign):
                    for t in st.targets:
                        if isinstance(t, ast.Name) and t.id == name:
                            if (self.module, name) in interp.module_state:
                                found = interp.module_state[self.module, name]
                                continue
                            try:
                                found = interp.eval(st.value, Env({}, {}, self.module, interp))
                            except NoValue:
                                found = Unk(f"module variable {name}")
                            if isinstance(found, (dict, list, set)):
                                # a mutable module-level object is ONE object for the life of the interpreter
                                interp.module_state[self.module, name] = found
            if found is not None:
                return found
        if name in interp.builtins:
            return interp.builtins[name]
        import builtins as _b
        if hasattr(_b, name):
            return ClassRef(name) if isinstance(getattr(_b, name), type) else Unk(f"builtin {name}")
        raise Raised("NameError", None, name)


class _Live(dict):
    """Closure environment that sees later bindings of the enclosing scope (Python's late binding)."""

    def __init__(self, env: Env):
        super().__init__()
        self._env = env

    def __contains__(self, k):
        return k in self._env.local or k in self._env.closure

    def __getitem__(self, k):
        if k in self._env.local:
            return self._env.local[k]
        return self._env.closure[k]

    def get(self, k, d=None):
        return self[k] if k in self else d
