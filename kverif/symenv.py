"""Shared stand-ins for the abstract interpreter: interpreter factory, algebra objects, recorder tokens."""
from __future__ import annotations

import ast
from fractions import Fraction
from typing import Any, Dict, Optional

from .absint import Interp, Obj, Unk, PyFunc, ClassRef
from .optree import T
from .surface import class_surface, operator_registry


def tables_for(repo):
    return {"MultiVector": class_surface(repo, "multivector.MultiVector"),
            "TapeRecorder": class_surface(repo, "taperecorder.TapeRecorder")}


def scalar_ctor(cls="MultiVector"):
    """Stand-in for Algebra.scalar / purevector(grade=0): a number list -> that number, name= -> scalar atom."""
    def scalar(*args, **kwargs):
        if "name" in kwargs and isinstance(kwargs["name"], str):
            return T.scalar(("sym", kwargs["name"]), cls)
        vals = args[0] if args else kwargs.get("values")
        if isinstance(vals, (list, tuple)) and len(vals) == 1:
            v = vals[0]
            if isinstance(v, (int, float, Fraction)) and not isinstance(v, bool):
                return T.num(Fraction(v), cls)
            if isinstance(v, T):
                return v
            if isinstance(v, Obj) and v.kind == "reciprocal":
                o = Obj("MultiVector", {"_keys": (0,), "_values": [v]})
                o.methods["values"] = lambda: [v]
                return o
        return Unk("scalar(...)")
    return scalar


def make_interp(repo, algebra_attrs: Optional[Dict[str, Any]] = None, algebra_methods=None, **kw) -> Interp:
    tables = tables_for(repo)
    reg = operator_registry(repo)
    attrs = dict(algebra_attrs or {})
    methods = {"scalar": scalar_ctor()}
    methods.update(algebra_methods or {})
    alg = Obj("algebra", attrs, methods)
    it = Interp(repo, tables, reg, algebra=alg, **kw)

    def operator_attr(name):
        # self.algebra.<op>(a, b) on the stand-in algebra applies the registry operator to operator trees
        if name in reg:
            return PyFunc(lambda *a: it.apply_op(name, list(a), next((x.cls for x in a if isinstance(x, T)), "MultiVector")),
                          f"algebra.{name}", True)
        return Unk(f"algebra.{name}")
    if "__getattr__" not in alg.methods:
        alg.methods["__getattr__"] = operator_attr

    def class_call(name, args, kwargs):
        if name == "TapeRecorder":
            names = ["algebra", "expr", "keys"]
            vals = dict(zip(names, args))
            vals.update(kwargs)
            expr, keys = vals.get("expr"), vals.get("keys")
            if keys == (0,) and isinstance(expr, str):
                try:
                    tree = ast.parse(expr, mode="eval").body
                    if isinstance(tree, ast.Tuple) and len(tree.elts) == 1 and isinstance(tree.elts[0], ast.Constant) \
                            and isinstance(tree.elts[0].value, (int, float)):
                        return T.num(Fraction(tree.elts[0].value), "TapeRecorder")
                except SyntaxError:
                    pass
            return Obj("TapeRecorder", {"algebra": vals.get("algebra"), "expr": expr, "_keys": keys},
                       {"keys": lambda: keys})
        return NotImplemented
    it.class_call_hook = class_call
    return it


# --------------------------------------------------------------------------- representative algebra / values
def default_canon2bin(d: int, start_index: int = 1):
    """canon2bin of kingdon's default basis for a d-dimensional algebra (canonical order: by grade, then name)."""
    names = {}
    for b in range(2 ** d):
        names[b] = "e" + "".join(format(i + start_index, "x") for i in range(d) if b & (1 << i))
    return dict(sorted(((n, b) for b, n in names.items()), key=lambda x: (len(x[0]), x[0])))


def swap_parity(spelling: str, canon: str) -> int:
    """Parity stand-in for Algebra._blade2canon: number of inversions of spelling w.r.t. canon order."""
    order = {c: i for i, c in enumerate(canon[1:])}
    seq = [order[c] for c in spelling[1:]]
    return sum(1 for i in range(len(seq)) for j in range(i + 1, len(seq)) if seq[i] > seq[j])


def rep_algebra(d: int = 3, graded: bool = False, extra_attrs=None, extra_methods=None, r: int = 0, basis=None) -> Obj:
    if basis is not None:
        from .products import basis_maps
        c2b, b2c, _ = basis_maps(basis)
    else:
        c2b = default_canon2bin(d)
        b2c = {b: n for n, b in sorted(c2b.items(), key=lambda x: x[1])}

    def blade2canon(name):
        if name in c2b:
            return (name, 0)
        gens = name[1:]
        bits = 0
        for g in gens:
            bits |= c2b.get("e" + g, 2 ** d)
        canon = b2c.get(bits)
        if canon and len(set(gens)) == len(gens):
            return (canon, swap_parity(name, canon))
        if canon:
            return (canon, 0)
        return (f"e{2 ** d}", 0)

    def indices_for_grades(grades):
        if not isinstance(grades, tuple):
            raise Raised("KeyError")
        out = []
        if list(grades) != sorted(set(grades)) or any(not isinstance(g, int) or g < 0 or g > d for g in grades):
            raise Raised("KeyError")
        for g in grades:
            out.extend(b for n, b in c2b.items() if len(n) - 1 == g)
        return tuple(out)

    def indices_for_grade(g):
        if not isinstance(g, int) or g < 0 or g > d:
            raise Raised("KeyError")
        return tuple(b for n, b in c2b.items() if len(n) - 1 == g)

    def table(getitem):
        # the read-only dict protocol of a precomputed table: [], get, in
        def get(key, default=None):
            try:
                return getitem(key)
            except Raised as r_:
                if r_.name == "KeyError":
                    return default
                raise

        def contains(key):
            try:
                getitem(key)
                return True
            except Raised as r_:
                if r_.name == "KeyError":
                    return False
                raise
        return Obj("dict", {}, {"get": get, "__contains__": contains}, getitem=getitem)
    attrs = {"canon2bin": c2b, "bin2canon": b2c, "d": d, "graded": graded, "r": r, "p": d - r, "q": 0,
             "indices_for_grades": table(indices_for_grades),
             "indices_for_grade": table(indices_for_grade),
             "codegen_symbolcls": None, "wrapper": None, "basis": list(basis) if basis else [], "cse": True}
    attrs.update(extra_attrs or {})
    methods = {"_blade2canon": blade2canon, "__len__": lambda: 2 ** d}
    methods.update(extra_methods or {})
    return Obj("algebra", attrs, methods)


from .absint import Raised  # noqa: E402
from .astx import NoValue  # noqa: E402


class Val:
    """Symbolic coefficient: +-name (negation tracked), opaque otherwise."""

    def __new__(cls, name, sign=1):
        o = Obj("value", {"name": name, "sign": sign, "fmt": ("-" if sign < 0 else "") + name})
        o.methods["unop"] = lambda op: Val(name, -sign) if op == "USub" else (o if op == "UAdd" else Unk("unop"))
        o.methods["binop"] = lambda op, other, refl: Unk(f"arith({name})")
        def compare(op, other):
            same = isinstance(other, Obj) and other.kind == "value" and other.attrs["fmt"] == o.attrs["fmt"]
            if op == "Eq":
                return same
            if op == "NotEq":
                return not same
            return Unk("compare value")
        o.methods["compare"] = compare
        return o


def val_repr(v):
    if isinstance(v, Obj) and v.kind == "value":
        return v.attrs["fmt"]
    return repr(v)


def mv_obj(algebra, keys, values, kind="MultiVector") -> Obj:
    return Obj(kind, {"algebra": algebra, "_keys": keys, "_values": values})


# --------------------------------------------------------------------------- N-dimensional array of symbolic coefficients
def _nested(name, shape, prefix=()):
    if not shape:
        return Val(f"{name}[{','.join(map(str, prefix))}]")
    return [_nested(name, shape[1:], prefix + (i,)) for i in range(shape[0])]


def _shape_of(nested):
    sh = []
    while isinstance(nested, list):
        sh.append(len(nested))
        nested = nested[0] if nested else None
    return tuple(sh)


def _basic_index(nested, idx, ndim):
    """numpy's basic indexing (ints, slices, Ellipsis, None is not supported; one list = fancy index of that axis) on nested lists."""
    if not isinstance(idx, tuple):
        idx = (idx,)
    if sum(1 for i in idx if i is Ellipsis) > 1:
        raise NoValue("two ellipses in an index")
    if any(i is Ellipsis for i in idx):
        k = next(n for n, i in enumerate(idx) if i is Ellipsis)
        idx = idx[:k] + (slice(None),) * (ndim - (len(idx) - 1)) + idx[k + 1:]
    if len(idx) > ndim:
        raise Raised("IndexError")

    def rec(node, rest):
        if not rest:
            return node
        i, tail = rest[0], rest[1:]
        if isinstance(i, bool) or i is None:
            raise NoValue(f"index {i!r}")
        if isinstance(i, int):
            if not -len(node) <= i < len(node):
                raise Raised("IndexError")
            return rec(node[i], tail)
        if isinstance(i, slice):
            return [rec(x, tail) for x in node[i]]
        if isinstance(i, (list, tuple)) and all(isinstance(j, int) and not isinstance(j, bool) for j in i):
            return [rec(node[j], tail) for j in i]
        raise NoValue(f"index {i!r}")
    return rec(nested, idx)


def symarray(name, shape, dtype="float64", _leaves=None):
    """ONE ndarray holding symbolic coefficients `name[i,j,..]`: shape, ndim, dtype, basic indexing (sub-arrays are read-only
    copies - enough for code that reads), iteration over the leading axis, len, tolist, copy, assignment into the array itself."""
    leaves = _nested(name, tuple(shape)) if _leaves is None else _leaves
    shape = _shape_of(leaves)
    o = Obj("ndarray", {"fmt": f"{name}{list(shape)}", "shape": shape, "ndim": len(shape), "dtype": Obj("dtype", {"name": dtype, "fmt": dtype, "of_user_array": _leaves is None}),
                        "size": 0, "leaves": leaves, "sym_name": name})

    def wrap(x, label):
        return symarray(label, (), dtype, _leaves=x) if isinstance(x, list) else x

    def getitem(idx):
        return wrap(_basic_index(leaves, idx, len(shape)), f"{name}[{idx!r}]")
    o.getitem = getitem

    def setitem(idx, value):
        target = _basic_index(_nested("@", shape), idx, len(shape))      # positions addressed, as '@[i,j]' tokens

        def src(v):
            if isinstance(v, Obj) and v.kind == "ndarray" and "leaves" in v.attrs:
                return v.attrs["leaves"]
            return [src(x) for x in v] if isinstance(v, (list, tuple)) else v
        value = src(value)

        def put(t, v):
            if isinstance(t, list):
                if isinstance(v, list):
                    tsh, vsh = _shape_of(t), _shape_of(v)
                    if len(vsh) < len(tsh):
                        for x in t:
                            put(x, v)                      # numpy aligns TRAILING axes
                        return
                    if len(v) == 1 and len(t) != 1:
                        v = v * len(t)
                    if len(v) != len(t):
                        raise Raised("ValueError")
                    for x, y in zip(t, v):
                        put(x, y)
                else:
                    for x in t:
                        put(x, v)
                return
            pos = tuple(int(n) for n in t.attrs["name"][2:-1].split(",") if n != "")
            node = leaves
            for n in pos[:-1]:
                node = node[n]
            node[pos[-1]] = v
        put(target, value)
    o.methods.update({
        "setitem": setitem, "__len__": lambda: shape[0] if shape else (_ for _ in ()).throw(Raised("TypeError")),
        "__iter__": lambda: [getitem(i) for i in range(shape[0])], "tolist": lambda: leaves,
        "copy": lambda *a, **k: symarray(name, (), dtype, _leaves=_copy_nested(leaves)),
        "tobytes": lambda *a, **k: Obj("bytes", {"dtype": dtype, "names": tuple(_flat_names(leaves)), "fmt": f"bytes<{dtype}>{_flat_names(leaves)}"}),
        "astype": lambda t, *a, **k: symarray(name, (), _dtype_text(t), _leaves=_copy_nested(leaves)),
    })
    return o


def _flat_names(x):
    if isinstance(x, list):
        return [n for y in x for n in _flat_names(y)]
    return [val_repr(x) if isinstance(x, Obj) else x]


def _dtype_text(t):
    if isinstance(t, str):
        return {"float": "float64", "double": "float64", "f8": "float64", "<f8": "float64", "d": "float64"}.get(t, t)
    if isinstance(t, Obj) and t.kind == "dtype":
        return t.attrs["name"]
    if getattr(t, "name", None) == "float":
        return "float64"
    if getattr(t, "name", None) == "int":
        return "int64"
    raise NoValue(f"element type {t!r}")


def numpy_alloc_standin(extra=None):
    """numpy as far as allocating goes: zeros / empty / ones (and the *_like forms).  An array allocated WITHOUT an element type (or
    with a fixed one) is a float64 (resp. that type's) array whatever is written into it later: `narrowed` records the first write of
    coefficients of a user's array into such an array - complex, object (Fraction, sympy) and integer coefficients are cast."""
    def alloc(shape, dtype=None, *a, **k):
        if isinstance(shape, int):
            shape = (shape,)
        shape = tuple(shape)
        if not all(isinstance(n, int) for n in shape):
            raise NoValue(f"allocation of shape {shape!r}")
        leaves = _fill(shape)
        o = symarray("Z", (), "float64" if dtype is None else str(dtype), _leaves=leaves)
        o.attrs["allocated"] = "no element type given (float64)" if dtype is None else f"element type {dtype}"
        inner = o.methods["setitem"]

        def setitem(idx, value, o=o, inner=inner):
            def user(v):
                if isinstance(v, Obj) and v.kind == "ndarray" and "leaves" in v.attrs:
                    return "allocated" not in v.attrs
                if isinstance(v, (list, tuple)):
                    return any(user(x) for x in v)
                return isinstance(v, Obj) and v.kind == "value"
            if user(value) and not (isinstance(dtype, Obj) and dtype.attrs.get("of_user_array")):
                o.attrs["narrowed"] = True
            return inner(idx, value)
        o.methods["setitem"] = setitem
        return o

    def like(x, dtype=None, *a, **k):
        if not (isinstance(x, Obj) and x.kind == "ndarray"):
            raise NoValue("*_like of a non-array")
        return alloc(x.attrs["shape"], dtype if dtype is not None else Obj("dtype", {"name": "user", "fmt": "user dtype", "of_user_array": True}))
    table = {"ndarray": ClassRef("ndarray")}
    for n in ("zeros", "empty", "ones"):
        table[n] = PyFunc(alloc, f"np.{n}", True)
        table[n + "_like"] = PyFunc(like, f"np.{n}_like", True)
    table.update(extra or {})
    return Obj("module:numpy", table)


def _fill(shape):
    return 0 if not shape else [_fill(shape[1:]) for _ in range(shape[0])]


def _copy_nested(x):
    return [_copy_nested(y) for y in x] if isinstance(x, list) else x


def symarray_values(v):
    """Nested list of printable coefficient names of a symarray / list of rows / leaf."""
    if isinstance(v, Obj) and v.kind == "ndarray" and "leaves" in v.attrs:
        return symarray_values(v.attrs["leaves"])
    if isinstance(v, (list, tuple)):
        return [symarray_values(x) for x in v]
    return val_repr(v) if isinstance(v, Obj) else v


# --------------------------------------------------------------------------- tree mode (operator trees over whole multivectors)
def tree_interp(repo, d: int = 3, pss_sign: int = 1, r: int = 0, cls: str = "MultiVector", extra_attrs=None):
    """Interpreter whose algebra stand-in supports composite codegens: d, r, pss, blades.e, signs[P, P], scalar()."""
    P = 2 ** d - 1

    def signs_getitem(key):
        if key == (P, P):
            return pss_sign
        return Unk(f"signs[{key}]")

    blades = Obj("blades", {"e": T.num(1, cls)})
    attrs = {"d": d, "r": r, "pss": T.var("pss", cls), "blades": blades, "signs": Obj("dict", getitem=signs_getitem),
             # the generators as opaque elements: an expression built from them is NOT the pseudoscalar `pss` (the
             # pseudoscalar is the blade the basis spells, which differs from a product of generators by a sign)
             "frame": [T.var(f"g{i}", cls) for i in range(d)]}
    attrs.update(extra_attrs or {})
    it = make_interp(repo, attrs, {"__len__": lambda: 2 ** d}, opaque_calls=("grade", "filter", "map", "items", "keys", "values", "grades", "type_number", "free_symbols",
                                   "issymbolic", "shape"))
    it.scalar_reciprocals = True

    # The scalar coefficient of an expression in the pseudoscalar alone is a number: I is one blade of grade d with
    # I*I = pss_sign, ~I = (-1)^(d(d-1)/2) I, involute(I) = (-1)^d I, normsq(a) = a * ~a.
    rev_sign, inv_sign = (-1) ** (d * (d - 1) // 2), (-1) ** d

    def in_pss(t):
        """T over the pseudoscalar alone -> (scalar part, pseudoscalar part) as numbers, else None."""
        sc = ps = Fraction(0)
        for w, c in t.terms.items():
            a, b = Fraction(c), Fraction(0)            # running value a + b*I
            for l in w:
                if l[0] == "v" and l[1] == "pss":
                    la, lb = Fraction(0), Fraction((rev_sign if l[2] else 1) * (inv_sign if l[3] else 1))
                elif l[0] == "o" and l[1] == "normsq" and len(l[2]) == 1 and isinstance(l[2][0], T) and not l[3]:
                    inner = in_pss(l[2][0])
                    if inner is None:
                        return None
                    ia, ib = inner
                    # (ia + ib I)(ia + ib ~I): scalar ia^2 + ib^2 rev I^2, pseudoscalar ia ib (1 + rev)
                    la, lb = ia * ia + ib * ib * rev_sign * pss_sign, ia * ib * (1 + rev_sign)
                else:
                    return None
                a, b = a * la + b * lb * pss_sign, a * lb + b * la
            sc, ps = sc + a, ps + b
        return sc, ps

    def pss_hook(v, name):
        if isinstance(v, T) and name == "e" and v.terms and any(w for w in v.terms):
            r = in_pss(v)
            if r is not None:
                return int(r[0]) if r[0].denominator == 1 else r[0]
        return NotImplemented
    it.attr_hook = pss_hook
    return it
