"""Shared stand-ins for the abstract interpreter: interpreter factory, algebra objects, recorder tokens."""
from __future__ import annotations

import ast
from fractions import Fraction
from typing import Any, Dict, Optional

from .absint import Interp, Obj, Unk, PyFunc, ClassRef
from .optree import T
from .surface import class_surface, operator_registry


def tables_for(repo):
    return {"MultiVector": class_surface(repo, "multivector.MultiVector"),
            "TapeRecorder": class_surface(repo, "taperecorder.TapeRecorder")}


def scalar_ctor(cls="MultiVector"):
    """Stand-in for Algebra.scalar / purevector(grade=0): a number list -> that number, name= -> scalar atom."""
    def scalar(*args, **kwargs):
        if "name" in kwargs and isinstance(kwargs["name"], str):
            return T.scalar(("sym", kwargs["name"]), cls)
        vals = args[0] if args else kwargs.get("values")
        if isinstance(vals, (list, tuple)) and len(vals) == 1:
            v = vals[0]
            if isinstance(v, (int, float, Fraction)) and not isinstance(v, bool):
                return T.num(Fraction(v), cls)
            if isinstance(v, T):
                return v
        return Unk("scalar(...)")
    return scalar


def make_interp(repo, algebra_attrs: Optional[Dict[str, Any]] = None, algebra_methods=None, **kw) -> Interp:
    tables = tables_for(repo)
    reg = operator_registry(repo)
    attrs = dict(algebra_attrs or {})
    methods = {"scalar": scalar_ctor()}
    methods.update(algebra_methods or {})
    alg = Obj("algebra", attrs, methods)
    it = Interp(repo, tables, reg, algebra=alg, **kw)

    def class_call(name, args, kwargs):
        if name == "TapeRecorder":
            names = ["algebra", "expr", "keys"]
            vals = dict(zip(names, args))
            vals.update(kwargs)
            expr, keys = vals.get("expr"), vals.get("keys")
            if keys == (0,) and isinstance(expr, str):
                try:
                    tree = ast.parse(expr, mode="eval").body
                    if isinstance(tree, ast.Tuple) and len(tree.elts) == 1 and isinstance(tree.elts[0], ast.Constant) \
                            and isinstance(tree.elts[0].value, (int, float)):
                        return T.num(Fraction(tree.elts[0].value), "TapeRecorder")
                except SyntaxError:
                    pass
            return Obj("TapeRecorder", {"algebra": vals.get("algebra"), "expr": expr, "_keys": keys},
                       {"keys": lambda: keys})
        return NotImplemented
    it.class_call_hook = class_call
    return it
