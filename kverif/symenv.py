"""Shared stand-ins for the abstract interpreter: interpreter factory, algebra objects, recorder tokens."""
from __future__ import annotations

import ast
from fractions import Fraction
from typing import Any, Dict, Optional

from .absint import Interp, Obj, Unk, PyFunc, ClassRef
from .optree import T
from .surface import class_surface, operator_registry


def tables_for(repo):
    return {"MultiVector": class_surface(repo, "multivector.MultiVector"),
            "TapeRecorder": class_surface(repo, "taperecorder.TapeRecorder")}


def scalar_ctor(cls="MultiVector"):
    """Stand-in for Algebra.scalar / purevector(grade=0): a number list -> that number, name= -> scalar atom."""
    def scalar(*args, **kwargs):
        if "name" in kwargs and isinstance(kwargs["name"], str):
            return T.scalar(("sym", kwargs["name"]), cls)
        vals = args[0] if args else kwargs.get("values")
        if isinstance(vals, (list, tuple)) and len(vals) == 1:
            v = vals[0]
            if isinstance(v, (int, float, Fraction)) and not isinstance(v, bool):
                return T.num(Fraction(v), cls)
            if isinstance(v, T):
                return v
            if isinstance(v, Obj) and v.kind == "reciprocal":
                o = Obj("MultiVector", {"_keys": (0,), "_values": [v]})
                o.methods["values"] = lambda: [v]
                return o
        return Unk("scalar(...)")
    return scalar


def make_interp(repo, algebra_attrs: Optional[Dict[str, Any]] = None, algebra_methods=None, **kw) -> Interp:
    tables = tables_for(repo)
    reg = operator_registry(repo)
    attrs = dict(algebra_attrs or {})
    methods = {"scalar": scalar_ctor()}
    methods.update(algebra_methods or {})
    alg = Obj("algebra", attrs, methods)
    it = Interp(repo, tables, reg, algebra=alg, **kw)

    def operator_attr(name):
        # self.algebra.<op>(a, b) on the stand-in algebra applies the registry operator to operator trees
        if name in reg:
            return PyFunc(lambda *a: it.apply_op(name, list(a), next((x.cls for x in a if isinstance(x, T)), "MultiVector")),
                          f"algebra.{name}", True)
        return Unk(f"algebra.{name}")
    if "__getattr__" not in alg.methods:
        alg.methods["__getattr__"] = operator_attr

    def class_call(name, args, kwargs):
        if name == "TapeRecorder":
            names = ["algebra", "expr", "keys"]
            vals = dict(zip(names, args))
            vals.update(kwargs)
            expr, keys = vals.get("expr"), vals.get("keys")
            if keys == (0,) and isinstance(expr, str):
                try:
                    tree = ast.parse(expr, mode="eval").body
                    if isinstance(tree, ast.Tuple) and len(tree.elts) == 1 and isinstance(tree.elts[0], ast.Constant) \
                            and isinstance(tree.elts[0].value, (int, float)):
                        return T.num(Fraction(tree.elts[0].value), "TapeRecorder")
                except SyntaxError:
                    pass
            return Obj("TapeRecorder", {"algebra": vals.get("algebra"), "expr": expr, "_keys": keys},
                       {"keys": lambda: keys})
        return NotImplemented
    it.class_call_hook = class_call
    return it


# --------------------------------------------------------------------------- representative algebra / values
def default_canon2bin(d: int, start_index: int = 1):
    """canon2bin of kingdon's default basis for a d-dimensional algebra (canonical order: by grade, then name)."""
    names = {}
    for b in range(2 ** d):
        names[b] = "e" + "".join(format(i + start_index, "x") for i in range(d) if b & (1 << i))
    return dict(sorted(((n, b) for b, n in names.items()), key=lambda x: (len(x[0]), x[0])))


def swap_parity(spelling: str, canon: str) -> int:
    """Parity stand-in for Algebra._blade2canon: number of inversions of spelling w.r.t. canon order."""
    order = {c: i for i, c in enumerate(canon[1:])}
    seq = [order[c] for c in spelling[1:]]
    return sum(1 for i in range(len(seq)) for j in range(i + 1, len(seq)) if seq[i] > seq[j])


def rep_algebra(d: int = 3, graded: bool = False, extra_attrs=None, extra_methods=None, r: int = 0, basis=None) -> Obj:
    if basis is not None:
        from .products import basis_maps
        c2b, b2c, _ = basis_maps(basis)
    else:
        c2b = default_canon2bin(d)
        b2c = {b: n for n, b in sorted(c2b.items(), key=lambda x: x[1])}

    def blade2canon(name):
        if name in c2b:
            return (name, 0)
        gens = name[1:]
        bits = 0
        for g in gens:
            bits |= c2b.get("e" + g, 2 ** d)
        canon = b2c.get(bits)
        if canon and len(set(gens)) == len(gens):
            return (canon, swap_parity(name, canon))
        if canon:
            return (canon, 0)
        return (f"e{2 ** d}", 0)

    def indices_for_grades(grades):
        if not isinstance(grades, tuple):
            raise Raised("KeyError")
        out = []
        if list(grades) != sorted(set(grades)) or any(not isinstance(g, int) or g < 0 or g > d for g in grades):
            raise Raised("KeyError")
        for g in grades:
            out.extend(b for n, b in c2b.items() if len(n) - 1 == g)
        return tuple(out)

    def indices_for_grade(g):
        if not isinstance(g, int) or g < 0 or g > d:
            raise Raised("KeyError")
        return tuple(b for n, b in c2b.items() if len(n) - 1 == g)

    attrs = {"canon2bin": c2b, "bin2canon": b2c, "d": d, "graded": graded, "r": r, "p": d - r, "q": 0,
             "indices_for_grades": Obj("dict", getitem=indices_for_grades),
             "indices_for_grade": Obj("dict", getitem=indices_for_grade),
             "codegen_symbolcls": None, "wrapper": None, "basis": list(basis) if basis else [], "cse": True}
    attrs.update(extra_attrs or {})
    methods = {"_blade2canon": blade2canon, "__len__": lambda: 2 ** d}
    methods.update(extra_methods or {})
    return Obj("algebra", attrs, methods)


from .absint import Raised  # noqa: E402


class Val:
    """Symbolic coefficient: +-name (negation tracked), opaque otherwise."""

    def __new__(cls, name, sign=1):
        o = Obj("value", {"name": name, "sign": sign, "fmt": ("-" if sign < 0 else "") + name})
        o.methods["unop"] = lambda op: Val(name, -sign) if op == "USub" else (o if op == "UAdd" else Unk("unop"))
        o.methods["binop"] = lambda op, other, refl: Unk(f"arith({name})")
        def compare(op, other):
            same = isinstance(other, Obj) and other.kind == "value" and other.attrs["fmt"] == o.attrs["fmt"]
            if op == "Eq":
                return same
            if op == "NotEq":
                return not same
            return Unk("compare value")
        o.methods["compare"] = compare
        return o


def val_repr(v):
    if isinstance(v, Obj) and v.kind == "value":
        return v.attrs["fmt"]
    return repr(v)


def mv_obj(algebra, keys, values, kind="MultiVector") -> Obj:
    return Obj(kind, {"algebra": algebra, "_keys": keys, "_values": values})


# --------------------------------------------------------------------------- tree mode (operator trees over whole multivectors)
def tree_interp(repo, d: int = 3, pss_sign: int = 1, r: int = 0, cls: str = "MultiVector", extra_attrs=None):
    """Interpreter whose algebra stand-in supports composite codegens: d, r, pss, blades.e, signs[P, P], scalar()."""
    P = 2 ** d - 1

    def signs_getitem(key):
        if key == (P, P):
            return pss_sign
        return Unk(f"signs[{key}]")

    blades = Obj("blades", {"e": T.num(1, cls)})
    attrs = {"d": d, "r": r, "pss": T.var("pss", cls), "blades": blades, "signs": Obj("dict", getitem=signs_getitem),
             # the generators as opaque elements: an expression built from them is NOT the pseudoscalar `pss` (the
             # pseudoscalar is the blade the basis spells, which differs from a product of generators by a sign)
             "frame": [T.var(f"g{i}", cls) for i in range(d)]}
    attrs.update(extra_attrs or {})
    it = make_interp(repo, attrs, {"__len__": lambda: 2 ** d}, opaque_calls=("grade", "filter", "map", "items", "keys", "values", "grades", "type_number", "free_symbols",
                                   "issymbolic", "shape"))
    it.scalar_reciprocals = True

    # The scalar coefficient of an expression in the pseudoscalar alone is a number: I is one blade of grade d with
    # I*I = pss_sign, ~I = (-1)^(d(d-1)/2) I, involute(I) = (-1)^d I, normsq(a) = a * ~a.
    rev_sign, inv_sign = (-1) ** (d * (d - 1) // 2), (-1) ** d

    def in_pss(t):
        """T over the pseudoscalar alone -> (scalar part, pseudoscalar part) as numbers, else None."""
        sc = ps = Fraction(0)
        for w, c in t.terms.items():
            a, b = Fraction(c), Fraction(0)            # running value a + b*I
            for l in w:
                if l[0] == "v" and l[1] == "pss":
                    la, lb = Fraction(0), Fraction((rev_sign if l[2] else 1) * (inv_sign if l[3] else 1))
                elif l[0] == "o" and l[1] == "normsq" and len(l[2]) == 1 and isinstance(l[2][0], T) and not l[3]:
                    inner = in_pss(l[2][0])
                    if inner is None:
                        return None
                    ia, ib = inner
                    # (ia + ib I)(ia + ib ~I): scalar ia^2 + ib^2 rev I^2, pseudoscalar ia ib (1 + rev)
                    la, lb = ia * ia + ib * ib * rev_sign * pss_sign, ia * ib * (1 + rev_sign)
                else:
                    return None
                a, b = a * la + b * lb * pss_sign, a * lb + b * la
            sc, ps = sc + a, ps + b
        return sc, ps

    def pss_hook(v, name):
        if isinstance(v, T) and name == "e" and v.terms and any(w for w in v.terms):
            r = in_pss(v)
            if r is not None:
                return int(r[0]) if r[0].denominator == 1 else r[0]
        return NotImplemented
    it.attr_hook = pss_hook
    return it
