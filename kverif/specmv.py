"""Specification multivectors: {blade key: Poly} with the operations of a Clifford algebra of a given diagonal
signature, and an algebra stand-in whose operators ARE that specification.

Used to decide composite code generators (normsq, sw, proj, ...) semantically: the function is interpreted from the
source on operands with symbolic coefficients; every elementary operator it applies (x * y, ~x, x | y, ...) is
answered by the specification (the elementary operators themselves are decided by the rules of C02 - C05), and what it
returns - a multivector or a dict of coefficients - is compared with the definition evaluated the same way."""
from __future__ import annotations

from typing import Dict, List

from .absint import Obj, Raised
from .astx import Poly, NoValue
from .products import spec_sign, poly_of_value, PV
from .symenv import mv_obj


def grade(k: int) -> int:
    return bin(k).count("1")


class Spec:
    def __init__(self, signature: List[int]):
        self.sig = list(signature)

    @staticmethod
    def clean(m):
        return {k: p for k, p in m.items() if not p.is_zero()}

    def product(self, a, b, keep=lambda ka, kb: True):
        res: Dict[int, Poly] = {}
        for ka, pa in a.items():
            for kb, pb in b.items():
                s = spec_sign(ka, kb, self.sig)
                if s and keep(ka, kb):
                    res[ka ^ kb] = res.get(ka ^ kb, Poly()) + pa * pb * Poly.const(s)
        return self.clean(res)

    def gp(self, a, b):
        return self.product(a, b)

    def op(self, a, b):
        return self.product(a, b, lambda ka, kb: not ka & kb)

    def ip(self, a, b):
        return self.product(a, b, lambda ka, kb: grade(ka ^ kb) == abs(grade(ka) - grade(kb)))

    def lc(self, a, b):
        return self.product(a, b, lambda ka, kb: grade(ka ^ kb) == grade(kb) - grade(ka))

    def rc(self, a, b):
        return self.product(a, b, lambda ka, kb: grade(ka ^ kb) == grade(ka) - grade(kb))

    def sp(self, a, b):
        return self.product(a, b, lambda ka, kb: ka == kb)

    def add(self, a, b):
        res = dict(a)
        for k, p in b.items():
            res[k] = res.get(k, Poly()) + p
        return self.clean(res)

    def neg(self, a):
        return {k: -p for k, p in a.items()}

    def sub(self, a, b):
        return self.add(a, self.neg(b))

    def reverse(self, a):
        return {k: p * Poly.const(-1 if (grade(k) * (grade(k) - 1) // 2) % 2 else 1) for k, p in a.items()}

    def involute(self, a):
        return {k: p * Poly.const(-1 if grade(k) % 2 else 1) for k, p in a.items()}

    def conjugate(self, a):
        return self.reverse(self.involute(a))

    def normsq(self, a):
        return self.gp(a, self.reverse(a))

    def sw(self, a, b):
        return self.gp(self.gp(a, b), self.reverse(a))

    def proj(self, a, b):
        return self.gp(self.ip(a, b), self.reverse(b))


def as_spec(v):
    """{key: Poly} of a multivector stand-in, a dict of coefficient tokens, or a plain number; None if not denotable."""
    if isinstance(v, Obj) and v.kind == "MultiVector":
        keys, vals = v.attrs.get("_keys"), v.attrs.get("_values")
        if not isinstance(keys, (tuple, list)) or not isinstance(vals, (tuple, list)) or len(keys) != len(vals):
            return None
        v = dict(zip(keys, vals))
        if len(v) != len(keys):
            return None
    if isinstance(v, dict):
        out = {}
        for k, val in v.items():
            p = poly_of_value(val)
            if p is None or not isinstance(k, int) or isinstance(k, bool):
                return None
            out[k] = p
        return out
    p = poly_of_value(v)
    if p is not None:
        return {0: p}
    return None


def attach_spec_operators(alg: Obj, signature: List[int]) -> Spec:
    """The operators of the algebra stand-in answer with the specification (results keep every reachable blade in
    ascending key order with the zero coefficients dropped)."""
    spec = Spec(signature)

    def lift(v):
        m = as_spec(v)
        if m is None:
            raise NoValue(f"operand {v!r} of a specification operator")
        return m

    def wrap(m):
        keys = tuple(sorted(m))
        return mv_obj(alg, keys, [PV(m[k], "sum") for k in keys])

    for name in ("gp", "op", "ip", "lc", "rc", "sp", "add", "sub", "sw", "proj"):
        alg.methods[name] = lambda a, b, _f=getattr(spec, name): wrap(_f(lift(a), lift(b)))
    for name in ("neg", "reverse", "involute", "conjugate", "normsq"):
        alg.methods[name] = lambda a, _f=getattr(spec, name): wrap(_f(lift(a)))
    return spec
