"""Template extraction for the operator entry points (OperatorDict.__call__, _call_binary,
UnaryOperatorDict.__call__, Registry.__call__): abstract interpretation with opaque tokens for key
tuples, value sequences, the cached function and its by-name twin."""
from __future__ import annotations

from typing import Any, Dict, List, Optional

from .absint import Obj, Unk, NoValue
from .symenv import make_interp

ENTRY_POINTS = {
    "operator_dict.OperatorDict._call_binary": ("OperatorDict", 2),
    "operator_dict.OperatorDict.__call__": ("OperatorDict", 3),
    "operator_dict.UnaryOperatorDict.__call__": ("UnaryOperatorDict", 1),
    "operator_dict.Registry.__call__": ("Registry", 2),
}


def tok(name):
    return Obj("token", {"fmt": name, "name": name})


def tname(v):
    if isinstance(v, Obj) and v.kind == "token":
        return v.attrs["name"]
    if isinstance(v, (tuple, list)):
        return type(v)(tname(x) for x in v)
    return v


class Scenario:
    def __init__(self, symbolic=(), wrapper=False, simp_func=True, n=2, scalar_at=None, foreign_at=None, foreign_kind="basis",
                 cached=False, empty_at=None):
        self.foreign_kind = foreign_kind
        self.empty_at = empty_at      # this operand stores no blade at all: keys (), values []
        self.cached = cached          # is the key pattern already in the operator's cache? (`key in self`)
        self.symbolic, self.wrapper, self.simp_func, self.n = set(symbolic), wrapper, simp_func, n
        self.scalar_at, self.foreign_at = scalar_at, foreign_at

    def label(self):
        return (f"n={self.n},symbolic={sorted(self.symbolic) or 'no'},wrapper={'set' if self.wrapper else 'None'},"
                f"simp_func={'set' if self.simp_func else 'None'}" + (f",scalar@{self.scalar_at}" if self.scalar_at is not None else "")
                + (f",foreign@{self.foreign_at}" if self.foreign_at is not None else "")
                + (f",empty@{self.empty_at}" if self.empty_at is not None else ""))


def run_entry(repo, qual: str, sc: Scenario):
    """Returns dict with lookups, calls, filtered flag and the resulting stand-in, or ('raise', name)."""
    kind, _ = ENTRY_POINTS[qual]
    log: Dict[str, Any] = {"lookups": [], "calls": [], "filter": None}

    def make_callable(which):
        def call(*args, **kwargs):
            log["calls"].append((which, tuple(tname(a) for a in args)))
            return tok("VALUES_OUT")
        return call

    func = Obj("function", {"__name__": "FN", "fmt": "<FN>"}, call=make_callable("direct"))
    twin = Obj("function", {"__name__": "FN_wrapped"}, call=make_callable("twin"))
    other_fn = Obj("function", {"__name__": "OTHER"}, call=make_callable("other"))
    numspace = {"FN": twin, "OTHER": other_fn}

    def alg_compare(me):
        def compare(op, other):
            same = other is me
            if op == "Eq":
                return same
            if op == "NotEq":
                return not same
            return Unk("compare")
        return compare

    def new_algebra(name, signature=(1, 1, -1), basis=()):
        # the fields a compatibility check could look at are all there; `==` between two algebra stand-ins is False
        # unless they are the same object (what Algebra.__eq__ itself separates is decided by C14.eq-fields)
        a = Obj("algebra", {"wrapper": (Obj("wrapper", call=lambda f: f) if sc.wrapper else None),
                            "simp_func": (Obj("simp_func", call=lambda v: v) if sc.simp_func else None),
                            "numspace": numspace, "fmt": name, "codegen_symbolcls": None,
                            "signature": list(signature), "basis": list(basis), "d": len(signature),
                            "p": sum(1 for x in signature if x == 1), "q": sum(1 for x in signature if x == -1),
                            "r": sum(1 for x in signature if x == 0), "start_index": 1, "cse": True, "graded": False})
        a.methods["compare"] = alg_compare(a)
        a.methods["__len__"] = lambda: 2 ** len(signature)
        return a
    alg = new_algebra("ALG")
    if getattr(sc, "foreign_kind", "basis") == "basis":
        foreign = new_algebra("FOREIGN", basis=("e", "e2", "e3", "e1", "e23", "e31", "e12", "e123"))   # same metric, other basis
    else:
        foreign = new_algebra("FOREIGN", signature=(1, -1, 1))                                      # same (p, q, r), other metric

    def getitem(key):
        log["lookups"].append(tname(key))
        return (tok("KEYS_OUT"), func)

    def filt(keys_out, values_out):
        log["filter"] = (tname(keys_out), tname(values_out))
        return (tok("KEYS_FILTERED"), tok("VALUES_FILTERED"))

    me = Obj(kind, {"algebra": alg, "name": "op", "codegen": tok("CODEGEN")},
             {"filter": filt, "__contains__": lambda key: bool(getattr(sc, "cached", False))}, getitem=getitem)
    operands = []
    for i in range(sc.n):
        if sc.scalar_at == i:
            operands.append(tok(f"NUMBER{i}"))
            continue
        a = foreign if sc.foreign_at == i else alg
        if getattr(sc, "empty_at", None) == i:
            operands.append(Obj("MultiVector", {"algebra": a, "_keys": (), "_values": [], "issymbolic": False}))
            continue
        operands.append(Obj("MultiVector", {"algebra": a, "_keys": tok(f"KEYS{i}"), "_values": tok(f"VALUES{i}"),
                                            "issymbolic": i in sc.symbolic}))
    it = make_interp(repo)
    it.instance_classes.update({"OperatorDict": "operator_dict.OperatorDict", "UnaryOperatorDict": "operator_dict.UnaryOperatorDict",
                                "Registry": "operator_dict.Registry"})
    out = it.run(qual, [me] + operands)
    log["out"] = out
    if out[0] == "return" and isinstance(out[1], Obj) and out[1].kind == "MultiVector":
        log["result_keys"] = tname(out[1].attrs.get("_keys"))
        log["result_values"] = tname(out[1].attrs.get("_values"))
        log["result_algebra"] = out[1].attrs.get("algebra") is alg
    return log


def expected(sc: Scenario):
    empty = getattr(sc, "empty_at", None)
    keys = tuple(() if empty == i else (f"KEYS{i}" if sc.scalar_at != i else (0,)) for i in range(sc.n))
    vals = tuple([] if empty == i else (f"VALUES{i}" if sc.scalar_at != i else None) for i in range(sc.n))
    symbolic = bool(sc.symbolic)
    which = "direct" if (symbolic or not sc.wrapper) else "twin"
    filtered = symbolic and sc.simp_func
    return {"key": keys if sc.n > 1 else keys[0], "values": vals, "which": which, "filtered": filtered}
