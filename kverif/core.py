"""Rule framework: three-valued rule instances, registry, known findings, evidence."""
from __future__ import annotations

import ast
import json
import os
import time
import traceback
from dataclasses import dataclass, field
from typing import Any, Callable, Dict, List, Optional, Sequence

from .astx import ValueIdentity
from .model import AnchorMissing, Repo

VERIF_DIR = os.path.dirname(os.path.dirname(os.path.abspath(__file__)))
OK, VIOLATION, UNKNOWN, NOTE = "ok", "violation", "unknown", "note"


class Unknown(Exception):
    """Raised inside a rule when the code uses an idiom its recogniser does not understand."""

    def __init__(self, construct: str, reason: str, node: Optional[ast.AST] = None):
        super().__init__(f"{construct}: {reason}")
        self.construct, self.reason, self.node = construct, reason, node


@dataclass
class Instance:
    rule: str
    status: str
    construct: str
    message: str = ""
    where: str = ""
    facts: Dict[str, Any] = field(default_factory=dict)

    def to_json(self) -> Dict[str, Any]:
        d = {"rule": self.rule, "status": self.status, "construct": self.construct}
        if self.message:
            d["message"] = self.message
        if self.where:
            d["where"] = self.where
        if self.facts:
            d["facts"] = _jsonable(self.facts)
        return d


def _jsonable(x):
    if isinstance(x, dict):
        return {str(k): _jsonable(v) for k, v in x.items()}
    if isinstance(x, (list, tuple, set, frozenset)):
        seq = list(x)
        if isinstance(x, (set, frozenset)):
            seq = sorted(seq, key=repr)
        return [_jsonable(v) for v in seq]
    if isinstance(x, (str, int, float, bool)) or x is None:
        return x
    if isinstance(x, ast.AST):
        return ast.unparse(x)
    return repr(x)


@dataclass
class RuleDef:
    id: str
    props: Sequence[str]
    fn: Callable[["Ctx"], None]
    tier: str = "quick"           # 'quick' rules run in both tiers, 'thorough' only in thorough
    min_instances: int = 1        # instances (ok or violation) confirmed by hand on the pinned tree
    doc: str = ""
    fixture: Optional[Callable[["Ctx"], None]] = None   # known-bad example that must be flagged
    mutants: Sequence[tuple] = ()  # liveness: (module, old, new[, expected construct substring])
    rewrites: Sequence[tuple] = ()  # equivalent rewrites that must stay silent


RULES: Dict[str, RuleDef] = {}


def rule(id: str, props: Sequence[str], tier: str = "quick", min_instances: int = 1,
         mutants: Sequence[tuple] = (), rewrites: Sequence[tuple] = ()):
    def deco(fn):
        RULES[id] = RuleDef(id=id, props=tuple(props), fn=fn, tier=tier, min_instances=min_instances,
                            doc=(fn.__doc__ or "").strip(), mutants=tuple(mutants), rewrites=tuple(rewrites))
        return fn
    return deco


def fixture_for(rule_id: str):
    """Register a known-bad fixture run for a rule: fn(ctx) must record at least one violation."""
    def deco(fn):
        RULES[rule_id].fixture = fn
        return fn
    return deco


class Ctx:
    """What a rule sees: the repository model and the three verdict recorders."""

    def __init__(self, repo: Repo, rule_id: str, tier: str = "quick"):
        self.repo = repo
        self.rule_id = rule_id
        self.tier = tier
        self.instances: List[Instance] = []
        self.functions: set = set()
        self.call_sites = 0

    # -- verdicts
    def ok(self, construct: str, node: Optional[ast.AST] = None, module: Optional[str] = None, **facts):
        self.instances.append(Instance(self.rule_id, OK, construct, "", self._where(module, node, construct), facts))

    def violation(self, construct: str, message: str, node: Optional[ast.AST] = None,
                  module: Optional[str] = None, **facts):
        self.instances.append(Instance(self.rule_id, VIOLATION, construct, message,
                                       self._where(module, node, construct), facts))

    def unknown(self, construct: str, reason: str, node: Optional[ast.AST] = None, module: Optional[str] = None):
        self.instances.append(Instance(self.rule_id, UNKNOWN, construct, reason,
                                       self._where(module, node, construct)))

    def note(self, construct: str, message: str, node: Optional[ast.AST] = None, module: Optional[str] = None):
        self.instances.append(Instance(self.rule_id, NOTE, construct, message,
                                       self._where(module, node, construct)))

    def _where(self, module, node, construct):
        if module is None:
            module = construct.split(".")[0].split("#")[0]
        if module in self.repo.modules or module in self.repo.extra:
            return self.repo.where(module, node)
        return ""

    # -- anchors
    def func(self, qual: str) -> ast.FunctionDef:
        f = self.repo.func(qual)
        self.functions.add(qual)
        return f

    def cls(self, qual: str) -> ast.ClassDef:
        return self.repo.cls(qual)


def run_rule(rd: RuleDef, repo: Repo, tier: str = "quick", check_min: bool = True) -> Ctx:
    ctx = Ctx(repo, rd.id, tier)
    aborted = False
    try:
        rd.fn(ctx)
    except AnchorMissing as exc:
        ctx.unknown(rd.id, f"anchor vanished: {exc.what}")
    except Unknown as exc:
        ctx.unknown(exc.construct, exc.reason, exc.node)
    except ValueIdentity as exc:
        text = ast.unparse(exc.node) if exc.node is not None else "?"
        aborted = True          # the rule stopped at the violation: the instance count says nothing
        module = None
        for name, mod in repo.modules.items():
            tree = getattr(mod, "tree", mod)
            if any(isinstance(n, ast.Compare) and getattr(n, "lineno", None) == getattr(exc.node, "lineno", -1)
                   and [type(o) for o in n.ops] == [type(o) for o in getattr(exc.node, "ops", [])]
                   and ast.unparse(n.left) == ast.unparse(exc.node.left) for n in ast.walk(tree)):
                module = name
                break
        ctx.violation(f"{module or rd.id}#identity-comparison `{text[:80]}`",
                      f"{exc}: the outcome depends on which integer objects the implementation shares, not on the values",
                      exc.node, module=module)
    except Exception as exc:  # checker bug: never a violation
        tb = traceback.format_exc(limit=6)
        ctx.unknown(rd.id, f"checker exception {type(exc).__name__}: {exc} | {tb.splitlines()[-3:]}")
    if check_min and not aborted:
        n = sum(1 for i in ctx.instances if i.status in (OK, VIOLATION))
        if n < rd.min_instances and not any(i.status == UNKNOWN for i in ctx.instances):
            ctx.unknown(rd.id, f"only {n} instance(s) matched, {rd.min_instances} confirmed by hand on the "
                               f"pinned tree (a rule matching too few sites must not pass vacuously)")
    return ctx


def run_fixture(rd: RuleDef, repo: Repo) -> Optional[str]:
    """Returns None if the known-bad fixture was flagged, else a reason string."""
    if rd.fixture is None:
        return None
    ctx = Ctx(repo, rd.id, "quick")
    try:
        rd.fixture(ctx)
    except Exception as exc:
        return f"fixture raised {type(exc).__name__}: {exc}"
    if not any(i.status == VIOLATION for i in ctx.instances):
        return "known-bad fixture was not flagged"
    return None


# --------------------------------------------------------------------------- known findings
def load_known_findings() -> List[Dict[str, Any]]:
    path = os.path.join(VERIF_DIR, "known_findings.json")
    if not os.path.exists(path):
        return []
    with open(path, encoding="utf-8") as fh:
        return json.load(fh).get("findings", [])


def match_known(findings, prop: str, inst: Instance) -> Optional[Dict[str, Any]]:
    for f in findings:
        if f.get("status") != "known":
            continue  # a 'fixed' entry suppresses nothing
        if f["property"] == prop and f["rule"] == inst.rule and f["construct"] == inst.construct:
            return f
    return None


def now() -> float:
    return time.time()
