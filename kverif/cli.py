"""Command line: check / replay / selfcheck / list.

Exit codes: 0 property held on everything analysed (KNOWN-FINDING lines allowed),
1 at least one VIOLATION not listed in known_findings.json, 2 ANALYSIS-ERROR.
"""
from __future__ import annotations

import argparse
import json
import os
import sys
import time
import traceback
from typing import Any, Dict, List

from . import core
from .core import OK, VIOLATION, UNKNOWN, NOTE, RULES, VERIF_DIR
from .model import Repo, repo_root

PROPERTY_IDS = [f"C{n:02d}" for n in range(1, 21)]


def _load_rules():
    from . import rules  # noqa: F401  (registers everything)


def _props_info() -> Dict[str, Any]:
    from .rules import PROPERTY_INFO
    return PROPERTY_INFO


def selected_rules(prop: str, tier: str):
    out = []
    for rd in RULES.values():
        if prop in rd.props and (tier == "thorough" or rd.tier == "quick"):
            out.append(rd)
    return out


def run_check(prop: str, tier: str, repo: Repo = None, write: bool = True, quiet: bool = False,
              only_rule: str = None, only_construct: str = None) -> int:
    t0 = time.time()
    _load_rules()
    info = _props_info().get(prop)
    out: List[str] = []
    if info is None or not selected_rules(prop, tier):
        print(f"ANALYSIS-ERROR property={prop} rule=- construct=- reason=not-implemented")
        return 2
    if repo is None:
        repo = Repo.load()
    findings = core.load_known_findings()
    seed = int(os.environ.get("VERIF_SEED", "0") or 0)

    instances = []
    fixture_failures = []
    functions = set()
    rule_rows = []
    for rd in selected_rules(prop, tier):
        if only_rule and rd.id != only_rule:
            continue
        ctx = core.run_rule(rd, repo, tier)
        functions |= ctx.functions
        instances.extend(ctx.instances)
        why = core.run_fixture(rd, repo)
        if why:
            fixture_failures.append((rd.id, why))
        rule_rows.append({
            "rule": rd.id, "tier": rd.tier, "doc": rd.doc.split("\n")[0],
            "instances": sum(1 for i in ctx.instances if i.status in (OK, VIOLATION)),
            "min_instances": rd.min_instances,
            "ok": sum(1 for i in ctx.instances if i.status == OK),
            "violations": sum(1 for i in ctx.instances if i.status == VIOLATION),
            "unknown": sum(1 for i in ctx.instances if i.status == UNKNOWN),
            "fixture": "flagged" if rd.fixture and not why else ("none" if not rd.fixture else "NOT-FLAGGED"),
        })

    liveness = None
    if tier == "thorough" and not only_rule:
        from .selftest import liveness_battery
        liveness = liveness_battery(prop, repo)

    if only_construct:
        instances = [i for i in instances if i.construct == only_construct]

    new_violations, known_hits, unknowns = [], [], []
    for inst in instances:
        if inst.status == VIOLATION:
            kf = core.match_known(findings, prop, inst)
            (known_hits if kf else new_violations).append((inst, kf))
        elif inst.status == UNKNOWN:
            unknowns.append(inst)

    for inst, kf in known_hits:
        out.append(f"KNOWN-FINDING: property={prop} rule={inst.rule} construct={inst.construct} "
                   f"at {inst.where}: {kf.get('what', inst.message)}")
    reports_dir = os.path.join(VERIF_DIR, "reports")
    n = 0
    for inst, _ in new_violations:
        n += 1
        path = os.path.join(reports_dir, f"{prop}.{n}.json")
        if write:
            os.makedirs(reports_dir, exist_ok=True)
            with open(path, "w", encoding="utf-8") as fh:
                json.dump({"property": prop, "tier": tier, "repo_root": repo.root, **inst.to_json()}, fh, indent=1)
        out.append(f"VIOLATION property={prop} replay={path}")
        out.append(f"  rule={inst.rule} construct={inst.construct} at {inst.where}")
        out.append(f"  {inst.message}")
        if inst.facts:
            out.append(f"  facts={json.dumps(core._jsonable(inst.facts))[:600]}")
    for inst in unknowns:
        out.append(f"ANALYSIS-ERROR property={prop} rule={inst.rule} construct={inst.construct} "
                   f"at {inst.where} reason={inst.message}")
    for rid, why in fixture_failures:
        out.append(f"ANALYSIS-ERROR property={prop} rule={rid} construct=fixture reason={why}")
    live_dead = []
    if liveness:
        live_dead = [m for m in liveness["mutants"] if m["outcome"] == "DEAD"] + \
                    [m for m in liveness["rewrites"] if m["outcome"] == "ALARM"]
        for m in live_dead:
            out.append(f"ANALYSIS-ERROR property={prop} rule={m['rule']} construct=liveness "
                       f"reason={m['outcome']} on edit {m['edit']!r}")
        skipped = [m for m in liveness["mutants"] + liveness["rewrites"] if m["outcome"].startswith("SKIPPED")]
        for m in skipped:
            out.append(f"NOTE: liveness edit {m['edit']!r} of {m['rule']} does not apply to this tree (skipped)")
        if skipped and os.environ.get("KVERIF_STRICT_LIVENESS") == "1":
            live_dead = live_dead + skipped     # development: on the pinned tree every designated edit must apply

    status = 1 if new_violations else (2 if (unknowns or fixture_failures or live_dead) else 0)
    wall = time.time() - t0

    ok_instances = [i for i in instances if i.status == OK]
    decided = [i for i in instances if i.status in (OK, VIOLATION)]
    distinct = {(i.rule, i.construct) for i in decided}
    samples = [i.to_json() for i in decided[:40]]
    notes = [i.to_json() for i in instances if i.status == NOTE]
    evidence = {
        "property_id": prop,
        "tier": tier,
        "seed": seed,
        "level": "other",
        "coverage": {
            "explanation": info["explanation"],
            "technique": info["technique"],
            "decided_clauses": info["decided"],
            "not_decided": info["not_decided"],
            "obligations": len(decided),
            "discharged": len(ok_instances) + len(known_hits),
            "evaluations": len(decided),
            "distinct_nontrivial": len(distinct),
            "rule": "one evaluation = one rule instance (rule x construct) examined on the current source; "
                    "distinct = distinct (rule, construct) pairs whose anchor was found with a non-empty analysed body",
            "samples": samples,
            "rules": rule_rows,
            "functions_analysed": sorted(functions),
            "n_functions_analysed": len(functions),
            "unknown_instances": [i.to_json() for i in unknowns],
            "known_findings_matched": [
                {"rule": i.rule, "construct": i.construct, "where": i.where, "what": kf.get("what")}
                for i, kf in known_hits],
            "new_violations": [i.to_json() for i, _ in new_violations],
            "notes": notes,
            "source_digests": repo.digests(),
            "repo_root": repo.root,
            "exhaustive": False,
        },
        "assumptions": info["assumptions"],
        "wall_s": round(wall, 3),
        "violations": len(new_violations),
    }
    if liveness is not None:
        evidence["coverage"]["rules_live"] = liveness
    if write:
        os.makedirs(os.path.join(VERIF_DIR, "evidence"), exist_ok=True)
        with open(os.path.join(VERIF_DIR, "evidence", f"{prop}.json"), "w", encoding="utf-8") as fh:
            json.dump(evidence, fh, indent=1)
    if not quiet:
        for line in out:
            print(line)
        print(f"[{prop}] tier={tier} rules={len(rule_rows)} instances={len(decided)} ok={len(ok_instances)} "
              f"known={len(known_hits)} violations={len(new_violations)} unknown={len(unknowns)} "
              f"wall={wall:.2f}s exit={status}")
    return status


def cmd_check(args) -> int:
    return run_check(args.property, args.tier or os.environ.get("VERIF_TIER") or "quick",
                     only_rule=args.rule)


def cmd_replay(args) -> int:
    with open(args.path, encoding="utf-8") as fh:
        rep = json.load(fh)
    print(f"replaying rule={rep['rule']} construct={rep['construct']} (property {rep['property']})")
    return run_check(rep["property"], rep.get("tier", "quick"), write=False,
                     only_rule=rep["rule"], only_construct=rep["construct"])


def cmd_selfcheck(args) -> int:
    _load_rules()
    import jsonschema  # noqa: F401
    repo = Repo.load()
    missing = [m for m in ("algebra", "codegen", "multivector", "operator_dict", "polynomial",
                           "taperecorder", "graph", "matrixreps") if m not in repo.modules]
    if missing:
        print(f"ANALYSIS-ERROR selfcheck: modules missing or unparsable: {missing} {repo.parse_errors}")
        return 2
    for schema in ("MANIFEST.schema.json", "EVIDENCE.schema.json"):
        if not os.path.exists(os.path.join("/root/.vp", schema)):
            print(f"note: {schema} not found under /root/.vp (evidence is still written)")
    bad = [(rd.id, core.run_fixture(rd, repo)) for rd in RULES.values() if rd.fixture]
    bad = [(r, w) for r, w in bad if w]
    for r, w in bad:
        print(f"ANALYSIS-ERROR selfcheck: fixture of {r}: {w}")
    print(f"selfcheck: {len(RULES)} rules registered, {len(repo.modules)} modules parsed from {repo.root}, "
          f"{sum(1 for rd in RULES.values() if rd.fixture)} fixtures, {len(bad)} fixture failures")
    return 2 if bad else 0


def cmd_list(args) -> int:
    _load_rules()
    for rd in sorted(RULES.values(), key=lambda r: r.id):
        print(f"{rd.id:34s} props={','.join(rd.props):12s} tier={rd.tier:8s} min={rd.min_instances}")
    return 0


def main(argv=None) -> int:
    ap = argparse.ArgumentParser(prog="kverif")
    sub = ap.add_subparsers(dest="cmd", required=True)
    c = sub.add_parser("check")
    c.add_argument("property")
    c.add_argument("--tier", choices=["quick", "thorough"])
    c.add_argument("--rule")
    c.set_defaults(fn=cmd_check)
    r = sub.add_parser("replay")
    r.add_argument("path")
    r.set_defaults(fn=cmd_replay)
    s = sub.add_parser("selfcheck")
    s.set_defaults(fn=cmd_selfcheck)
    l = sub.add_parser("list")
    l.set_defaults(fn=cmd_list)
    t = sub.add_parser("selftest")
    t.add_argument("--jobs", type=int, default=16)
    t.add_argument("--property")
    t.set_defaults(fn=lambda a: __import__("kverif.selftest", fromlist=["main"]).main(a))
    args = ap.parse_args(argv)
    try:
        return args.fn(args)
    except SystemExit:
        raise
    except Exception:
        print("ANALYSIS-ERROR checker crashed:")
        traceback.print_exc(file=sys.stdout)
        return 2


if __name__ == "__main__":
    sys.exit(main())
