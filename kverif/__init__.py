"""kverif - repository-specific static analysis for tBuLi/kingdon.

Never imports or executes kingdon: everything is decided from syntax trees of
/repo/kingdon/**/*.py (root overridable with KVERIF_REPO) parsed on every run.
"""
__all__ = ["model", "core"]
