"""AST helpers shared by the rules: names, substitution, path enumeration, guard
evaluation on representatives of finite partitions, polynomial normal forms."""
from __future__ import annotations

import ast
import copy
import itertools
from fractions import Fraction
from typing import Any, Callable, Dict, Iterable, Iterator, List, Optional, Sequence, Tuple


# --------------------------------------------------------------------------- basic queries
def un(node: Optional[ast.AST]) -> str:
    return ast.unparse(node) if node is not None else ""


def chain(node: ast.AST) -> Optional[str]:
    """Dotted name of a Name/Attribute chain ('self.algebra.r'), else None."""
    parts = []
    while isinstance(node, ast.Attribute):
        parts.append(node.attr)
        node = node.value
    if isinstance(node, ast.Name):
        parts.append(node.id)
        return ".".join(reversed(parts))
    return None


def call_name(node: ast.AST) -> Optional[str]:
    return chain(node.func) if isinstance(node, ast.Call) else None


def is_const(node: ast.AST, value=...) -> bool:
    if isinstance(node, ast.UnaryOp) and isinstance(node.op, ast.USub) and isinstance(node.operand, ast.Constant) \
            and isinstance(node.operand.value, (int, float)) and not isinstance(node.operand.value, bool):
        return value is ... or value == -node.operand.value
    return isinstance(node, ast.Constant) and (value is ... or (node.value == value and type(node.value) is type(value)))


def const_value(node: ast.AST):
    """Value of a literal (numbers, strings, tuples/lists/sets of literals, negative numbers)."""
    if isinstance(node, ast.Constant):
        return node.value
    if isinstance(node, ast.UnaryOp) and isinstance(node.op, ast.USub):
        v = const_value(node.operand)
        if isinstance(v, (int, float)):
            return -v
        raise ValueError
    if isinstance(node, (ast.Tuple, ast.List)):
        vals = [const_value(e) for e in node.elts]
        return tuple(vals) if isinstance(node, ast.Tuple) else vals
    if isinstance(node, ast.Set):
        return frozenset(const_value(e) for e in node.elts)
    raise ValueError(un(node))


def walk_shallow(node: ast.AST) -> Iterator[ast.AST]:
    """ast.walk that does not descend into nested function/class definitions or lambdas."""
    stack = [node]
    first = True
    while stack:
        n = stack.pop()
        if not first and isinstance(n, (ast.FunctionDef, ast.AsyncFunctionDef, ast.ClassDef, ast.Lambda)):
            continue
        first = False
        yield n
        stack.extend(reversed(list(ast.iter_child_nodes(n))))


def names_read(node: ast.AST) -> set:
    return {n.id for n in ast.walk(node) if isinstance(n, ast.Name) and isinstance(n.ctx, ast.Load)}


def chains_read(node: ast.AST) -> set:
    """All maximal dotted chains read in an expression."""
    out = set()

    def visit(n):
        c = chain(n)
        if c is not None and isinstance(n, (ast.Name, ast.Attribute)):
            out.add(c)
            return
        for ch in ast.iter_child_nodes(n):
            visit(ch)
    visit(node)
    return out


def calls_in(node: ast.AST, shallow: bool = False) -> List[ast.Call]:
    it = walk_shallow(node) if shallow else ast.walk(node)
    return [n for n in it if isinstance(n, ast.Call)]


def parent(node: ast.AST) -> Optional[ast.AST]:
    return getattr(node, "_parent", None)


def enclosing(node: ast.AST, kinds) -> Optional[ast.AST]:
    p = parent(node)
    while p is not None and not isinstance(p, kinds):
        p = parent(p)
    return p


def params(fn) -> List[str]:
    a = fn.args
    return [x.arg for x in (a.posonlyargs + a.args)]


def kwonly(fn) -> List[str]:
    return [x.arg for x in fn.args.kwonlyargs]


def default_of(fn: ast.FunctionDef, name: str) -> Optional[ast.AST]:
    a = fn.args
    pos = a.posonlyargs + a.args
    defaults = [None] * (len(pos) - len(a.defaults)) + list(a.defaults)
    for p, d in zip(pos, defaults):
        if p.arg == name:
            return d
    for p, d in zip(a.kwonlyargs, a.kw_defaults):
        if p.arg == name:
            return d
    return None


def kwarg(call: ast.Call, name: str) -> Optional[ast.AST]:
    for k in call.keywords:
        if k.arg == name:
            return k.value
    return None


def arg_of(call: ast.Call, pos: int, name: Optional[str] = None) -> Optional[ast.AST]:
    """Positional argument `pos` or keyword `name` of a call."""
    if pos is not None and pos < len(call.args) and not any(isinstance(a, ast.Starred) for a in call.args[:pos + 1]):
        return call.args[pos]
    if name is not None:
        return kwarg(call, name)
    return None


# --------------------------------------------------------------------------- substitution
def clone(node):
    """Deep copy of an AST that does not follow the _parent back pointers set by the model."""
    if isinstance(node, list):
        return [clone(x) for x in node]
    if not isinstance(node, ast.AST):
        return node
    new = node.__class__()
    for f in node._fields:
        if hasattr(node, f):
            setattr(new, f, clone(getattr(node, f)))
    for a in ("lineno", "col_offset", "end_lineno", "end_col_offset"):
        if hasattr(node, a):
            setattr(new, a, getattr(node, a))
    return new


class _Subst(ast.NodeTransformer):
    def __init__(self, mapping: Dict[str, ast.AST]):
        self.mapping = mapping

    def visit_Name(self, node):
        if isinstance(node.ctx, ast.Load) and node.id in self.mapping:
            return clone(self.mapping[node.id])
        return node

    def visit_Lambda(self, node):
        shadow = {a.arg for a in node.args.args + node.args.kwonlyargs + node.args.posonlyargs}
        inner = {k: v for k, v in self.mapping.items() if k not in shadow}
        node.body = _Subst(inner).visit(node.body)
        return node


def subst(node: ast.AST, mapping: Dict[str, ast.AST]) -> ast.AST:
    """Copy of `node` with loaded names replaced by expressions."""
    return ast.fix_missing_locations(_Subst(mapping).visit(clone(node)))


def apply_lambda(lam: ast.AST, args: Sequence[ast.AST]) -> Optional[ast.AST]:
    """Beta-reduce `(lambda a, b: body)(x, y)`; None when `lam` is not a plain lambda."""
    if not isinstance(lam, ast.Lambda):
        return None
    ps = [a.arg for a in lam.args.posonlyargs + lam.args.args]
    if len(ps) != len(args) or lam.args.vararg or lam.args.kwarg or lam.args.kwonlyargs:
        return None
    return subst(lam.body, dict(zip(ps, args)))


def single_assignments(fn: ast.AST) -> Dict[str, ast.AST]:
    """Locals of a function that are bound exactly once by a plain `name = expr` (or walrus)."""
    counts: Dict[str, int] = {}
    values: Dict[str, ast.AST] = {}
    for n in walk_shallow(fn):
        targets = []
        if isinstance(n, ast.Assign):
            for t in n.targets:
                if isinstance(t, ast.Name):
                    targets.append((t.id, n.value))
                elif isinstance(t, (ast.Tuple, ast.List)) and isinstance(n.value, (ast.Tuple, ast.List)) and len(t.elts) == len(n.value.elts) \
                        and all(isinstance(e, ast.Name) for e in t.elts) and not any(isinstance(e, ast.Starred) for e in n.value.elts):
                    # a, b = E1, E2 binds each name to its own expression
                    for e, v in zip(t.elts, n.value.elts):
                        targets.append((e.id, v))
                else:
                    for sub in ast.walk(t):
                        if isinstance(sub, ast.Name):
                            targets.append((sub.id, None))
        elif isinstance(n, ast.NamedExpr):
            targets.append((n.target.id, n.value))
        elif isinstance(n, (ast.AugAssign, ast.AnnAssign)):
            if isinstance(n.target, ast.Name):
                targets.append((n.target.id, None))
        elif isinstance(n, (ast.For, ast.comprehension)):
            for sub in ast.walk(n.target):
                if isinstance(sub, ast.Name):
                    targets.append((sub.id, None))
        elif isinstance(n, ast.With):
            for it in n.items:
                if it.optional_vars is not None:
                    for sub in ast.walk(it.optional_vars):
                        if isinstance(sub, ast.Name):
                            targets.append((sub.id, None))
        for name, val in targets:
            if val is not None and name in values and counts.get(name) == 1 and ast.dump(values[name]) == ast.dump(val):
                continue  # the same definition repeated in another arm
            counts[name] = counts.get(name, 0) + 1
            if val is not None:
                values[name] = val
            else:
                counts[name] += 1  # not a plain binding
    if isinstance(fn, (ast.FunctionDef, ast.AsyncFunctionDef, ast.Lambda)):
        a = fn.args
        for p in a.posonlyargs + a.args + a.kwonlyargs:
            counts[p.arg] = counts.get(p.arg, 0) + 2
    return {k: v for k, v in values.items() if counts.get(k) == 1}


def inline(node: ast.AST, defs: Dict[str, ast.AST], depth: int = 8) -> ast.AST:
    """Substitute single-assignment locals repeatedly (bounded)."""
    for _ in range(depth):
        used = names_read(node) & set(defs)
        if not used:
            break
        node = subst(node, {k: defs[k] for k in used})
    return node


# --------------------------------------------------------------------------- path enumeration
class Path:
    __slots__ = ("guards", "stmts", "exit", "exit_node")

    def __init__(self, guards=(), stmts=(), exit="fall", exit_node=None):
        self.guards: Tuple[Tuple[ast.AST, bool], ...] = tuple(guards)
        self.stmts: Tuple[ast.stmt, ...] = tuple(stmts)
        self.exit = exit            # fall | return | raise | continue | break
        self.exit_node = exit_node

    def extend(self, other: "Path") -> "Path":
        return Path(self.guards + other.guards, self.stmts + other.stmts, other.exit, other.exit_node)

    def __repr__(self):
        g = " & ".join(("" if b else "not ") + un(t) for t, b in self.guards)
        return f"<Path [{g}] {len(self.stmts)} stmts -> {self.exit}>"


class PathLimit(Exception):
    pass


def paths(stmts: Sequence[ast.stmt], limit: int = 512) -> List[Path]:
    """All control paths through a statement list made of simple statements, if/elif/else,
    return/raise/continue/break and try/else-free constructs.  Loops and with-blocks are kept as
    opaque statements (callers analyse loop bodies separately)."""
    result = [Path()]
    for st in stmts:
        live = [p for p in result if p.exit == "fall"]
        done = [p for p in result if p.exit != "fall"]
        if not live:
            break
        if isinstance(st, ast.If):
            then_paths = paths(st.body, limit)
            else_paths = paths(st.orelse, limit) if st.orelse else [Path()]
            ext = []
            for p in live:
                for q in then_paths:
                    ext.append(Path(p.guards + ((st.test, True),) + q.guards, p.stmts + q.stmts, q.exit, q.exit_node))
                for q in else_paths:
                    ext.append(Path(p.guards + ((st.test, False),) + q.guards, p.stmts + q.stmts, q.exit, q.exit_node))
            result = done + ext
        elif isinstance(st, ast.Return):
            result = done + [Path(p.guards, p.stmts + (st,), "return", st) for p in live]
        elif isinstance(st, ast.Raise):
            result = done + [Path(p.guards, p.stmts + (st,), "raise", st) for p in live]
        elif isinstance(st, ast.Continue):
            result = done + [Path(p.guards, p.stmts, "continue", st) for p in live]
        elif isinstance(st, ast.Break):
            result = done + [Path(p.guards, p.stmts, "break", st) for p in live]
        elif isinstance(st, ast.Assert):
            result = done + [Path(p.guards + ((st.test, True),), p.stmts, "fall") for p in live]
        else:
            result = done + [Path(p.guards, p.stmts + (st,), "fall") for p in live]
        if len(result) > limit:
            raise PathLimit(f"more than {limit} paths")
    return result


# --------------------------------------------------------------------------- evaluation on representatives
class NoValue(Exception):
    """The expression cannot be evaluated on the representative (not a finite-partition guard)."""


class ValueIdentity(Exception):
    """`is` / `is not` between two numbers: the language leaves the identity of equal immutable values to the
    implementation (CPython shares the ints -5..256 only), so the outcome is not a function of the values.  Reported
    as a violation of whatever rule evaluates the construct -- it is a statement about the code, not an analyser gap."""

    def __init__(self, node, a, b):
        super().__init__(f"identity comparison of the numbers {a!r} and {b!r}")
        self.node = node


def _is_number(v):
    import fractions
    return isinstance(v, (int, float, complex, fractions.Fraction)) and not isinstance(v, bool)


def identity(op, a, b, node=None):
    if _is_number(a) and _is_number(b):
        raise ValueIdentity(node, a, b)
    return (a is b) if isinstance(op, ast.Is) else (a is not b)


_CMP = {
    ast.Eq: lambda a, b: a == b, ast.NotEq: lambda a, b: a != b, ast.Lt: lambda a, b: a < b,
    ast.LtE: lambda a, b: a <= b, ast.Gt: lambda a, b: a > b, ast.GtE: lambda a, b: a >= b,
    ast.In: lambda a, b: a in b, ast.NotIn: lambda a, b: a not in b,
    ast.Is: lambda a, b: a is b, ast.IsNot: lambda a, b: a is not b,
}
_BIN = {
    ast.Add: lambda a, b: a + b, ast.Sub: lambda a, b: a - b, ast.Mult: lambda a, b: a * b,
    ast.Mod: lambda a, b: a % b, ast.FloorDiv: lambda a, b: a // b, ast.BitAnd: lambda a, b: a & b,
    ast.BitOr: lambda a, b: a | b, ast.BitXor: lambda a, b: a ^ b, ast.Pow: lambda a, b: a ** b,
    ast.LShift: lambda a, b: a << b, ast.RShift: lambda a, b: a >> b,
}


def ceval(node: ast.AST, env: Dict[str, Any], hooks: Optional[Callable[[ast.AST, Dict[str, Any]], Any]] = None):
    """Evaluate a guard expression on one representative of a finite partition.
    `env` maps dotted chains (or unparsed sub-expressions) to representative values.
    Anything outside comparisons / boolean structure / integer arithmetic raises NoValue."""
    key = un(node)
    if key in env:
        return env[key]
    if hooks is not None:
        r = hooks(node, env)
        if r is not NotImplemented:
            return r
    if isinstance(node, ast.Constant):
        return node.value
    if isinstance(node, (ast.Tuple, ast.List)):
        vals = [ceval(e, env, hooks) for e in node.elts]
        return tuple(vals) if isinstance(node, ast.Tuple) else vals
    if isinstance(node, ast.BoolOp):
        if isinstance(node.op, ast.And):
            val = True
            for v in node.values:
                val = ceval(v, env, hooks)
                if not val:
                    return val
            return val
        val = False
        for v in node.values:
            val = ceval(v, env, hooks)
            if val:
                return val
        return val
    if isinstance(node, ast.UnaryOp):
        v = ceval(node.operand, env, hooks)
        if isinstance(node.op, ast.Not):
            return not v
        if isinstance(node.op, ast.USub):
            return -v
        if isinstance(node.op, ast.UAdd):
            return +v
        if isinstance(node.op, ast.Invert):
            return ~v
    if isinstance(node, ast.Compare):
        left = ceval(node.left, env, hooks)
        for op, right_node in zip(node.ops, node.comparators):
            right = ceval(right_node, env, hooks)
            try:
                if not (identity(op, left, right, node) if isinstance(op, (ast.Is, ast.IsNot)) else _CMP[type(op)](left, right)):
                    return False
            except TypeError as exc:
                raise NoValue(f"{un(node)}: {exc}")
            left = right
        return True
    if isinstance(node, ast.BinOp) and type(node.op) in _BIN:
        a, b = ceval(node.left, env, hooks), ceval(node.right, env, hooks)
        try:
            return _BIN[type(node.op)](a, b)
        except Exception as exc:
            raise NoValue(f"{un(node)}: {exc}")
    if isinstance(node, ast.IfExp):
        return ceval(node.body if ceval(node.test, env, hooks) else node.orelse, env, hooks)
    if isinstance(node, ast.NamedExpr):
        v = ceval(node.value, env, hooks)
        env[node.target.id] = v
        return v
    raise NoValue(un(node))


# --------------------------------------------------------------------------- polynomials (commutative normal form)
class Poly:
    """Polynomial with Fraction coefficients over commutative atoms (strings)."""
    __slots__ = ("terms",)

    def __init__(self, terms: Optional[Dict[Tuple[Tuple[str, int], ...], Fraction]] = None):
        self.terms = {m: c for m, c in (terms or {}).items() if c != 0}

    @staticmethod
    def const(c) -> "Poly":
        return Poly({(): Fraction(c)})

    @staticmethod
    def atom(name: str) -> "Poly":
        return Poly({((name, 1),): Fraction(1)})

    def __add__(self, o: "Poly") -> "Poly":
        t = dict(self.terms)
        for m, c in o.terms.items():
            t[m] = t.get(m, 0) + c
        return Poly(t)

    def __neg__(self) -> "Poly":
        return Poly({m: -c for m, c in self.terms.items()})

    def __sub__(self, o: "Poly") -> "Poly":
        return self + (-o)

    def __mul__(self, o: "Poly") -> "Poly":
        t: Dict[Any, Fraction] = {}
        for m1, c1 in self.terms.items():
            for m2, c2 in o.terms.items():
                d = dict(m1)
                for a, e in m2:
                    d[a] = d.get(a, 0) + e
                m = tuple(sorted(d.items()))
                t[m] = t.get(m, 0) + c1 * c2
        return Poly(t)

    def __pow__(self, n: int) -> "Poly":
        r = Poly.const(1)
        for _ in range(n):
            r = r * self
        return r

    def __eq__(self, o) -> bool:
        return isinstance(o, Poly) and self.terms == o.terms

    def __hash__(self):
        return hash(tuple(sorted(self.terms.items())))

    def is_zero(self) -> bool:
        return not self.terms

    def subs(self, mapping: Dict[str, "Poly"]) -> "Poly":
        out = Poly()
        for m, c in self.terms.items():
            term = Poly.const(c)
            for a, e in m:
                term = term * (mapping[a] if a in mapping else Poly.atom(a)) ** e
            out = out + term
        return out

    def atoms(self) -> set:
        return {a for m in self.terms for a, _ in m}

    def __repr__(self):
        if not self.terms:
            return "0"
        parts = []
        for m, c in sorted(self.terms.items()):
            mono = "*".join(a if e == 1 else f"{a}^{e}" for a, e in m)
            if not mono:
                parts.append(str(c))
            elif c == 1:
                parts.append(mono)
            elif c == -1:
                parts.append("-" + mono)
            else:
                parts.append(f"{c}*{mono}")
        return " + ".join(parts).replace("+ -", "- ")


def poly_of(node: ast.AST, atom: Callable[[ast.AST], Optional[Poly]]) -> Poly:
    """Normal form of an arithmetic expression.  `atom(node)` returns a Poly for leaves it
    recognises (or None).  Raises NoValue on anything else."""
    a = atom(node)
    if a is not None:
        return a
    if isinstance(node, ast.Constant) and isinstance(node.value, (int, float)) and not isinstance(node.value, bool):
        return Poly.const(Fraction(node.value))
    if isinstance(node, ast.UnaryOp) and isinstance(node.op, ast.USub):
        return -poly_of(node.operand, atom)
    if isinstance(node, ast.UnaryOp) and isinstance(node.op, ast.UAdd):
        return poly_of(node.operand, atom)
    if isinstance(node, ast.BinOp):
        if isinstance(node.op, ast.Add):
            return poly_of(node.left, atom) + poly_of(node.right, atom)
        if isinstance(node.op, ast.Sub):
            return poly_of(node.left, atom) - poly_of(node.right, atom)
        if isinstance(node.op, ast.Mult):
            return poly_of(node.left, atom) * poly_of(node.right, atom)
        if isinstance(node.op, ast.Pow) and isinstance(node.right, ast.Constant) and isinstance(node.right.value, int) \
                and 0 <= node.right.value <= 8:
            return poly_of(node.left, atom) ** node.right.value
    raise NoValue(un(node))


# --------------------------------------------------------------------------- private helpers: inlining and ownership
def set_parents(root: ast.AST):
    for node in ast.walk(root):
        for child in ast.iter_child_nodes(node):
            child._parent = node  # type: ignore[attr-defined]
    number_nodes(root)
    return root


def number_nodes(root: ast.AST):
    """Program-order sequence numbers (pre-order) - line numbers are not an order after inlining."""
    counter = [0]

    def visit(n):
        n._seq = counter[0]  # type: ignore[attr-defined]
        counter[0] += 1
        for ch in ast.iter_child_nodes(n):
            visit(ch)
    visit(root)


def seq(node) -> int:
    return getattr(node, "_seq", getattr(node, "lineno", 0) * 1000 + getattr(node, "col_offset", 0))


def class_method(repo, class_qual: str, name: str, depth: int = 0):
    """Method `name` of a class, following base classes of the same module."""
    cls = repo.cls(class_qual)
    for st in cls.body:
        if isinstance(st, ast.FunctionDef) and st.name == name:
            return st
    if depth < 4:
        module = class_qual.split(".")[0]
        for b in cls.bases:
            bq = f"{module}.{un(b)}"
            if repo.has(bq) and isinstance(repo.lookup(bq), ast.ClassDef):
                m = class_method(repo, bq, name, depth + 1)
                if m is not None:
                    return m
    return None


def _bind_call(helper: ast.FunctionDef, call: ast.Call, first: Optional[ast.AST]):
    """Parameter -> argument expression for a call of `helper` (positional, keyword, defaults, *args); None if the
    call shape is not understood."""
    a = helper.args
    if a.kwarg is not None or any(isinstance(x, ast.Starred) for x in call.args) or any(k.arg is None for k in call.keywords):
        return None
    pos = [x.arg for x in a.posonlyargs + a.args]
    mapping: Dict[str, ast.AST] = {}
    args = ([first] if first is not None else []) + list(call.args)
    if len(args) > len(pos) and a.vararg is None:
        return None
    for name, arg in zip(pos, args):
        mapping[name] = arg
    if a.vararg is not None:
        mapping[a.vararg.arg] = ast.Tuple(elts=list(args[len(pos):]), ctx=ast.Load())
    for k in call.keywords:
        if k.arg in mapping or k.arg not in pos + [x.arg for x in a.kwonlyargs]:
            return None
        mapping[k.arg] = k.value
    for name in pos + [x.arg for x in a.kwonlyargs]:
        if name not in mapping:
            d = default_of(helper, name)
            if d is None:
                return None
            mapping[name] = d
    return mapping


def inline_self_calls(repo, class_qual: str, fn: ast.FunctionDef, depth: int = 2) -> ast.FunctionDef:
    """Copy of a function in which calls of PRIVATE helpers - `self._helper(...)` of the same class (hierarchy) or a
    module-level `_helper(...)` of the same module - are replaced by the helper's body with the parameters
    substituted (inlining bound `depth`).  Inlined are calls that form a whole statement: `self._h(...)`,
    `return self._h(...)` and `x = self._h(...)` (the last only when the helper's single `return` is its last
    statement).  Locals of the helper are renamed so that they cannot capture names of the caller."""
    self_name = params(fn)[0] if params(fn) else "self"
    module = class_qual.split(".")[0]
    counter = [0]

    def resolve(call):
        f = call.func
        if isinstance(f, ast.Attribute) and un(f.value) == self_name and f.attr.startswith("_") and not f.attr.startswith("__") \
                and "." in class_qual:
            h = class_method(repo, class_qual, f.attr)
            if h is not None and not any(un(d) in ("staticmethod", "classmethod", "property", "cached_property") for d in h.decorator_list):
                return h, ast.Name(id=self_name, ctx=ast.Load())
            if h is not None and any(un(d) == "staticmethod" for d in h.decorator_list):
                return h, None
        if isinstance(f, ast.Name) and f.id.startswith("_") and not f.id.startswith("__") and repo.has(f"{module}.{f.id}"):
            h = repo.lookup(f"{module}.{f.id}")
            if isinstance(h, ast.FunctionDef) and not h.decorator_list:
                return h, None
        return None, None

    def body_of(helper, mapping):
        counter[0] += 1
        stored = {n.id for n in ast.walk(helper) if isinstance(n, ast.Name) and isinstance(n.ctx, ast.Store)}
        stored |= {a.arg for lam in ast.walk(helper) if isinstance(lam, ast.Lambda) for a in lam.args.args}
        rename = {n: f"{n}__inl{counter[0]}" for n in stored if n not in mapping}
        body = [b for b in helper.body if not (isinstance(b, ast.Expr) and isinstance(b.value, ast.Constant))]
        out = []
        for b in body:
            nb = clone(b)
            for n in ast.walk(nb):
                if isinstance(n, ast.Name) and n.id in rename:
                    n.id = rename[n.id]
            full = dict(mapping)
            nb = subst(nb, full)
            out.append(nb)
        return out

    def expand(stmts, level):
        out = []
        for st in stmts:
            st = clone(st)
            for fld in ("body", "orelse", "finalbody"):
                if hasattr(st, fld) and isinstance(getattr(st, fld), list):
                    setattr(st, fld, expand(getattr(st, fld), level))
            call, form = None, None
            if isinstance(st, ast.Expr) and isinstance(st.value, ast.Call):
                call, form = st.value, "expr"
            elif isinstance(st, ast.Return) and isinstance(st.value, ast.Call):
                call, form = st.value, "return"
            elif isinstance(st, ast.Assign) and isinstance(st.value, ast.Call) and len(st.targets) == 1:
                call, form = st.value, "assign"
            if call is not None and level < depth:
                helper, first = resolve(call)
                if helper is not None and helper is not fn and not any(isinstance(n, (ast.Yield, ast.YieldFrom)) for n in ast.walk(helper)):
                    mapping = _bind_call(helper, call, first)
                    rets = [n for n in walk_shallow(helper) if isinstance(n, ast.Return)]
                    valued = [r for r in rets if r.value is not None]
                    ok = mapping is not None
                    if ok and form == "expr":
                        ok = not valued
                    if ok and form == "assign":
                        ok = len(rets) == 1 and rets[0] is helper.body[-1] and rets[0].value is not None
                    if ok:
                        inlined = body_of(helper, mapping)
                        if form == "expr":
                            inlined = [b for b in inlined if not isinstance(b, ast.Return)] if all(r in helper.body for r in rets) else None
                        elif form == "assign":
                            last = inlined.pop()
                            inlined.append(ast.Assign(targets=[clone(t) for t in st.targets], value=last.value, lineno=st.lineno))
                        if inlined is not None:
                            for b in inlined:
                                for n in ast.walk(b):
                                    if hasattr(n, "lineno") or isinstance(n, (ast.stmt, ast.expr)):
                                        n.lineno = st.lineno
                                ast.fix_missing_locations(b)
                            out.extend(expand(inlined, level + 1))
                            continue
            out.append(st)
        return out
    new = clone(fn)
    new.body = expand(fn.body, 0)
    set_parents(new)
    new._parent = None  # type: ignore[attr-defined]
    return new


def private_helper_owners(repo, accepted: set) -> set:
    """Qualified names of private methods/functions all of whose call sites lie in `accepted` functions (closed
    transitively): such a helper is part of its callers for who-may-write / who-may-read rules."""
    funcs = list(repo.all_functions())
    owners = set(accepted)
    changed = True
    while changed:
        changed = False
        for mname, qual, fn in funcs:
            name = qual.split(".")[-1]
            if qual in owners or not name.startswith("_") or name.startswith("__"):
                continue
            sites = []
            for m2, q2, f2 in funcs:
                for c in walk_shallow(f2):
                    # a call, or any other use of the helper as a value (passed to map / partial, stored, ...)
                    if (isinstance(c, ast.Attribute) and c.attr == name and isinstance(c.ctx, ast.Load)) \
                            or (isinstance(c, ast.Name) and c.id == name and isinstance(c.ctx, ast.Load)):
                        sites.append(q2)
            if sites and all(s_ in owners for s_ in sites):
                owners.add(qual)
                changed = True
    return owners


def reachable_private(repo, qual: str, depth: int = 3):
    """The (possibly inherited) definition of `qual` and the private helpers - methods of its class or of a base, module-level
    functions - it reaches through `self._x(...)` / `_x(...)`, transitively: [(qualified name, FunctionDef)]."""
    out, seen = [], set()
    module = qual.split(".")[0]
    cls_qual = qual.rsplit(".", 1)[0]

    def visit(q, d):
        if q in seen or not repo.has(q):
            return
        seen.add(q)
        fn = repo.lookup(q)
        if not isinstance(fn, (ast.FunctionDef, ast.AsyncFunctionDef)):
            return
        out.append((q, fn))
        if d >= depth:
            return
        for n in ast.walk(fn):
            name = None
            if isinstance(n, ast.Attribute) and isinstance(n.value, ast.Name) and n.attr.startswith("_") and not n.attr.startswith("__"):
                name = n.attr
                cand = [f"{cls_qual}.{name}"]
            elif isinstance(n, ast.Name) and isinstance(n.ctx, ast.Load) and n.id.startswith("_") and not n.id.startswith("__"):
                name = n.id
                cand = [f"{module}.{name}"]
            if name:
                for c in cand:
                    visit(c, d + 1)
    visit(qual, 0)
    return out


def reaching_assignment(fn: ast.AST, use: ast.AST, name: str):
    """The expression `name` is bound to where `use` is evaluated, when one assignment statement dominates the use: the nearest
    preceding `name = E` (or `a, name = E1, E2`) in the statement list of the use or of an enclosing statement; assignments
    inside an earlier branch that always leaves (return / raise / continue / break) do not reach.  None if undecided."""
    parents = {}
    for n in ast.walk(fn):
        for ch in ast.iter_child_nodes(n):
            parents[id(ch)] = n

    def binds(st):
        """value if the statement binds `name` by a plain (or parallel tuple) assignment, False if it cannot bind it,
        None if it may bind it in a way we do not follow."""
        if isinstance(st, ast.Assign):
            hit = None
            for t in st.targets:
                if isinstance(t, ast.Name) and t.id == name:
                    hit = st.value
                elif isinstance(t, (ast.Tuple, ast.List)) and any(isinstance(x, ast.Name) and x.id == name for x in ast.walk(t)):
                    if isinstance(st.value, (ast.Tuple, ast.List)) and len(t.elts) == len(st.value.elts) and all(isinstance(e, ast.Name) for e in t.elts):
                        hit = st.value.elts[[e.id for e in t.elts].index(name)]
                    else:
                        return None
            return hit if hit is not None else False
        stores = any(isinstance(x, ast.Name) and x.id == name and isinstance(x.ctx, (ast.Store, ast.Del)) for x in ast.walk(st))
        if not stores:
            return False
        if isinstance(st, (ast.If, ast.For, ast.While, ast.Try, ast.With)):
            # a compound statement binding the name: harmless if every block that binds it always leaves
            blocks = [getattr(st, f, []) for f in ("body", "orelse", "finalbody")] + [h.body for h in getattr(st, "handlers", [])]
            for b in blocks:
                if any(isinstance(x, ast.Name) and x.id == name and isinstance(x.ctx, ast.Store) for s_ in b for x in ast.walk(s_)):
                    if not (b and isinstance(b[-1], (ast.Return, ast.Raise, ast.Continue, ast.Break))):
                        return None
            return False
        return None

    node = use
    while id(node) in parents:
        parent = parents[id(node)]
        for fld in ("body", "orelse", "finalbody"):
            lst = getattr(parent, fld, None)
            if isinstance(lst, list) and any(x is node for x in lst):
                i = next(k for k, x in enumerate(lst) if x is node)
                for st in reversed(lst[:i]):
                    b = binds(st)
                    if b is None:
                        return None
                    if b is not False:
                        return b
        node = parent
    return None
