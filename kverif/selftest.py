"""Testing the checker both ways.

liveness_battery(prop, repo): for every rule of the property, apply each designated edit to the
*in-memory* sources (nothing is written, nothing is executed), re-run the rule and require that a
breaking edit flips it to VIOLATION and that an equivalent rewrite keeps it silent.  Edits that do
not apply to the tree under analysis are skipped and recorded.

`python3-vt -m kverif selftest` runs the batteries of all properties (development tool).
"""
from __future__ import annotations

import concurrent.futures as cf
from typing import Any, Dict, List

from . import core
from .core import RULES, VIOLATION, UNKNOWN
from .model import Repo


def _viol_set(ctx) -> set:
    return {(i.rule, i.construct, i.message) for i in ctx.instances if i.status == VIOLATION}


def _unknown_set(ctx) -> set:
    return {(i.rule, i.construct, i.message) for i in ctx.instances if i.status == UNKNOWN}


def _apply(repo: Repo, edits) -> Repo:
    """edits: (module, old, new) or a list of such triples."""
    if edits and isinstance(edits[0], str):
        edits = [edits]
    cur = repo
    for e in edits:
        module, old, new = e[0], e[1], e[2]
        cur = cur.patched(module, old, new)
        if cur is None:
            return None
    return cur


def liveness_battery(prop: str, repo: Repo) -> Dict[str, Any]:
    mutants: List[Dict[str, Any]] = []
    rewrites: List[Dict[str, Any]] = []
    for rd in RULES.values():
        if prop not in rd.props:
            continue
        base = None
        for kind, edits in (("mutant", rd.mutants), ("rewrite", rd.rewrites)):
            for spec in edits:
                label, edit = spec[0], spec[1]
                patched = _apply(repo, edit)
                row = {"rule": rd.id, "edit": label}
                if patched is None:
                    row["outcome"] = "SKIPPED (edit does not apply to this tree)"
                    (mutants if kind == "mutant" else rewrites).append(row)
                    continue
                if base is None:
                    base = core.run_rule(rd, repo)
                ctx = core.run_rule(rd, patched)
                new_v = _viol_set(ctx) - _viol_set(base)
                new_u = _unknown_set(ctx) - _unknown_set(base)
                if kind == "mutant":
                    row["outcome"] = "LIVE" if new_v else "DEAD"
                    if new_v:
                        row["reported"] = sorted(c for _, c, _ in new_v)[:3]
                    elif new_u:
                        row["unknown"] = sorted(m for _, _, m in new_u)[:2]
                    mutants.append(row)
                else:
                    row["outcome"] = "SILENT" if not new_v and not new_u else "ALARM"
                    if new_v or new_u:
                        row["reported"] = sorted(f"{c}: {m}" for _, c, m in (new_v | new_u))[:3]
                    rewrites.append(row)
    return {
        "mutants": mutants, "rewrites": rewrites,
        "live": sum(1 for m in mutants if m["outcome"] == "LIVE"),
        "dead": sum(1 for m in mutants if m["outcome"] == "DEAD"),
        "silent": sum(1 for m in rewrites if m["outcome"] == "SILENT"),
        "alarm": sum(1 for m in rewrites if m["outcome"] == "ALARM"),
        "skipped": sum(1 for m in mutants + rewrites if m["outcome"].startswith("SKIPPED")),
    }


def _one(prop):
    from . import rules  # noqa: F401
    repo = Repo.load()
    return prop, liveness_battery(prop, repo)


def main(args) -> int:
    from . import rules  # noqa: F401
    from .cli import PROPERTY_IDS
    props = [args.property] if getattr(args, "property", None) else PROPERTY_IDS
    bad = 0
    with cf.ProcessPoolExecutor(max_workers=getattr(args, "jobs", 16)) as ex:
        for prop, res in ex.map(_one, props):
            print(f"{prop}: live={res['live']} dead={res['dead']} silent={res['silent']} "
                  f"alarm={res['alarm']} skipped={res['skipped']}")
            for m in res["mutants"] + res["rewrites"]:
                if m["outcome"] in ("DEAD", "ALARM") or m["outcome"].startswith("SKIPPED"):
                    print(f"   {m['outcome']:8s} {m['rule']}: {m['edit']} {m.get('reported', m.get('unknown', ''))}")
                    if not m["outcome"].startswith("SKIPPED"):
                        bad += 1
    return 2 if bad else 0
