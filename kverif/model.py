"""Program model: parsed modules of /repo/kingdon, indexed by qualified names.

Nothing here imports kingdon.  A Repo can be built from the file system or from
an in-memory {module: source} mapping (used by the liveness battery, which edits
sources in memory and never writes or executes them).
"""
from __future__ import annotations

import ast
import glob
import hashlib
import os
from typing import Dict, Iterator, List, Optional, Tuple

DEFAULT_ROOT = "/repo"
EXPECTED_MODULES = (
    "__init__", "algebra", "codegen", "graph", "matrixreps", "multivector",
    "operator_dict", "polynomial", "taperecorder",
)


class AnchorMissing(Exception):
    """An anchor (module, class, function) named by a rule does not exist."""

    def __init__(self, what: str):
        super().__init__(what)
        self.what = what


def repo_root() -> str:
    return os.environ.get("KVERIF_REPO", DEFAULT_ROOT)


def _fold_return_locals(tree: ast.AST) -> int:
    """Canonical form used by every rule: `x = E` immediately followed by `return x`, where x is bound and used
    nowhere else in the function, is read as `return E` (an explaining variable before a return changes nothing, and
    rules that look at what a function returns should not care).  Returns the number of folds."""
    folds = 0
    for fn in [n for n in ast.walk(tree) if isinstance(n, (ast.FunctionDef, ast.AsyncFunctionDef))]:
        counts: Dict[str, int] = {}
        declared = set()
        for n in ast.walk(fn):
            if isinstance(n, ast.Name):
                counts[n.id] = counts.get(n.id, 0) + 1
            elif isinstance(n, (ast.Global, ast.Nonlocal)):
                declared.update(n.names)
        for holder in ast.walk(fn):
            for fld in ("body", "orelse", "finalbody"):
                stmts = getattr(holder, fld, None)
                if not (isinstance(stmts, list) and len(stmts) >= 2 and isinstance(stmts[0], ast.stmt)):
                    continue
                i = 0
                while i < len(stmts) - 1:
                    a, b = stmts[i], stmts[i + 1]
                    if isinstance(a, ast.Assign) and len(a.targets) == 1 and isinstance(a.targets[0], ast.Name) \
                            and isinstance(b, ast.Return) and isinstance(b.value, ast.Name) and b.value.id == a.targets[0].id \
                            and counts.get(b.value.id) == 2 and b.value.id not in declared:
                        new = ast.Return(value=a.value)
                        ast.copy_location(new, a)
                        new.end_lineno = getattr(b, "end_lineno", getattr(a, "end_lineno", None))
                        stmts[i:i + 2] = [new]
                        folds += 1
                    else:
                        i += 1
    return folds


class _ConstantAttrAccess(ast.NodeTransformer):
    """`getattr(x, "name")` (two arguments, a literal identifier) IS `x.name`, and the statement `setattr(x, "name", v)` IS
    `x.name = v`: every rule reads them that way (a census of who reads / writes an attribute must not depend on the spelling)."""

    def __init__(self):
        self.count = 0

    def visit_Call(self, node):
        self.generic_visit(node)
        if isinstance(node.func, ast.Name) and node.func.id == "getattr" and len(node.args) == 2 and not node.keywords \
                and isinstance(node.args[1], ast.Constant) and isinstance(node.args[1].value, str) and node.args[1].value.isidentifier() \
                and not isinstance(node.args[0], ast.Starred):
            self.count += 1
            return ast.copy_location(ast.Attribute(value=node.args[0], attr=node.args[1].value, ctx=ast.Load()), node)
        return node

    def visit_Expr(self, node):
        self.generic_visit(node)
        c = node.value
        if isinstance(c, ast.Call) and isinstance(c.func, ast.Name) and c.func.id == "setattr" and len(c.args) == 3 and not c.keywords \
                and isinstance(c.args[1], ast.Constant) and isinstance(c.args[1].value, str) and c.args[1].value.isidentifier():
            self.count += 1
            tgt = ast.copy_location(ast.Attribute(value=c.args[0], attr=c.args[1].value, ctx=ast.Store()), c)
            return ast.copy_location(ast.Assign(targets=[tgt], value=c.args[2], lineno=node.lineno), node)
        return node


class Module:
    def __init__(self, name: str, path: str, source: str):
        self.name = name
        self.path = path
        self.source = source
        self.tree = ast.parse(source, filename=path)
        if "getattr" in source or "setattr" in source:
            shadowed = any(isinstance(n, (ast.FunctionDef, ast.ClassDef)) and n.name in ("getattr", "setattr") or
                           isinstance(n, ast.Name) and isinstance(n.ctx, ast.Store) and n.id in ("getattr", "setattr") or
                           isinstance(n, ast.arg) and n.arg in ("getattr", "setattr") for n in ast.walk(self.tree))
            if not shadowed:
                tr = _ConstantAttrAccess()
                self.tree = ast.fix_missing_locations(tr.visit(self.tree))
                self.constant_attr_accesses = tr.count
        self.folded_returns = _fold_return_locals(self.tree)
        self.digest = hashlib.sha256(source.encode()).hexdigest()[:16]
        for node in ast.walk(self.tree):
            for child in ast.iter_child_nodes(node):
                child._parent = node  # type: ignore[attr-defined]
        self.tree._parent = None  # type: ignore[attr-defined]

    def __repr__(self):
        return f"<Module {self.name}>"


class Repo:
    def __init__(self, sources: Dict[str, Tuple[str, str]], extra: Dict[str, str], root: str):
        """sources: module name -> (path, source).  extra: non-python files (graph.js)."""
        self.root = root
        self.modules: Dict[str, Module] = {}
        self.parse_errors: Dict[str, str] = {}
        for name, (path, src) in sources.items():
            try:
                self.modules[name] = Module(name, path, src)
            except SyntaxError as exc:  # pragma: no cover - defensive
                self.parse_errors[name] = str(exc)
        self.extra = dict(extra)
        self._sources = sources

    # ------------------------------------------------------------------ loading
    @classmethod
    def load(cls, root: Optional[str] = None) -> "Repo":
        root = root or repo_root()
        pkg = os.path.join(root, "kingdon")
        sources: Dict[str, Tuple[str, str]] = {}
        for path in sorted(glob.glob(os.path.join(pkg, "**", "*.py"), recursive=True)):
            rel = os.path.relpath(path, pkg)
            name = rel[:-3].replace(os.sep, ".")
            with open(path, encoding="utf-8") as fh:
                sources[name] = (path, fh.read())
        extra = {}
        for path in sorted(glob.glob(os.path.join(pkg, "**", "*.js"), recursive=True)):
            with open(path, encoding="utf-8") as fh:
                extra[os.path.relpath(path, pkg)] = fh.read()
        return cls(sources, extra, root)

    def patched(self, module: str, old: str, new: str, count: int = 1) -> Optional["Repo"]:
        """A copy with `old` replaced by `new` in one module (None if it does not apply)."""
        if module.endswith(".js"):
            src = self.extra.get(module)
            if src is None or src.count(old) != count:
                return None
            extra = dict(self.extra)
            extra[module] = src.replace(old, new)
            return Repo(dict(self._sources), extra, self.root)
        if module not in self._sources:
            return None
        path, src = self._sources[module]
        if src.count(old) != count:
            return None
        sources = dict(self._sources)
        sources[module] = (path, src.replace(old, new))
        return Repo(sources, dict(self.extra), self.root)

    # ------------------------------------------------------------------ lookup
    def module(self, name: str) -> Module:
        if name not in self.modules:
            raise AnchorMissing(f"module kingdon.{name}" + (
                f" (syntax error: {self.parse_errors[name]})" if name in self.parse_errors else ""))
        return self.modules[name]

    def lookup(self, qual: str) -> ast.AST:
        """'codegen.codegen_product', 'multivector.MultiVector.__new__',
        'algebra.Algebra._prepare_signs._compute_sign'."""
        parts = qual.split(".")
        mod = self.module(parts[0])
        node: ast.AST = mod.tree
        for part in parts[1:]:
            found = None
            for child in _defs(node):
                if child.name == part:
                    found = child  # last definition wins, as in Python
            if found is None and isinstance(node, ast.ClassDef):
                found = self._inherited(parts[0], node, part)       # a method the class inherits from a base in the repository
            if found is None:
                raise AnchorMissing(f"{qual} (no definition of {part!r})")
            node = found
        return node

    def _inherited(self, module: str, cls: ast.ClassDef, name: str, depth: int = 0):
        if depth > 4:
            return None
        for b in cls.bases:
            bname = ast.unparse(b).split(".")[-1]
            for mname in [module] + [m for m in self.modules if m != module]:
                base = next((c for c in _defs(self.modules[mname].tree) if isinstance(c, ast.ClassDef) and c.name == bname), None)
                if base is None:
                    continue
                hit = None
                for child in _defs(base):
                    if child.name == name:
                        hit = child
                return hit if hit is not None else self._inherited(mname, base, name, depth + 1)
        return None

    def defining_qual(self, qual: str) -> str:
        """Qualified name of the definition a (possibly inherited) method name resolves to."""
        node = self.lookup(qual)
        parent = getattr(node, "_parent", None)
        if isinstance(parent, ast.ClassDef):
            for mname, mod in self.modules.items():
                if any(c is parent for c in _defs(mod.tree)):
                    return f"{mname}.{parent.name}.{node.name}"
        return qual

    def func(self, qual: str) -> ast.FunctionDef:
        node = self.lookup(qual)
        if not isinstance(node, (ast.FunctionDef, ast.AsyncFunctionDef)):
            raise AnchorMissing(f"{qual} is not a function")
        return node

    def cls(self, qual: str) -> ast.ClassDef:
        node = self.lookup(qual)
        if not isinstance(node, ast.ClassDef):
            raise AnchorMissing(f"{qual} is not a class")
        return node

    def has(self, qual: str) -> bool:
        try:
            self.lookup(qual)
            return True
        except AnchorMissing:
            return False

    def where(self, module: str, node: Optional[ast.AST]) -> str:
        path = self.modules[module].path if module in self.modules else module
        line = getattr(node, "lineno", 0) if node is not None else 0
        return f"{path}:{line}"

    def digests(self) -> Dict[str, str]:
        out = {n: m.digest for n, m in self.modules.items()}
        for n, s in self.extra.items():
            out[n] = hashlib.sha256(s.encode()).hexdigest()[:16]
        return out

    def all_functions(self) -> Iterator[Tuple[str, str, ast.FunctionDef]]:
        """(module, qualified name, node) for every function, nested ones included."""
        for mname, mod in self.modules.items():
            yield from _walk_funcs(mname, mname, mod.tree)


def _defs(node: ast.AST) -> List[ast.AST]:
    """Definitions directly inside a module / class / function body (also under if/try)."""
    out: List[ast.AST] = []
    stack = list(getattr(node, "body", []))
    while stack:
        st = stack.pop(0)
        if isinstance(st, (ast.FunctionDef, ast.AsyncFunctionDef, ast.ClassDef)):
            out.append(st)
        elif isinstance(st, (ast.If, ast.Try, ast.With, ast.For, ast.While)):
            for fld in ("body", "orelse", "finalbody"):
                stack.extend(getattr(st, fld, []))
            for h in getattr(st, "handlers", []):
                stack.extend(h.body)
    return out


def _walk_funcs(mname: str, prefix: str, node: ast.AST):
    for child in _defs(node):
        q = f"{prefix}.{child.name}"
        if isinstance(child, (ast.FunctionDef, ast.AsyncFunctionDef)):
            yield mname, q, child
        yield from _walk_funcs(mname, q, child)
