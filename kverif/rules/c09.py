"""C09 - Results depend only on the operands, never on earlier operations (sequential-history clauses)."""
from __future__ import annotations

import ast
import re

from ..astx import (reachable_private, un, chain, call_name, paths, params, walk_shallow, single_assignments, inline, enclosing, names_read,
                    inline_self_calls, private_helper_owners, seq)
from ..core import rule, fixture_for, Unknown
from .c10 import GETITEMS, GENERATORS, _flatten_try

INFO = {
    "id": "C09",
    "technique": "order-provenance (ORD) of generated-function names vs cache keys, typestate on cache population "
                 "(exception atomicity), write-ownership scan of multivector storage, exec-globals closure check, "
                 "eviction scan",
    "explanation": "Clause-level: the sequential-history clauses. Decided: the name under which a generated function is "
                   "stored in / fetched from the algebra's name space is an injective function of the cache entry (a fresh "
                   "token, or order-sensitive in every operand key tuple); every by-name use reads the name of the function "
                   "of the cache entry it just looked up; cache population is exception-atomic (no shared-state write "
                   "before the last call that can raise); only the constructor, the documented in-place APIs and a fresh "
                   "local result are ever written through _values/_keys; generated functions execute with closed globals; "
                   "nothing evicts cache entries. NOT decided: arbitrary thread interleavings (the code has no lock "
                   "discipline to analyse) and value-level aliasing of coefficient objects between operand and result.",
    "decided": ["C09.name-injective", "C09.token-atomic", "C09.by-name-twin", "C09.exception-atomic", "C09.storage-writers",
                "C09.numspace-writers", "C09.module-state", "C09.closed-functions", "C10.no-eviction", "C09.value-memo",
                "C09.own-operator-dicts", "C01.lazy-eager"],
    "not_decided": ["thread interleavings (clause d)", "aliasing of coefficient objects between operands and results"],
    "assumptions": ["sympy code generation is deterministic for a given cache key"],
}

NUMSPACE = "numspace"


def _is_numspace(node):
    c = chain(node)
    return c is not None and c.split(".")[-1] == NUMSPACE


# --------------------------------------------------------------------------- name-injective
def _key_reads_order_sensitive(fn):
    """How a property body (type_number) reads the operand's keys: returns (n_reads, n_order_destroying)."""
    total = destroying = 0
    for n in ast.walk(fn):
        is_keys = (isinstance(n, ast.Call) and (call_name(n) or "").endswith(".keys") and not n.args) or \
                  (isinstance(n, ast.Attribute) and n.attr == "_keys")
        if not is_keys:
            continue
        total += 1
        p = getattr(n, "_parent", None)
        if isinstance(p, ast.Compare) and n in p.comparators and all(isinstance(o, (ast.In, ast.NotIn)) for o in p.ops):
            destroying += 1
        elif isinstance(p, ast.Call) and (call_name(p) or "") in ("set", "frozenset", "sorted", "len", "sum", "min", "max"):
            destroying += 1
    return total, destroying


def name_sources(repo):
    """Where do generated function names come from?  [(module.qual, name expression, attrs read)]."""
    out = []
    for q in ("codegen.do_codegen", "codegen.do_compile", "codegen.codegen_inv", "codegen.codegen_div",
              "codegen.codegen_sqrt"):
        if not repo.has(q):
            continue
        fn = repo.func(q)
        defs = single_assignments(fn)
        for n in walk_shallow(fn):
            if isinstance(n, ast.keyword) and n.arg == "funcname":
                v = inline(n.value, defs, depth=2)
                if isinstance(v, (ast.JoinedStr, ast.BinOp)):
                    out.append((q, ast.keyword(arg="funcname", value=v)))
            elif isinstance(n, ast.Assign) and len(n.targets) == 1 and isinstance(n.targets[0], ast.Name) \
                    and isinstance(n.value, (ast.JoinedStr, ast.BinOp)) and "__name__" in un(n.value) and "type_number" in un(n.value):
                out.append((q, n))
    return out


def branch_chain(node):
    """[(id of enclosing If, arm)] from the outermost to the innermost enclosing if-statement."""
    chain_ = []
    child, par = node, getattr(node, "_parent", None)
    while par is not None and not isinstance(par, (ast.FunctionDef, ast.Lambda)):
        if isinstance(par, ast.If):
            arm = "body" if any(child is b for b in par.body) else "orelse" if any(child is b for b in par.orelse) else "test"
            chain_.append((id(par), arm))
        child, par = par, getattr(par, "_parent", None)
    return list(reversed(chain_))


def dominates_in_block(a, b):
    """Statement a precedes b and is executed on every path that reaches b (structured code: a's if-chain is a
    prefix of b's)."""
    ca, cb = branch_chain(a), branch_chain(b)
    return seq(a) < seq(b) and cb[:len(ca)] == ca


def check_name_injective(ctx, repo):
    # is the name order-sensitive in the operand keys at its source?
    sources = name_sources(repo)
    insensitive = []
    for q, node in sources:
        value = node.value
        attrs = {n.attr for n in ast.walk(value) if isinstance(n, ast.Attribute)}
        reads_keys_directly = any((isinstance(n, ast.Call) and (call_name(n) or "").endswith(".keys")) for n in ast.walk(value))
        if reads_keys_directly:
            continue
        if "type_number" in attrs:
            for cls_q in ("multivector.MultiVector.type_number", "taperecorder.TapeRecorder.type_number"):
                if repo.has(cls_q):
                    total, destroying = _key_reads_order_sensitive(repo.func(cls_q))
                    if total and total == destroying:
                        insensitive.append((q, node, cls_q))
                        break
        else:
            insensitive.append((q, node, "no dependence on the operand keys"))
    # store sites
    for q in GETITEMS:
        # the (possibly inherited) method with its private helpers inlined, and the helpers themselves (a template method may
        # do the renaming and the store in a hook of its own)
        regions = [inline_self_calls(repo, q.rsplit(".", 1)[0], ctx.func(q))] + [f for _, f in reachable_private(repo, q)[1:]]
        found, seen_sites = [], set()
        for fn in regions:
            for n in walk_shallow(fn):
                if isinstance(n, ast.Assign) and any(isinstance(t, ast.Subscript) and _is_numspace(t.value) for t in n.targets):
                    key = (getattr(n, "lineno", 0), un(n))
                    if key not in seen_sites:
                        seen_sites.add(key)
                        found.append((fn, n))
        if not found:
            ctx.note(q, "no by-name store")
            continue
        for fn, st in found:
            tgt = [t for t in st.targets if isinstance(t, ast.Subscript) and _is_numspace(t.value)][0]
            c = f"{q}#numspace-store"
            name_expr = tgt.slice
            if not (isinstance(name_expr, ast.Attribute) and name_expr.attr == "__name__" and isinstance(name_expr.value, ast.Name)):
                raise Unknown(c, f"by-name store under {un(name_expr)!r}", st)
            fvar = name_expr.value.id
            # a freshening rebinding of func.__name__ before the store?
            fresh = None
            for n in walk_shallow(fn):
                if isinstance(n, ast.Assign) and dominates_in_block(n, st) and any(
                        isinstance(t, ast.Attribute) and t.attr == "__name__" and un(t.value) == fvar for t in n.targets):
                    reads_len = any(isinstance(c2, ast.Call) and (call_name(c2) or "") == "len" and c2.args and _is_numspace(c2.args[0])
                                    for c2 in ast.walk(n.value))
                    reads_counter = any(isinstance(c2, ast.Call) and (call_name(c2) or "") in ("next", "id", "uuid.uuid4", "uuid4")
                                        for c2 in ast.walk(n.value))
                    if reads_len or reads_counter:
                        fresh = n
                elif isinstance(n, ast.AugAssign) and dominates_in_block(n, st) and isinstance(n.target, ast.Attribute) \
                        and n.target.attr == "__name__" and un(n.target.value) == fvar:
                    if any(isinstance(c2, ast.Call) and (call_name(c2) or "") == "len" and c2.args and _is_numspace(c2.args[0])
                           for c2 in ast.walk(n.value)):
                        fresh = n
            if fresh is not None:
                ctx.ok(c, st, injective_by="fresh token: " + un(fresh), no_eviction="C10.no-eviction")
            elif not sources:
                raise Unknown(c, "no fresh token and no recognisable construction of the generated function's name", st)
            elif insensitive:
                q0, node0, why = insensitive[0]
                ctx.violation(c,
                              f"the generated function is stored in the algebra's name space under func.__name__, which is "
                              f"built in {q0} from {un(node0.value)[:90]!r}; {why} reads the operand keys only through "
                              f"membership tests, so two cache keys that are permutations of each other get the same "
                              f"name and the later one overwrites the earlier: by-name calls (wrapper path, registered "
                              f"functions) then run the function compiled for the other key order",
                              st, name_built_in=q0, name_expr=un(node0.value))
            else:
                ctx.ok(c, st, injective_by="name is order-sensitive in every operand key tuple")


@rule("C09.name-injective", props=["C09", "C13", "C11", "C12", "C02", "C08", "C01", "C03", "C04", "C05", "C06", "C07"], min_instances=3, mutants=[
    ("drop the fresh suffix (unary)", ("operator_dict", "            keys_out, func = do_codegen(self.codegen, mv)\n            # The generated name only encodes which blades are present, not their order: make it unique.\n            func.__name__ = f'{func.__name__}_{id(func)}'\n",
                                       "            keys_out, func = do_codegen(self.codegen, mv)\n")),
])
def name_injective(ctx):
    """The name a generated function is stored/called under is injective in the cache entry (DEP + ORD)."""
    check_name_injective(ctx, ctx.repo)


@fixture_for("C09.name-injective")
def _fx_name(ctx):
    from ..model import Repo
    from ..core import Ctx
    opd = ("class OperatorDict:\n    def __getitem__(self, keys_in):\n        if keys_in not in self.operator_dict:\n"
           "            keys_out, func = do_codegen(self.codegen, keys_in)\n"
           "            self.algebra.numspace[func.__name__] = func\n"
           "            self.operator_dict[keys_in] = (keys_out, func)\n        return self.operator_dict[keys_in]\n"
           "class UnaryOperatorDict(OperatorDict):\n    pass\nclass Registry(OperatorDict):\n    pass\n")
    opd = opd.replace("class UnaryOperatorDict(OperatorDict):\n    pass", "class UnaryOperatorDict(OperatorDict):\n" + "\n".join(opd.splitlines()[1:7]))
    opd = opd.replace("class Registry(OperatorDict):\n    pass", "class Registry(OperatorDict):\n" + "\n".join(opd.splitlines()[1:7]))
    cg = ("def do_codegen(codegen, *mvs):\n    funcname = f'{codegen.__name__}_' + '_x_'.join(f'{mv.type_number}' for mv in mvs)\n")
    mvsrc = ("class MultiVector:\n    def type_number(self):\n"
             "        return int(''.join('1' if i in self.keys() else '0' for i in self.algebra.canon2bin.values()), 2)\n")
    repo = Repo({"operator_dict": ("fixture", opd), "codegen": ("fixture", cg), "multivector": ("fixture", mvsrc)}, {}, "fixture")
    sub = Ctx(repo, ctx.rule_id)
    check_name_injective(sub, repo)
    ctx.instances.extend(sub.instances)


# --------------------------------------------------------------------------- race-free fresh token (one clause of the thread statement)
@rule("C09.token-atomic", props=["C09", "C11", "C12", "C13"], min_instances=3, mutants=[
    ("token from the size of the shared name space (check-then-act)", ("operator_dict", "            keys_out, func = do_codegen(self.codegen, mv)\n            # The generated name only encodes which blades are present, not their order: make it unique.\n            func.__name__ = f'{func.__name__}_{id(func)}'", "            keys_out, func = do_codegen(self.codegen, mv)\n            # The generated name only encodes which blades are present, not their order: make it unique.\n            func.__name__ = f'{func.__name__}_{len(self.algebra.numspace)}'")),
])
def token_atomic(ctx):
    """The token that makes a generated function's name unique must not be read from shared state that the same
    code then updates (two threads filling the cache concurrently read the same size and collide); accepted:
    the identity of the freshly generated function object, an atomic counter, a uuid."""
    for q in GETITEMS:
        regions = [inline_self_calls(ctx.repo, q.rsplit(".", 1)[0], ctx.func(q))] + [f for _, f in reachable_private(ctx.repo, q)[1:]]
        seen_sites = set()
        for n in [n_ for fn in regions for n_ in walk_shallow(fn)]:
            if (getattr(n, "lineno", 0), un(n)) in seen_sites:
                continue
            seen_sites.add((getattr(n, "lineno", 0), un(n)))
            tgt = None
            if isinstance(n, ast.Assign):
                tgt = [t for t in n.targets if isinstance(t, ast.Attribute) and t.attr == "__name__"]
            elif isinstance(n, ast.AugAssign) and isinstance(n.target, ast.Attribute) and n.target.attr == "__name__":
                tgt = [n.target]
            if not tgt:
                continue
            c = f"{q}#name-token"
            calls = [call_name(c2) or "" for c2 in ast.walk(n.value) if isinstance(c2, ast.Call)]
            shared = [c2 for c2 in ast.walk(n.value) if isinstance(c2, ast.Call) and (call_name(c2) or "") in ("len", "sum", "max")
                      and c2.args and (_is_numspace(c2.args[0]) or (chain(c2.args[0]) or "").endswith(".operator_dict"))]
            if shared:
                ctx.violation(c, f"the unique suffix {un(n.value)[:70]} is read from shared state ({un(shared[0])}) that this very "
                                 f"code then grows: two threads generating functions for different key orders of the same "
                                 f"blades at the same time read the same size, get the same name, and one overwrites the "
                                 f"other in the name space", n)
            elif any(cn in ("id", "next", "uuid.uuid4", "uuid4") for cn in calls):
                ctx.ok(c, n, token=un(n.value)[:70])
            else:
                raise Unknown(c, f"unrecognised name token {un(n.value)[:80]}", n)


# --------------------------------------------------------------------------- who may write the name space
@rule("C09.numspace-writers", props=["C09", "C10", "C12"], min_instances=1, mutants=[
    ("callable multivectors memoised by name in numspace", ("codegen", "    return CodegenOutput(tuple(mv.keys()), func)\n\n\ndef do_codegen", "    mv.algebra.numspace.setdefault(f'custom_{mv.type_number}', func)\n    return CodegenOutput(tuple(mv.keys()), mv.algebra.numspace[f'custom_{mv.type_number}'])\n\n\ndef do_codegen")),
])
def numspace_writers(ctx):
    """Only the three cache __getitem__ methods store into the algebra's name space (OWN): any other writer keys
    generated functions by something that is not a cache entry."""
    repo = ctx.repo
    owners = private_helper_owners(repo, set(GETITEMS))
    for mname, qual, fn in repo.all_functions():
        aliases = set()
        for n in walk_shallow(fn):
            if isinstance(n, ast.Assign) and len(n.targets) == 1 and isinstance(n.targets[0], ast.Name) and _is_numspace(n.value):
                aliases.add(n.targets[0].id)

        def is_ns(e):
            return _is_numspace(e) or (isinstance(e, ast.Name) and e.id in aliases)
        for n in walk_shallow(fn):
            site = None
            if isinstance(n, (ast.Assign, ast.AugAssign)):
                for t in (n.targets if isinstance(n, ast.Assign) else [n.target]):
                    if isinstance(t, ast.Subscript) and is_ns(t.value):
                        site = n
            elif isinstance(n, ast.Call) and isinstance(n.func, ast.Attribute) and n.func.attr in ("setdefault", "update", "__setitem__") \
                    and is_ns(n.func.value):
                site = n
            if site is None:
                continue
            c = f"{qual}#numspace-write"
            if qual in owners:
                ctx.ok(c, site, module=mname)
            elif qual == "codegen.do_compile" and isinstance(site, ast.Call) is False and False:
                ctx.ok(c, site, module=mname)
            else:
                ctx.violation(c, f"{qual} stores into the algebra's name space ({un(site)[:70]}): functions kept there are "
                                 f"found again by name, so the name must identify a cache entry - here two different "
                                 f"expressions/key orders that share the name get each other's compiled function", site, module=mname)


# --------------------------------------------------------------------------- by-name twin
BYNAME_USERS = ["operator_dict.OperatorDict.__call__", "operator_dict.OperatorDict._call_binary",
                "operator_dict.UnaryOperatorDict.__call__", "operator_dict.Registry.__call__",
                "taperecorder.TapeRecorder.binary_operator", "taperecorder.TapeRecorder.unary_operator"]


@rule("C09.by-name-twin", props=["C09", "C13", "C12"], min_instances=6, mutants=[
    ("by-name call uses the codegen name", ("operator_dict", "            values_out = self.algebra.numspace[func.__name__](mv.values())",
                                            "            values_out = self.algebra.numspace[self.codegen.__name__](mv.values())")),
])
def by_name_twin(ctx):
    """Every by-name use (wrapper dispatch, emitted call source) names the function of the cache entry just looked up."""
    for q in BYNAME_USERS:
        fn = inline_self_calls(ctx.repo, q.rsplit(".", 1)[0], ctx.func(q))
        # variables bound to the function of a cache lookup:  keys_out, func = self[...]
        func_vars = set()
        for n in walk_shallow(fn):
            if isinstance(n, ast.Assign) and len(n.targets) == 1 and isinstance(n.targets[0], ast.Tuple) \
                    and len(n.targets[0].elts) == 2 and isinstance(n.value, ast.Subscript):
                t = n.targets[0].elts[1]
                if isinstance(t, ast.Name):
                    func_vars.add(t.id)
        k = 0
        for n in walk_shallow(fn):
            uses = []
            if isinstance(n, ast.Subscript) and _is_numspace(n.value) and isinstance(n.ctx, ast.Load):
                uses.append(n.slice)
            elif isinstance(n, ast.JoinedStr) and n.values and isinstance(n.values[0], ast.FormattedValue) \
                    and any(isinstance(v, ast.Constant) and "(" in str(v.value) for v in n.values[1:2]):
                uses.append(n.values[0].value)
            elif isinstance(n, ast.Call) and isinstance(n.func, ast.Attribute) and n.func.attr == "format" \
                    and isinstance(n.func.value, ast.Constant) and isinstance(n.func.value.value, str):
                # the same call text spelled with str.format: '{}({}, {})'.format(func.__name__, ...) / '{name}(...)'.format(name=...)
                m = re.match(r"\{(\w*)\}\(", n.func.value.value)
                if m and (m.group(1) == "" or m.group(1).isdigit()) and n.args and not isinstance(n.args[0], ast.Starred):
                    uses.append(n.args[int(m.group(1) or 0)] if int(m.group(1) or 0) < len(n.args) else n.args[0])
                elif m and m.group(1):
                    kw = [k_.value for k_ in n.keywords if k_.arg == m.group(1)]
                    if kw:
                        uses.append(kw[0])
            elif isinstance(n, ast.BinOp) and isinstance(n.op, ast.Mod) and isinstance(n.left, ast.Constant) and isinstance(n.left.value, str) \
                    and n.left.value.startswith("%s("):
                uses.append(n.right.elts[0] if isinstance(n.right, ast.Tuple) and n.right.elts else n.right)
            for name_expr in uses:
                k += 1
                c = f"{q}#by-name{k}"
                if isinstance(name_expr, ast.Attribute) and name_expr.attr == "__name__" and isinstance(name_expr.value, ast.Name) \
                        and name_expr.value.id in func_vars:
                    ctx.ok(c, n, name=un(name_expr))
                else:
                    ctx.violation(c, f"by-name use {un(n)[:80]!r} does not name the function of the cache entry looked up "
                                     f"in this call (expected <func>.__name__ of `keys_out, func = self[...]`): it can "
                                     f"resolve to a function compiled for different operands", n)
        if k == 0 and q.startswith("taperecorder."):
            # the recorder's emitted call is also decided by interpretation, whatever its spelling (C11.emission-pairing: the callee name, the
            # recorded keys and the operand expressions come from one cache look-up) - that rule runs in this check as well
            ctx.ok(f"{q}#by-name (decided by C11.emission-pairing)", fn, note="no syntactic by-name use recognised; the emitted call is interpreted")
        elif k == 0:
            raise Unknown(q, "no by-name use (numspace lookup / emitted call) found in a function that dispatches by name", fn)


# --------------------------------------------------------------------------- exception-atomic
def _may_raise_call(st, func_var=None):
    for c in ast.walk(st):
        if isinstance(c, ast.Call):
            cn = call_name(c) or un(c.func)
            if cn.split(".")[-1] in GENERATORS or cn.endswith(".wrapper") or cn.split(".")[-1] in ("multivector", "TapeRecorder"):
                return cn
    return None


def check_exception_atomic(ctx, fn, q):
    ps_ = paths(_flatten_try(fn.body))
    n = 0
    for p in ps_:
        shared_written = None
        for st in p.stmts:
            raising = _may_raise_call(st)
            if raising and shared_written is not None:
                n += 1
                ctx.violation(f"{q}#atomic",
                              f"{un(shared_written)[:70]!r} writes shared cache state before {raising}() has returned: if "
                              f"that call raises, the entry stays behind and later calls with this key use a half-built "
                              f"entry", st, write=un(shared_written), raising_call=raising)
                break
            if isinstance(st, ast.Assign) and any(
                    isinstance(t, ast.Subscript) and (_is_numspace(t.value) or (chain(t.value) or "").endswith(".operator_dict"))
                    for t in st.targets):
                shared_written = st
        else:
            if shared_written is not None:
                n += 1
                ctx.ok(f"{q}#atomic", shared_written)
    return n


@rule("C09.exception-atomic", props=["C09", "C05", "C07"], min_instances=15, mutants=[
    ("a ZeroDivisionError of the generator is remembered as an empty result", ("operator_dict", "            mv = self.algebra.multivector(name='a', keys=keys_in, symbolcls=self.codegen_symbolcls)\n            keys_out, func = do_codegen(self.codegen, mv)\n", "            mv = self.algebra.multivector(name='a', keys=keys_in, symbolcls=self.codegen_symbolcls)\n            try:\n                keys_out, func = do_codegen(self.codegen, mv)\n            except ZeroDivisionError:\n                self.operator_dict[keys_in] = (tuple(), lambda *values: list())\n                raise\n")),
    ("cache entry stored before the wrapper runs", ("operator_dict", "            keys_out, func = do_compile(self.codegen, *tapes)\n            # The generated name only encodes which blades are present, not their order: make it unique.\n            func.__name__ = f'{func.__name__}_{id(func)}'\n            self.algebra.numspace[func.__name__] = self.algebra.wrapper(func) if self.algebra.wrapper else func\n            self.operator_dict[keys_in] = (keys_out, func)",
                                                    "            keys_out, func = do_compile(self.codegen, *tapes)\n            # The generated name only encodes which blades are present, not their order: make it unique.\n            func.__name__ = f'{func.__name__}_{id(func)}'\n            self.operator_dict[keys_in] = (keys_out, func)\n            self.algebra.numspace[func.__name__] = self.algebra.wrapper(func) if self.algebra.wrapper else func")),
])
def exception_atomic(ctx):
    """A failing generation/compilation/wrapper leaves operator_dict and numspace untouched (TS)."""
    for q in GETITEMS:
        check_exception_atomic(ctx, inline_self_calls(ctx.repo, q.rsplit(".", 1)[0], ctx.func(q)), q)
    # the same by abstract interpretation: a failing generator / wrapper leaves both dictionaries empty
    from ..absint import Obj, PyFunc, Raised, NoValue
    from ..symenv import make_interp
    from .c08 import GETITEMS as G8, tok
    for q, (kind, n, gen) in G8.items():
        fn = ctx.func(q)
        for failing, exc_name in (("generator", "RuntimeError"), ("wrapper", "RuntimeError"), ("generator", "ZeroDivisionError"),
                                  ("generator", "NotImplementedError")):
            c = f"{q}#failing-{failing}" + (f":{exc_name}" if exc_name != "RuntimeError" else "")
            cache, numspace = {}, {}
            func = Obj("function", {"__name__": "generated_fn"})

            def generate(codegen, *mvs, failing=failing, exc_name=exc_name):
                if failing == "generator":
                    raise Raised(exc_name)
                return (tok("KEYS_OUT"), func)

            def wrap(f, exc_name=exc_name):
                raise Raised(exc_name)
            alg = Obj("algebra", {"wrapper": Obj("wrapper", call=wrap) if failing == "wrapper" else None, "numspace": numspace},
                      {"multivector": lambda *a, **k: Obj("MultiVector", {"_keys": k.get("keys")})})
            me = Obj(kind, {"algebra": alg, "operator_dict": cache, "codegen": tok("CODEGEN"), "codegen_symbolcls": tok("SYMBOLCLS")})
            it = make_interp(ctx.repo)
            it.instance_classes.update({"OperatorDict": "operator_dict.OperatorDict", "UnaryOperatorDict": "operator_dict.UnaryOperatorDict",
                                        "Registry": "operator_dict.Registry"})
            it.overrides[f"operator_dict.{gen}"] = PyFunc(generate, gen, True)
            prev = it.class_call_hook
            it.class_call_hook = lambda name, a, k: Obj("TapeRecorder", {"_keys": k.get("keys")}) if name == "TapeRecorder" else prev(name, a, k)
            key = (tok("K0"), tok("K1")) if n == 2 else tok("K0")
            try:
                out = it.run(q, [me, key])
            except NoValue as exc:
                raise Unknown(c, str(exc), fn)
            if out[0] != "raise":
                ctx.violation(c, f"a {failing} that raises {exc_name} is swallowed: the look-up returns {out[1]!r}", fn)
                continue
            if cache or numspace:
                ctx.violation(c, f"a {failing} that raises {exc_name} leaves cache={len(cache)} / name-space={len(numspace)} entries behind: "
                                 f"later calls with this key pattern use a half-built entry instead of raising again", fn)
                continue
            try:
                out2 = it.run(q, [me, key])
            except NoValue as exc:
                raise Unknown(c, str(exc), fn)
            if out2[0] != "raise" or out2[1] != exc_name:
                ctx.violation(c, f"the second look-up after a failed one gives {out2!r} instead of raising {exc_name} again: what an "
                                 f"operation does depends on whether it was attempted before", fn)
            else:
                ctx.ok(c, fn)


# --------------------------------------------------------------------------- storage writers
ACCEPTED_WRITERS = {
    "multivector.MultiVector.fromkeysvalues": "constructor: writes the fields of the object it just created",
    "multivector.MultiVector.__setitem__": "documented in-place API (C16.index-uniform)",
    "graph.GraphWidget.inplacereplace": "documented drag write-back (C20.writeback)",
    "codegen.codegen_outerexp": "rescales the direct result of an operator call made in the same function (fresh object)",
    "taperecorder.TapeRecorder.__new__": "constructor of the recorder",
}
MUTATORS = {"append", "extend", "insert", "pop", "remove", "clear", "sort", "reverse", "__setitem__", "fill", "put"}


def storage_writes(fn):
    """Stores through _values / _keys / .values()[...] inside one function: [(node, description, receiver)]."""
    out = []
    aliases = {}
    for n in walk_shallow(fn):
        if isinstance(n, ast.Assign) and len(n.targets) == 1 and isinstance(n.targets[0], ast.Name):
            v = n.value
            if (isinstance(v, ast.Attribute) and v.attr in ("_values", "_keys")) or \
                    (isinstance(v, ast.Call) and isinstance(v.func, ast.Attribute) and v.func.attr == "values" and not v.args
                     and not isinstance(v.func.value, ast.Name)) or \
                    (isinstance(v, ast.Call) and isinstance(v.func, ast.Attribute) and v.func.attr == "values" and not v.args
                     and isinstance(v.func.value, ast.Name) and v.func.value.id in ("self", "mv", "mv1", "mv2", "other", "x", "y", "o")):
                aliases[n.targets[0].id] = un(v)

    def storage_expr(e):
        if isinstance(e, ast.Attribute) and e.attr in ("_values", "_keys"):
            return un(e.value)
        if isinstance(e, ast.Call) and isinstance(e.func, ast.Attribute) and e.func.attr == "values" and not e.args:
            return un(e.func.value)
        if isinstance(e, ast.Name) and e.id in aliases:
            return aliases[e.id]
        return None

    for n in walk_shallow(fn):
        targets = []
        if isinstance(n, ast.Assign):
            targets = n.targets
        elif isinstance(n, (ast.AugAssign, ast.AnnAssign)):
            targets = [n.target]
        for t in targets:
            for sub in (t.elts if isinstance(t, (ast.Tuple, ast.List)) else [t]):
                if isinstance(sub, ast.Attribute) and sub.attr in ("_values", "_keys"):
                    out.append((n, f"rebinds {un(sub)}", un(sub.value)))
                elif isinstance(sub, ast.Subscript):
                    r = storage_expr(sub.value)
                    if r is not None:
                        out.append((n, f"item store into {un(sub.value)}", r))
        if isinstance(n, ast.Call) and isinstance(n.func, ast.Attribute) and n.func.attr in MUTATORS:
            r = storage_expr(n.func.value)
            if r is not None and isinstance(getattr(n, "_parent", None), ast.Expr):
                out.append((n, f"in-place {n.func.attr}() on {un(n.func.value)}", r))
        if isinstance(n, ast.For):
            # `for a, b in zip(X.values(), ...): a[i] = b` - element stores through the iterated storage
            it = n.iter
            srcs = []
            if isinstance(it, ast.Call) and (call_name(it) or "") == "zip":
                srcs = list(it.args)
            else:
                srcs = [it]
            tvars = n.target.elts if isinstance(n.target, (ast.Tuple, ast.List)) else [n.target]
            for tv, src in zip(tvars, srcs):
                r = storage_expr(src)
                if r is not None and isinstance(tv, ast.Name):
                    for m in ast.walk(n):
                        if isinstance(m, (ast.Assign, ast.AugAssign)):
                            for t2 in (m.targets if isinstance(m, ast.Assign) else [m.target]):
                                if isinstance(t2, ast.Subscript) and isinstance(t2.value, ast.Name) and t2.value.id == tv.id:
                                    out.append((m, f"element store through iteration over {un(src)}", r))
    return out


@rule("C09.storage-writers", props=["C09"], min_instances=6, mutants=[
    ("_call_binary scales the left operand in place", ("operator_dict", "        keys_out, func = self[mv1.keys(), mv2.keys()]\n        issymbolic = (mv1.issymbolic or mv2.issymbolic)",
                                                       "        keys_out, func = self[mv1.keys(), mv2.keys()]\n        mv1._values[0] = mv1._values[0] * 1\n        issymbolic = (mv1.issymbolic or mv2.issymbolic)")),
    ("neg negates in place", ("multivector", "    def neg(self):\n        return self.algebra.neg(self)", "    def neg(self):\n        vals = self.values()\n        vals[0] = -vals[0]\n        return self.algebra.neg(self)")),
])
def storage_writers(ctx):
    """Only the constructor, the documented in-place APIs and a fresh local result write multivector storage (OWN)."""
    repo = ctx.repo
    owners = private_helper_owners(repo, set(ACCEPTED_WRITERS))
    for mname, qual, fn in repo.all_functions():
        for node, what, receiver in storage_writes(fn):
            c = f"{qual}#{what.split(' ')[0]}:{receiver}"
            if qual in owners and qual not in ACCEPTED_WRITERS:
                ctx.ok(c, node, module=mname, reason="private helper called only from accepted writers")
            elif qual in ACCEPTED_WRITERS:
                if qual == "codegen.codegen_outerexp":
                    # receiver must be a local bound to the result of an operator call in this function
                    defs = [n for n in walk_shallow(fn) if isinstance(n, ast.Assign) and any(
                        isinstance(t, ast.Name) and t.id == receiver for t in n.targets)]
                    params_ = set(params(fn))
                    if receiver in params_ or not defs or not all(isinstance(d.value, (ast.BinOp, ast.Call)) for d in defs):
                        ctx.violation(c, f"{what}: the receiver {receiver!r} is not a fresh operator result of this "
                                         f"function - an operand or cached object would be modified", node, module=mname)
                        continue
                ctx.ok(c, node, module=mname, reason=ACCEPTED_WRITERS[qual])
            else:
                ctx.violation(c, f"{qual} {what}: operator paths must not write into an operand or a previously returned "
                                 f"multivector (accepted writers: {sorted(ACCEPTED_WRITERS)})", node, module=mname)


# --------------------------------------------------------------------------- closed functions
@rule("C09.closed-functions", props=["C09"], min_instances=3, mutants=[
    ("exec in module globals", ("codegen", "    exec(c, {}, func_locals)", "    exec(c, globals(), func_locals)")),
])
def closed_functions(ctx):
    """Generated functions execute with a fresh literal globals dict or the algebra's own name space (a globals
    argument that is a parameter of the executing helper is followed to every call site of that helper)."""
    from ..astx import _bind_call
    repo = ctx.repo
    funcs = list(repo.all_functions())

    def classify(g, c, site, mname, qual, fn, level):
        if isinstance(g, ast.Dict) and all(isinstance(k, ast.Constant) for k in g.keys):
            ctx.ok(c, site, module=mname, globals=un(g)[:80])
        elif isinstance(g, ast.Attribute) and g.attr == NUMSPACE:
            ctx.ok(c, site, module=mname, globals=un(g))
        elif isinstance(g, ast.Call) and call_name(g) in ("globals", "vars", "locals"):
            ctx.violation(c, f"generated code is executed with {un(g)} as globals: it can read and be affected by "
                             f"mutable module state", site, module=mname)
        elif isinstance(g, ast.Name) and g.id in params(fn) + [x.arg for x in fn.args.kwonlyargs] and level < 2:
            # the globals are handed in by the callers of this helper: every call site decides
            name = qual.split(".")[-1]
            sites = 0
            for m2, q2, f2 in funcs:
                defs2 = single_assignments(f2)
                for call in [x for x in walk_shallow(f2) if isinstance(x, ast.Call)
                             and ((isinstance(x.func, ast.Name) and x.func.id == name) or (isinstance(x.func, ast.Attribute) and x.func.attr == name))]:
                    first = ast.Name(id="self", ctx=ast.Load()) if isinstance(call.func, ast.Attribute) and params(fn)[:1] == ["self"] else None
                    mapping = _bind_call(fn, call, first)
                    if mapping is None or g.id not in mapping:
                        raise Unknown(f"{q2}#exec-globals", f"call {un(call)[:80]!r} of {qual} not understood", call)
                    sites += 1
                    classify(inline(mapping[g.id], defs2), f"{q2}#exec-globals", call, m2, q2, f2, level + 1)
            if sites == 0:
                raise Unknown(c, f"{qual} executes code with its parameter {g.id!r} as globals but has no call site", site)
        else:
            raise Unknown(c, f"unrecognised exec globals {un(g)!r}", site)

    for mname, qual, fn in funcs:
        defs = single_assignments(fn)
        for call in [c for c in walk_shallow(fn) if isinstance(c, ast.Call) and call_name(c) == "exec"]:
            c = f"{qual}#exec-globals"
            if len(call.args) < 2:
                ctx.violation(c, "exec() without an explicit globals dict runs generated code in the module's own "
                                 "globals (mutable module state becomes visible to generated functions)", call, module=mname)
                continue
            classify(inline(call.args[1], defs), c, call, mname, qual, fn, 0)


# --------------------------------------------------------------------------- no memo of coefficient-dependent results
MEMO_DECORATORS = {"cached_property", "functools.cached_property", "lru_cache", "functools.lru_cache", "cache", "functools.cache"}
# memoised members of MultiVector that read coefficient values, confirmed by reading: each depends only on the SYMBOLIC
# structure of the coefficients (their classes / free symbols / expressions), which the in-place API (__setitem__,
# defined for array coefficients only) cannot change
ACCEPTED_VALUE_MEMOS = {
    "issymbolic": "class tests on the coefficients only",
    "free_symbols": "symbols of symbolic coefficients; array coefficients have none",
    "_callable": "lambdified SYMBOLIC coefficients (calling a multivector substitutes its symbols)",
}


def _value_reads(repo, cls_qual, fn, self_name, depth=0, seen=None):
    """Does the body of a method (transitively through methods of the same class, bound 3) read the coefficient
    values of `self`?  Returns a description of the first value read, or None."""
    seen = seen if seen is not None else set()
    from ..astx import class_method
    for n in ast.walk(fn):
        if isinstance(n, ast.Attribute) and un(n.value) == self_name and n.attr == "_values":
            return "self._values"
        if isinstance(n, ast.Call):
            cn = call_name(n) or ""
            if isinstance(n.func, ast.Attribute) and un(n.func.value) == self_name:
                m = n.func.attr
                if m in ("values", "items"):
                    return f"self.{m}()"
                if m in ("keys", "__len__"):
                    continue
                callee = class_method(repo, cls_qual, m)
                if callee is None:
                    return f"self.{m}(...) (an operator / accessor of the multivector)"
                if (cls_qual, m) in seen or depth >= 3:
                    continue
                seen.add((cls_qual, m))
                r = _value_reads(repo, cls_qual, callee, params(callee)[0] if params(callee) else "self", depth + 1, seen)
                if r:
                    return f"self.{m}() -> {r}"
            elif any(isinstance(a, ast.Name) and a.id == self_name for a in list(n.args) + [k.value for k in n.keywords]):
                return f"{cn or un(n.func)}(self, ...) (self is handed to other code)"
        if isinstance(n, ast.Attribute) and un(n.value) == self_name and isinstance(getattr(n, "_parent", None), ast.Attribute) is False:
            m = n.attr
            callee = class_method(repo, cls_qual, m)
            if callee is not None and any(un(d) in ("property", "cached_property", "functools.cached_property") for d in callee.decorator_list) \
                    and (cls_qual, m) not in seen and depth < 3:
                seen.add((cls_qual, m))
                r = _value_reads(repo, cls_qual, callee, params(callee)[0] if params(callee) else "self", depth + 1, seen)
                if r:
                    return f"self.{m} -> {r}"
            elif callee is None and re.fullmatch(r"e[0-9a-fA-F]*", m):
                return f"self.{m} (a coefficient)"
    return None


@rule("C09.value-memo", props=["C09", "C07", "C19", "C06", "C04"], min_instances=5, mutants=[
    ("norm is memoised per object", ("multivector", "    def norm(self):\n        normsq = self.normsq()\n        return normsq.sqrt()", "    @cached_property\n    def _norm(self):\n        normsq = self.normsq()\n        return normsq.sqrt()\n\n    def norm(self):\n        return self._norm")),
    ("norm is remembered in a dictionary kept in the instance dictionary", ("multivector", "    def norm(self):\n        normsq = self.normsq()\n        return normsq.sqrt()", "    def norm(self):\n        memo = self.__dict__.setdefault('_memo', {})\n        if 'norm' not in memo:\n            memo['norm'] = self.normsq().sqrt()\n        return memo['norm']")),
    ("inverse is memoised per object", ("multivector", "        \"\"\" Inverse of this multivector. \"\"\"\n        return self.algebra.inv(self)", "        \"\"\" Inverse of this multivector. \"\"\"\n        if '_inv' not in self.__dict__:\n            self._inv = self.algebra.inv(self)\n        return self._inv")),
])
def value_memo(ctx):
    """A multivector can be updated in place (x[idx] = y writes into its coefficient arrays), so nothing computed
    from its coefficient values may be remembered on the object: every memoised member of MultiVector (cached_property,
    lru_cache / cache, or a method that stores its result in an attribute of self) is classified by what it reads."""
    repo = ctx.repo
    cq = "multivector.MultiVector"
    cls = ctx.cls(cq)
    if not any(isinstance(st, ast.FunctionDef) and st.name == "__setitem__" for st in cls.body):
        ctx.note("MultiVector has no __setitem__: no in-place update API, the rule is vacuous")
    constructors = {"__new__", "__init__", "fromkeysvalues", "frommatrix", "fromsignature", "__setitem__", "__setstate__"}
    for st in cls.body:
        if not isinstance(st, ast.FunctionDef):
            continue
        self_name = params(st)[0] if params(st) else "self"
        decos = {un(d).split("(")[0] for d in st.decorator_list}
        memo = bool(decos & MEMO_DECORATORS)
        manual = None
        instance_dicts = (f"{self_name}.__dict__", f"vars({self_name})")
        if not memo and st.name not in constructors:
            for n in walk_shallow(st):
                tg = n.targets if isinstance(n, ast.Assign) else [n.target] if isinstance(n, (ast.AugAssign, ast.AnnAssign)) else []
                for t in tg:
                    if isinstance(t, ast.Attribute) and un(t.value) == self_name and t.attr not in ("_values", "_keys"):
                        manual = t.attr
                    if isinstance(t, ast.Subscript) and un(t.value) in instance_dicts:
                        manual = un(t.slice)
                if isinstance(n, ast.Call) and (call_name(n) or "") in ("setattr", "object.__setattr__") and n.args and un(n.args[0]) == self_name:
                    manual = un(n.args[1]) if len(n.args) > 1 else "?"
                # the instance dictionary written through its mapping interface, directly or through a local alias
                if isinstance(n, ast.Call) and isinstance(n.func, ast.Attribute) and n.func.attr in ("setdefault", "update", "__setitem__") \
                        and un(n.func.value) in instance_dicts:
                    manual = un(n.args[0]) if n.args else "?"
            # a mutable object kept in the instance dictionary and filled through a local name
            aliases = {}
            for n in walk_shallow(st):
                if isinstance(n, ast.Assign) and len(n.targets) == 1 and isinstance(n.targets[0], ast.Name):
                    v = n.value
                    if isinstance(v, ast.Call) and isinstance(v.func, ast.Attribute) and v.func.attr in ("setdefault", "get") \
                            and un(v.func.value) in instance_dicts and v.args:
                        aliases[n.targets[0].id] = un(v.args[0])
                    elif isinstance(v, ast.Subscript) and un(v.value) in instance_dicts:
                        aliases[n.targets[0].id] = un(v.slice)
            for n in walk_shallow(st):
                tg = n.targets if isinstance(n, ast.Assign) else [n.target] if isinstance(n, ast.AugAssign) else []
                for t in tg:
                    if isinstance(t, ast.Subscript) and isinstance(t.value, ast.Name) and t.value.id in aliases:
                        manual = f"__dict__[{aliases[t.value.id]}][...]"
                if isinstance(n, ast.Call) and isinstance(n.func, ast.Attribute) and isinstance(n.func.value, ast.Name) \
                        and n.func.value.id in aliases and n.func.attr in ("setdefault", "update", "append", "__setitem__"):
                    manual = f"__dict__[{aliases[n.func.value.id]}].{n.func.attr}(...)"
        if not memo and manual is None:
            continue
        c = f"{cq}.{st.name}#memo"
        reads = _value_reads(repo, cq, st, self_name)
        if reads is None:
            ctx.ok(c, st, memo="decorator" if memo else f"stores self.{manual}", reads="keys / algebra only")
        elif st.name in ACCEPTED_VALUE_MEMOS and memo:
            ctx.ok(c, st, memo="decorator", reads=reads, accepted=ACCEPTED_VALUE_MEMOS[st.name])
        else:
            how = "is memoised" if memo else f"stores its result on the object (self.{manual})"
            ctx.violation(c, f"MultiVector.{st.name} {how} but reads the coefficient values ({reads}): after an in-place update "
                             f"x[idx] = y of the same object the remembered result is stale, so what an operation returns depends "
                             f"on what was computed before", st)


# --------------------------------------------------------------------------- the algebra owns its metric
@rule("C09.owns-signature", props=["C09", "C18", "C01"], min_instances=2, mutants=[
    ("the caller's signature array is kept, not copied", ("algebra", "            self.signature = np.array(self.signature)\n        else:", "            self.signature = np.asarray(self.signature)\n        else:")),
    ("the caller's signature is kept as given", ("algebra", "            self.signature = np.array(self.signature)\n        else:", "            pass\n        else:")),
])
def owns_signature(ctx):
    """The signature an algebra keeps is its own copy: the sign table is computed when the algebra is created, the
    matrix basis and the lazy tables of large algebras later, so a signature object shared with the caller (an ndarray
    that is refilled, a list that is edited) would make them follow different metrics."""
    from .c01 import build_algebra
    from ..absint import Raised
    from ..astx import NoValue
    fn = ctx.func("algebra.Algebra.__post_init__")
    for given in ([1, -1, 1], [0, 1, 1, -1]):
        c = f"algebra.Algebra.__post_init__#signature={given}"
        handed = list(given)
        try:
            it, alg = build_algebra(ctx.repo, signature=handed)
        except NoValue as exc:
            raise Unknown(c, str(exc), fn)
        except Raised as r:
            ctx.violation(c, f"constructing the algebra raises {r.name}", fn)
            continue
        kept = alg.attrs.get("signature")
        if kept is handed:
            ctx.violation(c, "the algebra keeps the caller's signature object itself: when the caller changes it afterwards, whatever is "
                             "computed lazily (matrix basis, sign table above six dimensions) follows another metric than what was computed "
                             "at construction", fn)
        elif not isinstance(kept, list) or list(kept) != given:
            ctx.violation(c, f"the algebra keeps signature {kept!r} for the given {given}", fn)
        else:
            ctx.ok(c, fn)


# --------------------------------------------------------------------------- every algebra owns its operator dictionaries
@rule("C09.own-operator-dicts", props=["C09", "C02", "C13", "C14", "C03", "C04", "C05", "C06", "C07", "C01"], min_instances=3, mutants=[
    ("a registry handed to the constructor is kept", ("algebra", "        self.registry = {f.name: f.type(name=f.name, algebra=self, **f.metadata)\n                         for f in fields(self) if 'codegen' in f.metadata}",
                                                        "        if not self.registry:\n            self.registry = {f.name: f.type(name=f.name, algebra=self, **f.metadata)\n                             for f in fields(self) if 'codegen' in f.metadata}")),
    ("operator dictionaries are bound to the class, not the instance", ("algebra", "            setattr(self, name, operator_dict)", "            setattr(type(self), name, operator_dict)")),
    ("operator dictionaries are created without their algebra", ("algebra", "f.type(name=f.name, algebra=self, **f.metadata)", "f.type(name=f.name, algebra=None, **f.metadata)")),
    ("the handed-in registry is updated in place", ("algebra", "        self.registry = {f.name: f.type(name=f.name, algebra=self, **f.metadata)\n                         for f in fields(self) if 'codegen' in f.metadata}", "        self.registry.update({f.name: f.type(name=f.name, algebra=self, **f.metadata)\n                              for f in fields(self) if 'codegen' in f.metadata})")),
])
def own_operator_dicts(ctx):
    """After construction - also when `registry` / `numspace` were handed to the constructor, as
    dataclasses.replace(alg, ...) does - every operator field of the algebra is an operator dictionary of the
    declared class, created for THIS algebra object under the field's name, and the same object is in `registry`."""
    from .c01 import build_algebra
    from .c14 import dataclass_fields
    from ..absint import PyFunc, Raised, ClassRef, Obj
    from ..astx import NoValue
    repo = ctx.repo
    fn = ctx.func("algebra.Algebra.__post_init__")
    flds = dataclass_fields(repo, "algebra.Algebra")
    opfields = {f.attrs["name"]: f for f in flds if "codegen" in f.attrs["metadata"]}
    if len(opfields) < 20:
        raise Unknown("algebra.Algebra", f"only {len(opfields)} operator fields recognised", fn)
    for label in ("fresh", "registry of another algebra (dataclasses.replace)", "partial foreign registry"):
        c = f"algebra.Algebra.__post_init__#{label}"
        foreign_alg = Obj("Algebra", {"fmt": "<another algebra>"})
        foreign = {n: Obj(f.attrs["type"].name, {"name": n, "algebra": foreign_alg, "fmt": f"<foreign {n}>"}) for n, f in opfields.items()}
        init = {} if label == "fresh" else dict(foreign) if "replace" in label else {"gp": foreign["gp"], "inv": foreign["inv"]}
        created = []
        handed = dict(init)        # the dictionary object the constructor receives (it belongs to the other algebra)

        def hook(cname, args, kwargs, _created=created):
            if cname in {f.attrs["type"].name for f in opfields.values()}:
                o = Obj(cname, dict(kwargs, fmt=f"<{cname} {kwargs.get('name')}>"))
                _created.append(o)
                return o
            return None
        try:
            it, alg = build_algebra(repo, p=2, q=1, _prepare=lambda it_, alg_: (
                it_.standins.__setitem__("dataclasses.fields", PyFunc(lambda o: list(flds), "fields", True)),
                alg_.attrs.__setitem__("registry", handed),
                alg_.attrs.__setitem__("numspace", {"stale_name": Obj("function", {"fmt": "<stale>"})} if init else {}),
                setattr(it_, "class_call_hook", _chain_hook(it_.class_call_hook, hook))))
        except NoValue as exc:
            raise Unknown(c, str(exc), fn)
        except Raised as r:
            ctx.violation(c, f"constructing the algebra raises {r.name}", fn)
            continue
        problems = []
        reg = alg.attrs.get("registry")
        if not isinstance(reg, dict):
            raise Unknown(c, f"registry is {reg!r}", fn)
        for n, f in opfields.items():
            od = alg.attrs.get(n)
            if not isinstance(od, Obj) or od.kind != f.attrs["type"].name:
                problems.append(f"field {n} holds {od!s}, not a {f.attrs['type'].name}")
            elif od.attrs.get("algebra") is not alg:
                problems.append(f"the operator dictionary {n} belongs to {od.attrs.get('algebra')!s}, not to the algebra being constructed "
                                f"(its code is generated with the other algebra's sign table and options)")
            elif od.attrs.get("name") != n:
                problems.append(f"the operator dictionary in field {n} is named {od.attrs.get('name')!r}")
            elif reg.get(n) is not od:
                problems.append(f"registry[{n!r}] is not the operator dictionary bound to the field {n}")
            if len(problems) >= 3:
                break
        if not problems and init and (set(handed) != set(init) or any(handed[k] is not init[k] for k in init)):
            changed = sorted(k for k in set(handed) | set(init) if handed.get(k) is not init.get(k))
            problems.append(f"the registry dictionary handed to the constructor is modified in place ({len(changed)} entries, e.g. "
                            f"{changed[:3]}): it is the registry of the algebra this one was derived from, whose operators now belong to "
                            f"the new algebra")
        if problems:
            ctx.violation(c, "; ".join(problems), fn)
        else:
            ctx.ok(c, fn, operator_fields=len(opfields))


def _chain_hook(prev, hook):
    def chained(cname, args, kwargs):
        r = hook(cname, args, kwargs)
        if r is not None:
            return r
        return prev(cname, args, kwargs) if prev is not None else None
    return chained


# --------------------------------------------------------------------------- no hidden module-level state
MUTABLE_CTORS = {"dict", "list", "set", "defaultdict", "OrderedDict", "Counter", "deque", "WeakValueDictionary", "WeakKeyDictionary"}


def module_state_writes(repo):
    """Functions that mutate a module-level mutable container of their own module: [(module, qual, node, name)]."""
    out = []
    for mname, mod in repo.modules.items():
        containers = set()
        for st in mod.tree.body:
            if isinstance(st, (ast.Assign, ast.AnnAssign)):
                v = st.value
                tg = st.targets if isinstance(st, ast.Assign) else [st.target]
                if isinstance(v, (ast.Dict, ast.List, ast.Set, ast.ListComp, ast.DictComp, ast.SetComp)) or (
                        isinstance(v, ast.Call) and (call_name(v) or "").split(".")[-1] in MUTABLE_CTORS):
                    for t in tg:
                        if isinstance(t, ast.Name):
                            containers.add(t.id)
        if not containers:
            continue
        for _, qual, fn in [x for x in repo.all_functions() if x[0] == mname]:
            local = {a.arg for a in fn.args.args + fn.args.kwonlyargs + fn.args.posonlyargs}
            for n in walk_shallow(fn):
                if isinstance(n, ast.Assign):
                    for t in n.targets:
                        if isinstance(t, ast.Name):
                            local.add(t.id)
            for n in walk_shallow(fn):
                name = None
                if isinstance(n, (ast.Assign, ast.AugAssign)):
                    for t in (n.targets if isinstance(n, ast.Assign) else [n.target]):
                        if isinstance(t, ast.Subscript) and isinstance(t.value, ast.Name):
                            name = t.value.id
                elif isinstance(n, ast.Call) and isinstance(n.func, ast.Attribute) and isinstance(n.func.value, ast.Name) \
                        and n.func.attr in ("setdefault", "update", "append", "extend", "add", "pop", "clear", "insert", "__setitem__"):
                    name = n.func.value.id
                elif isinstance(n, ast.Global):
                    for g in n.names:
                        out.append((mname, qual, n, g))
                if name in containers and name not in local:
                    out.append((mname, qual, n, name))
    return out


@rule("C09.module-state", props=["C09", "C18", "C14", "C05", "C08", "C03"], min_instances=2, mutants=[
    ("normalized() silences numpy's floating point errors for the whole process", ("multivector", "        \"\"\" Normalized version of this multivector. \"\"\"\n        return self / self.norm()", "        \"\"\" Normalized version of this multivector. \"\"\"\n        import numpy as np\n        np.seterr(divide='ignore', invalid='ignore')\n        return self / self.norm()")),
    ("matrix basis shared between algebra instances by (p, q, r)", [
        ("algebra", "operation_field = partial(field, default_factory=dict, init=False, repr=False, compare=False)", "operation_field = partial(field, default_factory=dict, init=False, repr=False, compare=False)\n_matrix_basis_cache = {}"),
        ("algebra", "        return matrix_rep(self.p, self.q, self.r, signature=self.signature, blades=blades)", "        pqr = (self.p, self.q, self.r)\n        if pqr not in _matrix_basis_cache:\n            _matrix_basis_cache[pqr] = matrix_rep(*pqr, signature=self.signature, blades=blades)\n        return _matrix_basis_cache[pqr]")]),
])
def module_state(ctx):
    """No function of the package keeps results in module-level mutable state: whatever is remembered lives on the
    algebra / multivector object it belongs to, so one object's history cannot leak into another's results."""
    repo = ctx.repo
    hits = module_state_writes(repo)
    for mname, qual, node, name in hits:
        ctx.violation(f"{qual}#module-state:{name}", f"{qual} stores into the module-level container {name!r} ({un(node)[:70]}): "
                      f"results are remembered across algebra instances under a key that need not determine them, so what "
                      f"an operation returns depends on which algebras were used before", node, module=mname)
    if not hits:
        ctx.ok("package#no-module-state", None, module="algebra", modules=len(repo.modules))
    # ... and no function of the package changes a process-wide setting of the interpreter or of numpy: how the user's own
    # later operations behave (raise / warn / return nan, print, recurse) would depend on which kingdon calls ran before
    setters = process_setting_writes(repo)
    for mname, qual, node, what in setters:
        ctx.violation(f"{qual}#process-setting:{what}", f"{qual} calls {what} ({un(node)[:70]}) without restoring it: a setting of the whole "
                      f"process is changed for good, so the outcome of later operations (a division by zero that raised now returns nan, "
                      f"warnings that vanish, ...) depends on which operations ran before", node, module=mname)
    if not setters:
        ctx.ok("package#no-process-settings", None, module="algebra", modules=len(repo.modules))


PROCESS_SETTERS = {"seterr", "seterrcall", "set_printoptions", "setbufsize", "simplefilter", "filterwarnings", "resetwarnings",
                   "setrecursionlimit", "setswitchinterval", "seed", "setlocale", "setcontext", "set_string_function", "putenv", "chdir",
                   "init_printing", "setprofile", "settrace"}
SCOPED_CONTEXTS = {"errstate", "catch_warnings", "localcontext", "printoptions"}


def process_setting_writes(repo):
    """(module, function, call node, name) for calls of process-wide setters outside a `with <scoped context>` block."""
    out = []
    for mname, qual, fn in repo.all_functions():
        for n in ast.walk(fn):
            if not isinstance(n, ast.Call):
                continue
            name = (call_name(n) or "").split(".")[-1]
            if name not in PROCESS_SETTERS:
                continue
            base = (call_name(n) or "")
            if "." not in base and name == "seed":
                continue                                   # a local helper of that name, not random.seed / np.random.seed
            scoped = False
            p = getattr(n, "_parent", None)
            while p is not None and p is not fn:
                if isinstance(p, ast.With) and any(isinstance(i.context_expr, ast.Call) and (call_name(i.context_expr) or "").split(".")[-1] in SCOPED_CONTEXTS
                                                   for i in p.items):
                    scoped = True
                p = getattr(p, "_parent", None)
            # a saved-and-restored setting: old = np.seterr(...) ... finally: np.seterr(**old)
            restored = any(isinstance(t, ast.Try) and t.finalbody and any(isinstance(c, ast.Call) and (call_name(c) or "").split(".")[-1] == name
                                                                             for f_ in t.finalbody for c in ast.walk(f_)) for t in ast.walk(fn))
            if not scoped and not restored:
                out.append((mname, qual, n, base or name))
        for n in ast.walk(fn):
            # os.environ[...] = ..., os.environ.update(...)
            if isinstance(n, ast.Subscript) and isinstance(n.ctx, (ast.Store, ast.Del)) and un(n.value).endswith("environ"):
                out.append((mname, qual, n, "os.environ[...]"))
    return out


@fixture_for("C09.module-state")
def _fx_module_state(ctx):
    from ..model import Repo
    src = "_cache = {}\n\ndef f(k):\n    if k not in _cache:\n        _cache[k] = k * 2\n    return _cache[k]\n"
    repo = Repo({"algebra": ("fixture", src)}, {}, "fixture")
    for mname, qual, node, name in module_state_writes(repo):
        ctx.violation(f"{qual}#module-state:{name}", "fixture")
