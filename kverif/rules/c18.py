"""C18 - Matrix representations are faithful."""
from __future__ import annotations

import ast
from fractions import Fraction

from ..astx import un, NoValue, Poly
from ..absint import Obj, Unk, PyFunc, ClassRef
from ..core import rule, fixture_for, Unknown
from ..products import PV, pv_atom, poly_of_value
from ..symenv import make_interp, rep_algebra, mv_obj, Val, val_repr

INFO = {
    "id": "C18",
    "technique": "abstract interpretation of asmatrix / frommatrix / expr_as_matrix with symbolic tokens; symbolic "
                 "Kronecker-factor arithmetic over the 2x2 integer literals of matrixreps (exact, by the mixed-product "
                 "rule), also through Algebra.matrix_basis on default, named and hand-written bases",
    "explanation": "Clause-level. Decided: asmatrix is sum(v * M[canonical position of k]) over the multivector's own "
                   "items - linear by construction and indexed by canonical position; frommatrix hands the first column to "
                   "the constructor as a key-less full list, which the constructor pairs with the canonical key tuple (one "
                   "index space on both sides); the generator matrices built by matrix_rep from the five 2x2 literals, "
                   "evaluated as symbolic Kronecker products, square to the signature entry of their position, anticommute "
                   "pairwise, and the higher-grade matrices are the ascending products of their generators in canonical "
                   "(combinations) order - for several signatures with positive, negative and null generators; "
                   "Algebra.matrix_basis (what asmatrix indexes) holds, at the canonical position of every blade of default, "
                   "named (2DPGA, 3DPGA) and hand-written bases built one after another in one process, the product of the "
                   "generator matrices in the blade's spelled order, and the similarity transform is stacked from the first "
                   "columns of these same matrices in the same order (fixed finding F7: the basis was ignored); "
                   "expr_as_matrix stores coeff(y_i, x_j) at A[i, j] and re-keys y by res_like. the first columns of the blade matrices are orthonormal "
                   "(Kronecker-factor inner products), so the similarity transform is orthogonal and the first column of "
                   "asmatrix(x) is the coefficient vector of x (which is what makes asmatrix injective and frommatrix its "
                   "inverse). NOT decided: sympy.collect / coeff.",
    "decided": ["C18.asmatrix", "C18.frommatrix", "C18.kronecker", "C18.expr-pairing", "C18.expr-placeholders",
                "C14.matrix-basis", "C09.module-state"],
    "not_decided": ["injectivity beyond: the first columns of the blade matrices are orthonormal (decided), hence the first column of asmatrix(x) is the coefficient vector", "sympy.collect / coeff / lambdify"],
    "assumptions": ["M4: (A kron B)(C kron D) = AC kron BD", "a similarity transform preserves products"],
}


# --------------------------------------------------------------------------- asmatrix / frommatrix
def lin(coeffs):
    """Linear combination of matrix tokens: {index: Poly}."""
    o = Obj("lin", {"coeffs": dict(coeffs), "fmt": "LIN"})

    def binop(op, other, refl):
        if op == "Add":
            if isinstance(other, (int, float)) and other == 0:
                return o
            if isinstance(other, Obj) and other.kind == "lin":
                res = dict(coeffs)
                for k, v in other.attrs["coeffs"].items():
                    res[k] = res.get(k, Poly()) + v
                return lin(res)
        if op == "Mult":
            p = poly_of_value(other)
            if p is not None:
                return lin({k: v * p for k, v in coeffs.items()})
        return Unk("matrix arithmetic")
    o.methods["binop"] = binop
    return o


@rule("C18.asmatrix", props=["C18"], min_instances=3, mutants=[
    ("the empty multivector gives the number 0", ("multivector", "        if not self.keys():\n            return 0 * self.algebra.matrix_basis[0]  # The zero matrix, not the number 0.\n", "")),
    ("asmatrix indexes by binary key", ("multivector", "        return sum(v * self.algebra.matrix_basis[bin2index[k]] for k, v in self.items())", "        return sum(v * self.algebra.matrix_basis[k] for k, v in self.items())")),
    ("asmatrix indexes by storage position", ("multivector", "        return sum(v * self.algebra.matrix_basis[bin2index[k]] for k, v in self.items())", "        return sum(v * self.algebra.matrix_basis[i] for i, (k, v) in enumerate(self.items()))")),
])
def asmatrix(ctx):
    """asmatrix = sum_k v_k * M[canonical position of k] (linear, canonical index space)."""
    repo = ctx.repo
    q = "multivector.MultiVector.asmatrix"
    fn = ctx.func(q)
    for label, keys in (("sparse shuffled", (4, 3, 0, 7)), ("full binary order", tuple(range(8))), ("no stored blade", ())):
        c = f"{q}#{label}"
        alg = rep_algebra(3)
        canon = list(alg.attrs["canon2bin"].values())
        alg.attrs["matrix_basis"] = [lin({i: Poly.const(1)}) for i in range(8)]
        mv = mv_obj(alg, keys, [pv_atom(f"v{k}") for k in keys])
        it = make_interp(repo)
        try:
            out = it.run(q, [mv])
        except NoValue as exc:
            raise Unknown(c, str(exc), fn)
        if not keys and out[0] == "return" and isinstance(out[1], (int, float)) and not isinstance(out[1], bool):
            ctx.violation(c, f"asmatrix of a multivector that stores no blade (e0*e0, x - x) is the NUMBER {out[1]!r}, not the zero matrix: "
                             f"frommatrix cannot read it back and it is not the product of the factors' matrices as an object", fn)
            continue
        if out[0] == "raise" or not (isinstance(out[1], Obj) and out[1].kind == "lin"):
            raise Unknown(c, f"asmatrix gives {out!r}", fn)
        got = {k: v for k, v in out[1].attrs["coeffs"].items() if not v.is_zero()}
        want = {canon.index(k): Poly.atom(f"v{k}") for k in keys}
        if got == want:
            ctx.ok(c, fn, terms=len(want))
        else:
            ctx.violation(c, f"asmatrix of a multivector with keys {keys} is {got} (matrix index -> coefficient), expected "
                             f"each coefficient on the matrix at the canonical position of its blade: {want}", fn)


@rule("C18.frommatrix", props=["C18"], min_instances=3, mutants=[
    ("keys rebuilt by (grade, binary key) instead of the canonical order", ("multivector", "        obj = cls(algebra=algebra, values=matrix[..., 0])\n        return obj", "        keys = tuple(sorted(range(len(algebra)), key=lambda k: (bin(k).count('1'), k)))\n        return cls.fromkeysvalues(algebra, keys=keys, values=matrix[..., 0])")),
    ("frommatrix reads the first row", ("multivector", "        obj = cls(algebra=algebra, values=matrix[..., 0])", "        obj = cls(algebra=algebra, values=matrix[0, ...])")),
])
def frommatrix(ctx):
    """frommatrix reads the first column as a key-less full list, which is paired with the canonical keys."""
    repo = ctx.repo
    q = "multivector.MultiVector.frommatrix"
    fn = ctx.func(q)
    from .c02 import BASIS_2DPGA
    # in three dimensions the canonical order happens to be (grade, binary key) order; in four it is not, and a custom basis
    # has an order of its own
    for label, alg in (("default 3-D", rep_algebra(3)), ("default 4-D", rep_algebra(4)), ("custom basis 2DPGA-like", rep_algebra(3, basis=BASIS_2DPGA))):
        c = q if label == "default 3-D" else f"{q}#{label}"
        canon = tuple(alg.attrs["canon2bin"].values())
        seen = {}

        def getitem(idx):
            seen["idx"] = idx
            col = Obj("column", {"fmt": "COLUMN"}, {"__len__": lambda: len(canon), "__iter__": lambda: [Val(f"c{i}") for i in range(len(canon))]})
            return col
        matrix = Obj("matrix", {"fmt": "MATRIX"}, getitem=getitem)
        it = make_interp(repo)
        it.algebra = alg
        prev = it.class_call_hook

        def cch(name, args, kwargs):
            if name == "MultiVector":
                new = it.repo.func("multivector.MultiVector.__new__")
                return it.call_function(new, [ClassRef("MultiVector")] + list(args), kwargs, {}, "multivector")
            return prev(name, args, kwargs)
        it.class_call_hook = cch
        try:
            out = it.run(q, [ClassRef("MultiVector"), alg, matrix])
        except NoValue as exc:
            raise Unknown(c, str(exc), fn)
        if out[0] == "raise":
            ctx.violation(c, f"raises {out[1]}", fn)
            continue
        idx = seen.get("idx")
        ok_idx = isinstance(idx, tuple) and len(idx) == 2 and idx[0] is Ellipsis and idx[1] == 0
        res = out[1]
        keys = tuple(res.attrs.get("_keys", ())) if isinstance(res, Obj) else None
        vals = res.attrs.get("_values") if isinstance(res, Obj) else None
        if ok_idx and keys == canon and isinstance(vals, Obj) and vals.kind == "column":
            ctx.ok(c, fn, reads="matrix[..., 0]", keys="canonical")
        elif not ok_idx:
            ctx.violation(c, f"frommatrix reads matrix[{idx!r}] instead of the first column matrix[..., 0] "
                             f"(asmatrix puts the coefficients, in canonical order, in the first column)", fn)
        else:
            ctx.violation(c, f"{label}: the first column is paired with keys {keys}, expected the canonical key tuple {canon}", fn)


# --------------------------------------------------------------------------- Kronecker construction
def m2_mul(a, b):
    return tuple(tuple(sum(a[i][k] * b[k][j] for k in range(2)) for j in range(2)) for i in range(2))


def kron_obj(factors, coeff=1):
    """coeff * (f1 kron f2 kron ...) with 2x2 integer factors; normalised so that each factor's first non-zero
    entry is positive (the sign is moved into coeff)."""
    fs = []
    for f in factors:
        flat = [x for row in f for x in row]
        if all(x == 0 for x in flat):
            coeff = 0
            break
        lead = next(x for x in flat if x != 0)
        if lead < 0:
            f = tuple(tuple(-x for x in row) for row in f)
            coeff = -coeff
        fs.append(f)
    if coeff == 0:
        fs = []
    o = Obj("kron", {"factors": tuple(fs), "coeff": coeff, "fmt": f"{coeff}*kron{tuple(fs)}"})

    def binop(op, other, refl):
        if op == "MatMult" and isinstance(other, Obj) and other.kind == "kron":
            a, b = (other, o) if refl else (o, other)
            fa, fb = a.attrs["factors"], b.attrs["factors"]
            if a.attrs["coeff"] == 0 or b.attrs["coeff"] == 0:
                return kron_obj((), 0)
            if len(fa) != len(fb):
                return Unk("kron shape")
            return kron_obj([m2_mul(x, y) for x, y in zip(fa, fb)], a.attrs["coeff"] * b.attrs["coeff"])
        if op == "MatMult" and isinstance(other, Obj) and other.kind in ("ordering", "ordering.T", "OR"):
            return NotImplemented
        if op == "Mult" and isinstance(other, int) and not isinstance(other, bool):
            return kron_obj(o.attrs["factors"], o.attrs["coeff"] * other)         # an integer multiple (a sign, mostly)
        return Unk("kron arith")
    o.methods["binop"] = binop
    o.methods["unop"] = lambda op: kron_obj(o.attrs["factors"], -o.attrs["coeff"]) if op == "USub" else (o if op == "UAdd" else Unk("kron unop"))
    o.getitem = lambda idx: Obj("column-of", {"of": o, "index": idx})
    return o


def kron_key(o):
    return (o.attrs["coeff"], o.attrs["factors"])


def first_column_gram(bases):
    """<c_i, c_j> for the first columns c_i of Kronecker products (the first column of a Kronecker product is the
    Kronecker product of the first columns, and inner products multiply factor-wise).  Returns the first (i, j, value)
    that deviates from the identity matrix, or None."""
    cols = []
    for b in bases:
        if b.attrs["coeff"] == 0:
            cols.append((0, ()))
        else:
            cols.append((b.attrs["coeff"], tuple((f[0][0], f[1][0]) for f in b.attrs["factors"])))
    for i in range(len(cols)):
        for j in range(i, len(cols)):
            (ca, fa), (cb, fb) = cols[i], cols[j]
            if ca == 0 or cb == 0 or len(fa) != len(fb):
                v = 0
            else:
                v = ca * cb
                for u, w in zip(fa, fb):
                    v *= u[0] * w[0] + u[1] * w[1]
            if v != (1 if i == j else 0):
                return (i, j, v)
    return None


NARROW_DTYPES = {"int8", "int16", "int32", "uint8", "uint16", "uint32", "float16", "float32", "bool", "bool_", "i1", "i2", "i4", "u1", "u2", "u4", "f2", "f4", "?"}


def similar(base, ordering, dtype=None):
    """O @ R @ O.T; an element type is remembered when the code casts the matrix."""
    o = Obj("similar", {"base": base, "ordering": ordering, "dtype": dtype})

    def astype(t, *a, **k):
        name = t if isinstance(t, str) else t.attrs.get("name") if isinstance(t, Obj) and t.kind == "dtype" else getattr(t, "name", None)
        if name is None:
            raise NoValue(f"astype({t!r})")
        return similar(base, ordering, name)
    o.methods["astype"] = astype
    return o


def narrow_dtype_problem(objs):
    for o in objs:
        if isinstance(o, Obj) and o.kind == "similar" and o.attrs.get("dtype") in NARROW_DTYPES:
            return (f"the matrices are cast to {o.attrs['dtype']}: asmatrix() multiplies them by the coefficients and sums, so with plain int coefficients "
                    f"(or products of matrices) beyond the range of that type the entries wrap around or raise - the representation is not linear any more")
    return None


def numpy_standin():
    def array(x, *a, **k):
        if isinstance(x, (list, tuple)) and len(x) == 2 and all(isinstance(r, (list, tuple)) and len(r) == 2 for r in x):
            return kron_obj([tuple(tuple(r) for r in x)])
        return Unk("np.array")

    def kron(a, b):
        fa = a.attrs["factors"] if isinstance(a, Obj) else ()
        ca = a.attrs["coeff"] if isinstance(a, Obj) else a
        fb = b.attrs["factors"] if isinstance(b, Obj) else ()
        cb = b.attrs["coeff"] if isinstance(b, Obj) else b
        if not isinstance(ca, int) or not isinstance(cb, int):
            return Unk("kron")
        return kron_obj(list(fa) + list(fb), ca * cb)

    def vstack(cols):
        o = Obj("ordering", {"fmt": "O", "cols": list(cols) if isinstance(cols, (list, tuple)) else None})
        t = Obj("ordering.T", {"fmt": "O.T"})
        o.attrs["T"] = t

        def binop(op, other, refl):
            if op == "MatMult" and not refl and isinstance(other, Obj) and other.kind == "kron":
                r = Obj("OR", {"base": other})
                r.methods["binop"] = lambda op2, other2, refl2: (similar(other, o) if op2 == "MatMult" and other2 is t and not refl2 else Unk("similarity"))
                return r
            return Unk("ordering arith")
        o.methods["binop"] = binop
        return o
    def eye(n, *a, **k):
        if n == 1:
            return kron_obj([])                 # the 1 x 1 identity: the empty Kronecker product
        if n == 2:
            return kron_obj([((1, 0), (0, 1))])
        return Unk("np.eye")
    table = {"array": PyFunc(array, "np.array", True), "kron": PyFunc(kron, "np.kron", True), "vstack": PyFunc(vstack, "np.vstack", True),
             "eye": PyFunc(eye, "np.eye", True), "identity": PyFunc(eye, "np.identity", True), "int": ClassRef("int") if False else Obj("dtype", {"name": "int64", "fmt": "int"})}
    for n in ("int8", "int16", "int32", "int64", "uint8", "float16", "float32", "float64", "bool_", "complex128", "intp"):
        table[n] = Obj("dtype", {"name": n, "fmt": n})
    return Obj("module:numpy", table)


SIGNATURES = {"[] (no generator)": [], "[+,+,+]": [1, 1, 1], "[0,+,-]": [0, 1, -1], "[-,0,+,+]": [-1, 0, 1, 1], "[+,-]": [1, -1], "[0,0,+]": [0, 0, 1]}


@rule("C18.kronecker", props=["C18"], min_instances=5, mutants=[
    ("basis matrices stored as int8", ("matrixreps", "    return [O @ Ri @ O.T for Ri in Rs]", "    return [(O @ Ri @ O.T).astype(np.int8) for Ri in Rs]")),
    ("negative generator literal squares to +1", ("matrixreps", "N2 = np.array([[0,1], [-1,0]])", "N2 = np.array([[0,1], [1,0]])")),
    ("trailing factors are identities (generators commute)", ("matrixreps", "        mats.extend([Ip for _ in range(d - i - 1)])", "        mats.extend([I for _ in range(d - i - 1)])")),
    ("null generators get the positive matrix", ("matrixreps", "            if s == 0:\n                Ss.append(SsR.pop(0))", "            if s == 0:\n                Ss.append(SsP.pop(0) if SsP else SsR.pop(0))")),
    ("higher grades multiplied in descending order", ("matrixreps", "        Rs_grade_i = [reduce(lambda x, y: x @ y, comb)", "        Rs_grade_i = [reduce(lambda x, y: y @ x, comb)")),
    ("Ip literal is the identity", ("matrixreps", "Ip2 = np.array([[1,0], [0,-1]])", "Ip2 = np.array([[1,0], [0,1]])")),
])
def kronecker(ctx):
    """Generator matrices square to the signature and anticommute; higher-grade matrices are ascending products
    in canonical order (symbolic Kronecker-factor arithmetic over the 2x2 literals)."""
    from itertools import combinations
    repo = ctx.repo
    q = "matrixreps.matrix_rep"
    fn = ctx.func(q)
    for label, sig in SIGNATURES.items():
        c = f"{q}#{label}"
        d = len(sig)
        it = make_interp(repo)
        it.standins["numpy"] = numpy_standin()
        try:
            out = it.run(q, [sig.count(1), sig.count(-1), sig.count(0)], {"signature": list(sig)})
        except NoValue as exc:
            raise Unknown(c, str(exc), fn)
        if out[0] == "raise":
            ctx.violation(c, f"matrix_rep raises {out[1]} for signature {sig}", fn)
            continue
        if not isinstance(out[1], list):
            raise Unknown(c, f"matrix_rep gives {out!r}", fn)
        bases = [o.attrs.get("base") if isinstance(o, Obj) and o.kind == "similar" else None for o in out[1]]
        if any(b is None for b in bases):
            raise Unknown(c, "results are not similarity transforms O @ R @ O.T of Kronecker products", fn)
        problems = []
        if narrow_dtype_problem(out[1]):
            problems.append(narrow_dtype_problem(out[1]))
        if len(bases) != 2 ** d:
            problems.append(f"{len(bases)} matrices for {2 ** d} blades")
        ident = kron_obj([((1, 0), (0, 1))] * d)
        if not problems and kron_key(bases[0]) != kron_key(ident):
            problems.append("the matrix of the scalar is not the identity")
        E = bases[1:d + 1]
        for i in range(min(d, len(E))):
            sq = E[i].methods["binop"]("MatMult", E[i], False)
            want = kron_obj([((1, 0), (0, 1))] * d, sig[i])
            if kron_key(sq) != kron_key(want):
                problems.append(f"generator {i} (signature {sig[i]:+d}) squares to {sq.attrs['coeff']:+d} x {'identity' if sq.attrs['factors'] == ident.attrs['factors'] else 'non-identity'}")
            for j in range(i + 1, d):
                ab = E[i].methods["binop"]("MatMult", E[j], False)
                ba = E[j].methods["binop"]("MatMult", E[i], False)
                neg_ba = kron_obj(ba.attrs["factors"], -ba.attrs["coeff"])
                if kron_key(ab) != kron_key(neg_ba) and not (ab.attrs["coeff"] == 0 and ba.attrs["coeff"] == 0):
                    problems.append(f"generators {i} and {j} do not anticommute")
        if not problems:
            pos = d + 1
            for g in range(2, d + 1):
                for comb in combinations(range(d), g):
                    prod = E[comb[0]]
                    for k in comb[1:]:
                        prod = prod.methods["binop"]("MatMult", E[k], False)
                    if pos >= len(bases) or kron_key(bases[pos]) != kron_key(prod):
                        problems.append(f"matrix at canonical position {pos} is not the ascending product of generators {comb}")
                    pos += 1
        if problems:
            ctx.violation(c, f"signature {sig}: " + "; ".join(problems[:4]), fn)
        else:
            ctx.ok(c, fn, generators=d, blades=2 ** d)


MB_CONFIGS = ("default d=3", "default PGA d=3", "explicit signature [-1,0,1,1]", "named basis 2DPGA", "named basis 3DPGA",
              "custom basis, spelled blades", "custom basis, permuted generators", "custom basis, only an orientation differs",
              "custom basis, an even permutation of the top blade")


def _mb_kwargs(repo, label):
    from .c01 import read_named_basis
    if label.startswith("named basis "):
        basis, pqr = read_named_basis(repo, label.split()[-1])
        return dict(p=pqr[0], q=pqr[1], r=pqr[2], basis=basis)
    return {"default d=3": dict(p=2, q=1), "default PGA d=3": dict(p=2, r=1),
            "explicit signature [-1,0,1,1]": dict(signature=[-1, 0, 1, 1]),
            "custom basis, spelled blades": dict(p=2, r=1, basis=["e", "e1", "e0", "e2", "e10", "e02", "e21", "e021"]),
            "custom basis, permuted generators": dict(p=2, q=1, basis=["e", "e2", "e3", "e1", "e23", "e31", "e12", "e123"]),
            # every blade at its default position, one of them spelled with the other orientation
            "custom basis, only an orientation differs": dict(p=3, basis=["e", "e1", "e2", "e3", "e12", "e31", "e23", "e123"]),
            # unsorted spellings of BOTH parities: e231 is an even permutation of e123 (same orientation), e31 an odd one of e13
            "custom basis, an even permutation of the top blade": dict(p=2, q=1, basis=["e", "e1", "e2", "e3", "e12", "e31", "e23", "e231"]),
            }[label]


@rule("C14.matrix-basis", props=["C14", "C18"], min_instances=9, mutants=[
    ("a custom basis with the default blade sets is taken for the default basis", ("matrixreps", "    if blades is not None:\n        # A custom basis", "    if blades is not None and [tuple(sorted(blade)) for blade in blades] != [comb for i in range(d + 1) for comb in combinations(range(d), r=i)]:\n        # A custom basis")),
    ("null generator literal transposed (first column zero)", ("matrixreps", "Z2 = np.array([[0,0], [1,0]])", "Z2 = np.array([[0,1], [0,0]])")),
    ("matrix basis ignores the basis of the algebra", ("algebra", "        return matrix_rep(self.p, self.q, self.r, signature=self.signature, blades=blades)", "        return matrix_rep(self.p, self.q, self.r, signature=self.signature)")),
    ("blades multiplied in descending spelled order", ("matrixreps", "        Rs = [reduce(lambda x, y: x @ y, (Es[j] for j in blade), Iden) for blade in blades]", "        Rs = [reduce(lambda x, y: y @ x, (Es[j] for j in blade), Iden) for blade in blades]")),
    ("generator labels taken without the start index", ("algebra", "        blades = [tuple(int(ei, base=16) - self.start_index for ei in eJ[1:]) for eJ in self.canon2bin]", "        blades = [tuple(int(ei, base=16) - 1 for ei in eJ[1:]) for eJ in self.canon2bin]")),
    ("blades listed in binary-key order", ("algebra", " for ei in eJ[1:]) for eJ in self.canon2bin]", " for ei in eJ[1:]) for eJ in self.bin2canon.values()]")),
    ("ordering matrix from the default blades", ("matrixreps", "    if blades is not None:\n        # A custom basis: position and orientation of every basis-blade are those of its spelling.\n        Rs = [reduce(lambda x, y: x @ y, (Es[j] for j in blade), Iden) for blade in blades]\n\n    O = ordering_matrix(Rs)",
                                                   "    O = ordering_matrix(Rs)\n    if blades is not None:\n        # A custom basis: position and orientation of every basis-blade are those of its spelling.\n        Rs = [reduce(lambda x, y: x @ y, (Es[j] for j in blade), Iden) for blade in blades]\n")),
])
def matrix_basis(ctx):
    """Algebra.matrix_basis, which asmatrix / frommatrix index by CANONICAL POSITION: the matrix at the position of
    blade eJ is the product of the generator matrices in the order in which J is spelled in the algebra's basis, the
    generator matrices square to their signature entry and anticommute, the scalar is the identity, and the
    similarity transform is stacked from the first columns of these same matrices in the same order.  Algebra's
    __post_init__ and matrix_basis and matrix_rep are interpreted from source with symbolic Kronecker arithmetic."""
    from .c01 import build_algebra
    from ..absint import Raised
    repo = ctx.repo
    q = "algebra.Algebra.matrix_basis"
    fn = ctx.func(q)
    shared_module_state = {}     # the configurations are built one after another in ONE process: module-level state persists
    for label in MB_CONFIGS:
        c = f"{q}#{label}"
        kwargs = _mb_kwargs(repo, label)
        try:
            it, alg = build_algebra(repo, **kwargs)
            it.module_state = shared_module_state
            it.standins["numpy"] = numpy_standin()
            out = it.run(q, [alg])
        except NoValue as exc:
            raise Unknown(c, str(exc), fn)
        except Raised as r:
            ctx.violation(c, f"constructing the algebra ({label}) raises {r.name}", fn)
            continue
        if out[0] == "raise":
            ctx.violation(c, f"matrix_basis raises {out[1]} ({label})", fn)
            continue
        res = out[1]
        if not isinstance(res, (list, tuple)) or not all(isinstance(o, Obj) and o.kind == "similar" for o in res):
            raise Unknown(c, f"matrix_basis is not a list of similarity transforms O @ R @ O.T of Kronecker products: {str(res)[:80]}", fn)
        bases = [o.attrs["base"] for o in res]
        if narrow_dtype_problem(res):
            ctx.violation(c, f"{label}: " + narrow_dtype_problem(res), fn)
            continue
        names = list(alg.attrs["canon2bin"])
        d = alg.attrs["d"]
        sig = list(alg.attrs["signature"])
        start = alg.attrs["start_index"]
        problems = []
        if len(bases) != len(names):
            problems.append(f"{len(bases)} matrices for {len(names)} blades")
        else:
            ident = kron_obj([((1, 0), (0, 1))] * d)
            G = {n[1]: bases[i] for i, n in enumerate(names) if len(n) == 2}
            if kron_key(bases[names.index("e")]) != kron_key(ident):
                problems.append("the matrix at the position of the scalar is not the identity")
            for ch, g in G.items():
                sq = g.methods["binop"]("MatMult", g, False)
                s_ = sig[int(ch, 16) - start]
                if kron_key(sq) != kron_key(kron_obj([((1, 0), (0, 1))] * d, s_)):
                    problems.append(f"the matrix at the position of e{ch} (signature {s_:+d}) squares to {sq.attrs['coeff']:+d} x "
                                    f"{'identity' if sq.attrs['factors'] == ident.attrs['factors'] else 'non-identity'}")
            for a_, b_ in ((x, y) for x in G for y in G if x < y):
                ab = G[a_].methods["binop"]("MatMult", G[b_], False)
                ba = G[b_].methods["binop"]("MatMult", G[a_], False)
                if kron_key(ab) != kron_key(kron_obj(ba.attrs["factors"], -ba.attrs["coeff"])) and not (ab.attrs["coeff"] == 0 and ba.attrs["coeff"] == 0):
                    problems.append(f"the matrices of e{a_} and e{b_} do not anticommute")
            if not problems:
                for i, n in enumerate(names):
                    if len(n) < 3:
                        continue
                    prod = G[n[1]]
                    for ch in n[2:]:
                        prod = prod.methods["binop"]("MatMult", G[ch], False)
                    if kron_key(bases[i]) != kron_key(prod):
                        problems.append(f"the matrix at canonical position {i} (blade {n}) is not the product of the matrices of "
                                        f"{' '.join('e' + ch for ch in n[1:])} in that order")
            orderings = {id(o.attrs["ordering"]) for o in res}
            cols = res[0].attrs["ordering"].attrs.get("cols")
            if len(orderings) != 1 or cols is None or len(cols) != len(bases):
                problems.append("the similarity transform is not one matrix stacked from one column per blade")
            else:
                for i, col in enumerate(cols):
                    ok_col = isinstance(col, Obj) and col.kind == "column-of" and kron_key(col.attrs["of"]) == kron_key(bases[i]) \
                        and col.attrs.get("index") == (slice(None), 0)
                    if not ok_col:
                        problems.append(f"row {i} of the similarity transform is not the first column of the matrix of blade {names[i]} "
                                        f"(frommatrix reads the coefficients from the first column, in canonical order)")
                        break
        if not problems:
            dev = first_column_gram(bases)
            if dev is not None:
                i, j, v = dev
                problems.append(f"the first columns of the matrices of {names[i]} and {names[j]} have inner product {v} (expected "
                                f"{1 if i == j else 0}): the similarity transform stacked from the first columns is then not orthogonal, so "
                                f"the first column of x.asmatrix() no longer holds the coefficients of x (frommatrix does not invert "
                                f"asmatrix, distinct multivectors can share a matrix)")
        if problems:
            ctx.violation(c, f"{label}: " + "; ".join(problems[:4]) + " - asmatrix indexes matrix_basis by canonical position, so "
                             f"(a*b).asmatrix() != a.asmatrix() @ b.asmatrix() for blades of this algebra", fn)
        else:
            ctx.ok(c, fn, blades=len(names), generators=d)


# --------------------------------------------------------------------------- expr_as_matrix
@rule("C18.expr-pairing", props=["C18"], min_instances=2, mutants=[
    ("matrix filled transposed", ("matrixreps", "            A[i, j] = cv.coeff(xj)", "            A[j, i] = cv.coeff(xj)")),
    ("coefficients are read from the expression as it comes, without expanding it", ("matrixreps", "        cv = sympy.collect(yi.expand(), x.values())", "        cv = sympy.collect(yi, x.values())")),
    ("coefficients collected from the wrong row", ("matrixreps", "        cv = sympy.collect(yi.expand(), x.values())", "        cv = sympy.collect(list(y.values())[0].expand(), x.values())")),
])
def expr_pairing(ctx):
    """expr_as_matrix: A[i, j] is the coefficient of the j-th item of x in the i-th item of y; res_like re-keys y."""
    repo = ctx.repo
    q = "matrixreps.expr_as_matrix"
    fn = ctx.func(q)

    def expr_tok(name, expanded=False):
        o = Obj("expr", {"fmt": name, "name": name, "expanded": expanded})
        o.methods["expand"] = lambda *a, **k: expr_tok(name, True)
        return o
    for label, res_like_keys in (("full result", None), ("res_like", (4, 1))):
        c = f"{q}#{label}"
        alg = rep_algebra(3)
        x = mv_obj(alg, (2, 1, 4), [expr_tok("x2"), expr_tok("x1"), expr_tok("x3")])
        x.attrs["issymbolic"] = True
        y_full = mv_obj(alg, (1, 4, 2), [expr_tok("Y1"), expr_tok("Y3"), expr_tok("Y2")])
        stores = {}
        shape = {}

        def zeros(*a, **k):
            shape["shape"] = a[0] if len(a) == 1 else a
            return Obj("matrix", {"fmt": "A"}, {"setitem": lambda idx, v: stores.__setitem__(idx, v)})

        unexpanded = []

        def collect(e, syms, *a, **k):
            o = Obj("collected", {"of": e})

            def coeff(s_, *a_, **k_):
                if not (isinstance(e, Obj) and e.attrs.get("expanded")):
                    unexpanded.append(str(e))
                return Obj("coeff", {"fmt": f"coeff({e},{s_})"})
            o.methods["coeff"] = coeff
            return o

        def multivector(mapping=None, **kw):
            if isinstance(mapping, dict):
                return mv_obj(alg, tuple(mapping.keys()), list(mapping.values()))
            return Unk("multivector(...)")
        alg.methods["multivector"] = multivector
        it = make_interp(repo)
        it.algebra = alg
        it.standins["numpy"] = Obj("module:numpy", {"zeros": PyFunc(zeros, "np.zeros", True)})
        expand_fn = PyFunc(lambda e, *a, **k: e.methods["expand"]() if isinstance(e, Obj) and "expand" in e.methods else e, "sympy.expand", True)
        it.standins["sympy"] = Obj("module:sympy", {"zeros": PyFunc(zeros, "sympy.zeros", True), "collect": PyFunc(collect, "collect", True),
                                                    "sympify": PyFunc(lambda v: v, "sympify", True), "expand": expand_fn, "expand_mul": expand_fn})
        expr = Obj("function", call=lambda *a: y_full)
        kwargs = {}
        if res_like_keys:
            kwargs["res_like"] = mv_obj(alg, res_like_keys, [1, 1])
        try:
            out = it.run(q, [expr, x], kwargs)
        except NoValue as exc:
            raise Unknown(c, str(exc), fn)
        if out[0] == "raise":
            ctx.violation(c, f"raises {out[1]}", fn)
            continue
        ykeys = res_like_keys or (1, 4, 2)
        ynames = {1: "Y1", 4: "Y3", 2: "Y2"}
        want = {(i, j): f"coeff({ynames[ky]},{xn})" for i, ky in enumerate(ykeys) for j, xn in enumerate(("x2", "x1", "x3"))}
        got = {k: str(v) for k, v in stores.items()}
        yres = out[1][1] if isinstance(out[1], tuple) and len(out[1]) == 2 else None
        problems = []
        if got != want:
            bad = sorted(k for k in set(got) | set(want) if got.get(k) != want.get(k))[:3]
            problems.append(f"matrix entries {[(k, got.get(k)) for k in bad]}, expected {[(k, want.get(k)) for k in bad]}")
        if not (isinstance(yres, Obj) and tuple(yres.attrs.get("_keys", ())) == tuple(ykeys)
                and [str(v) for v in yres.attrs.get("_values", [])] == [ynames[k] for k in ykeys]):
            problems.append("the returned y is not the (res_like re-keyed) result of the expression")
        if unexpanded:
            problems.append(f"the coefficient of x_j is read with coeff() from {unexpanded[0]} as the operators returned it, not from its expansion: "
                            f"coeff() finds nothing inside a product, and the automatic simplification (sympy.simplify by default) returns factored "
                            f"coefficients such as n1*(n1*x1 + n2*x2) for a projection - those rows of A silently become 0")
        if problems:
            ctx.violation(c, "; ".join(problems), fn)
        else:
            ctx.ok(c, fn, entries=len(want))


@rule("C18.expr-placeholders", props=["C18", "C12"], min_instances=6, mutants=[
    ("placeholders are named A, B, ... whatever x is called", ("matrixreps", "alg.multivector(name=names[i], keys=mv.keys()) for i, mv in enumerate(rest)]", "alg.multivector(name=string.ascii_uppercase[i], keys=mv.keys()) for i, mv in enumerate(rest)]")),
    ("placeholders created from grades", ("matrixreps", "symbolic_rest = [alg.multivector(name=names[i], keys=mv.keys()) for i, mv in enumerate(rest)]", "symbolic_rest = [alg.multivector(name=names[i], grades=mv.grades) for i, mv in enumerate(rest)]")),
    ("placeholders paired with reversed inputs", ("matrixreps", "for smv, mv in zip(symbolic_rest, rest))))", "for smv, mv in zip(symbolic_rest, reversed(rest)))))")),
    ("all placeholders share one name", ("matrixreps", "alg.multivector(name=names[i], keys=mv.keys()) for i, mv in enumerate(rest)]", "alg.multivector(name=names[0], keys=mv.keys()) for i, mv in enumerate(rest)]")),
    ("x is not passed on to the symbolic evaluation", ("matrixreps", "        symbolic_inputs = [*symbolic_rest, x]", "        symbolic_inputs = [*symbolic_rest, symbolic_rest[-1]]")),
])
def expr_placeholders(ctx):
    """The array-valued numeric branch of expr_as_matrix, interpreted from source on two numeric inputs stored in
    non-canonical key order: every input is replaced by a symbolic placeholder with that input's own key tuple and a
    name of its own, the expression is evaluated once on (placeholders..., x), the matrix is evaluated with every
    placeholder symbol bound to the value at the same position of the same input, and y with these bindings plus
    x's own symbols."""
    repo = ctx.repo
    q = "matrixreps.expr_as_matrix"
    fn = ctx.func(q)
    alg = rep_algebra(3)
    shape2 = (2, 5)

    def num_mv(keys, tag):
        vals = [Obj("ndarray", {"fmt": f"{tag}[{k}]", "shape": shape2}) for k in keys]
        mv = mv_obj(alg, keys, vals)
        mv.attrs["issymbolic"] = False
        mv.attrs["shape"] = (len(keys),) + shape2
        return mv
    scenarios = [("", "x", [((6, 5, 3), "B"), ((2, 0), "C")]),
                 (",x named like a placeholder", "A", [((2, 1), "B"), ((2, 0), "C")])]
    for suffix, xname, rest_spec in scenarios:
        rest = [num_mv(k, t) for k, t in rest_spec]
        xsyms = [Obj("symbol", {"fmt": f"{xname}{k}", "name": f"{xname}{k}"}) for k in (1, 2, 4)]
        x = mv_obj(alg, (1, 2, 4), xsyms)
        x.attrs["issymbolic"] = True
        x.attrs["shape"] = (3,)
        x.attrs["free_symbols"] = set(xsyms)
        made = []

        def multivector(*a, **kw):
            name = kw.get("name")
            keys = kw.get("keys")
            if name is None or a:
                return Unk("multivector(...)")
            if keys is None and "grades" in kw:
                g = tuple(kw["grades"])
                keys = tuple(alg.attrs["indices_for_grades"][g]) if "indices_for_grades" in alg.attrs else tuple(
                    k for k in alg.attrs["canon2bin"].values() if bin(k).count("1") in g)
            if keys is None:
                return Unk("multivector(name=...)")
            keys = tuple(keys)
            mv = mv_obj(alg, keys, [Obj("symbol", {"fmt": f"{name}{k}", "name": f"{name}{k}"}) for k in keys])
            mv.attrs["issymbolic"] = True
            mv.attrs["shape"] = (len(keys),)
            made.append((name, keys, mv))
            return mv
        alg.methods["multivector"] = multivector
        rec = {}
        A_tok = Obj("matrix", {"fmt": "A_symbolic"})

        def y_call(*a, **kw):
            rec["y_kwargs"] = dict(kw)
            return Obj("mv", {"fmt": "y_numeric"})
        y_tok = Obj("mv-callable", {"fmt": "y_symbolic"}, call=y_call)

        def inner(expr, *inputs, **kw):
            rec.setdefault("inner", []).append((list(inputs), dict(kw)))
            return (A_tok, y_tok)

        def lambdify(args, body, *a, **kw):
            rec["lambdify"] = (list(args), body)

            def func(*fa, **fk):
                rec["func_kwargs"] = dict(fk)
                rec["func_args"] = list(fa)
                return Obj("matrix", {"fmt": "A_numeric"})
            return Obj("function", {"fmt": "<lambdified A>"}, call=func)
        it = make_interp(repo)
        it.algebra = alg
        it.overrides["matrixreps.expr_as_matrix"] = PyFunc(inner, "expr_as_matrix", True)
        it.standins["sympy"] = Obj("module:sympy", {"lambdify": PyFunc(lambdify, "sympy.lambdify", True)})
        res_like = mv_obj(alg, (4, 1), [1, 1])
        expr = Obj("function", {"fmt": "<expr>"}, call=lambda *a: Unk("expr must be evaluated on the placeholders by the recursive call"))
        c0 = f"{q}#placeholders{suffix}"
        try:
            # every symbol of the placeholders and of x is free in y
            y_tok.attrs["free_symbols"] = Obj("free_symbols", {"fmt": "<all symbols>"}, {"__contains__": lambda k: True})
            out = it.run(q, [expr, rest[0], rest[1], x], {"res_like": res_like})
        except NoValue as exc:
            raise Unknown(c0, str(exc), fn)
        if out[0] == "raise":
            ctx.violation(c0, f"array-valued numeric inputs: raises {out[1]}", fn)
            continue
        # 1. placeholders
        problems = []
        if [k for _, k, _ in made] != [tuple(mv.attrs["_keys"]) for mv in rest]:
            problems.append(f"placeholders are created with keys {[k for _, k, _ in made]} for inputs with keys "
                            f"{[tuple(mv.attrs['_keys']) for mv in rest]} (their symbols are paired position by position with the input's values)")
        if len({n for n, _, _ in made}) != len(made):
            problems.append(f"placeholder names {[n for n, _, _ in made]} are not distinct (their symbols collide)")
        shared = sorted({str(v) for _, _, mv in made for v in mv.attrs["_values"]} & {str(v) for v in xsyms})
        if shared:
            problems.append(f"the placeholders share the symbols {shared} with x: the coefficients of x are overwritten by the numeric "
                            f"values of another input (x may carry any name, also one that starts with a capital letter)")
        if problems:
            ctx.violation(c0, "; ".join(problems), fn)
        else:
            ctx.ok(c0, fn, placeholders=[(n, k) for n, k, _ in made])
        # 2. the one symbolic evaluation
        c1 = f"{q}#symbolic-evaluation{suffix}"
        inner_calls = rec.get("inner", [])
        if len(inner_calls) != 1:
            ctx.violation(c1, f"the expression is evaluated symbolically {len(inner_calls)} times", fn)
        else:
            inputs, kw = inner_calls[0]
            want_inputs = [mv for _, _, mv in made] + [x]
            if len(inputs) == len(want_inputs) and all(a is b for a, b in zip(inputs, want_inputs)) and kw.get("res_like") is res_like:
                ctx.ok(c1, fn, inputs=len(inputs))
            else:
                ctx.violation(c1, f"the symbolic evaluation receives {[str(i) for i in inputs]} with res_like={kw.get('res_like')!s}; expected the "
                                  f"placeholders in input order followed by x, and the caller's res_like", fn)
        # 3. bindings
        c2 = f"{q}#value-pairing{suffix}"
        want = {}
        for (name, keys, smv), mv in zip(made, rest):
            if len(keys) == len(mv.attrs["_values"]):
                for sym, val in zip(smv.attrs["_values"], mv.attrs["_values"]):
                    want[str(sym)] = val
        got = rec.get("func_kwargs")
        yk = rec.get("y_kwargs")
        if got is None or yk is None:
            raise Unknown(c2, f"the lambdified matrix / y were not called with keyword bindings (A: {got is not None}, y: {yk is not None})", fn)
        bad = [k for k in set(want) | set(got) if got.get(k) is not want.get(k)]
        want_y = dict(want)
        want_y.update({str(s_): s_ for s_ in xsyms})
        bad_y = [k for k in set(want_y) | set(yk) if yk.get(k) is not want_y.get(k)]
        if bad:
            k = sorted(bad)[0]
            ctx.violation(c2, f"the matrix is evaluated with {k} = {got.get(k)!s}, expected {want.get(k)!s} (placeholder symbol i of input j "
                              f"must be bound to value i of input j); {len(bad)} binding(s) differ", fn)
        elif bad_y:
            k = sorted(bad_y)[0]
            ctx.violation(c2, f"y is evaluated with {k} = {yk.get(k)!s}, expected {want_y.get(k)!s}; {len(bad_y)} binding(s) differ", fn)
        else:
            ctx.ok(c2, fn, bindings=len(want))
