"""C13 - Algebra options change speed, never results."""
from __future__ import annotations

import ast

from ..astx import un, NoValue, walk_shallow, chain
from ..absint import Obj, Unk, PyFunc
from ..core import rule, fixture_for, Unknown
from ..symenv import make_interp, rep_algebra

INFO = {
    "id": "C13",
    "technique": "option-read census with an allowed-consumer table; template extraction of both function builders and of "
                 "the wrapper dispatch; dependency (non-interference) contradiction rule for graded mode; abstract "
                 "interpretation of graded blade creation and of the symbol-class override",
    "explanation": "Clause-level. Decided: every read of cse / wrapper / graded / codegen_symbolcls / simp_func / "
                   "pretty_blade lies in a function of the confirmed consumer table; the cse option only selects which "
                   "builder consumes one and the same (keys, expressions, operands) triple, and both builders emit a "
                   "function with the same unpacking and return order (C08.codegen-pipeline, C08.emitted-source); with a "
                   "wrapper the by-name callable is the wrapped twin of the function of the cache entry just looked up, "
                   "under an injective name (C02.call-pairing, C09.name-injective, C09.by-name-twin); the user's symbol "
                   "class overrides the per-operator default for every dict kind; graded basis blades store a complete "
                   "grade. FINDING (recorded): graded mode has a consumer check (the constructor rejects incomplete grades) "
                   "but no producer on the result path depends on it, so results need not be complete grades. NOT decided: "
                   "value-level equality of results across printers.",
    "decided": ["C13.option-reads", "C13.graded-producer", "C13.graded-blades", "C13.symbolcls-uniform",
                "C08.codegen-pipeline", "C08.emitted-source", "C02.call-pairing", "C09.name-injective", "C09.by-name-twin"],
    "not_decided": ["equality of results across printers / symbol classes as a value-level statement"],
    "assumptions": ["sympy's cse and both printers preserve the value of an expression"],
}

OPTION_CONSUMERS = {
    # option attribute -> {function: one line of reason}
    "cse": {"codegen.do_codegen": "selects func_builder vs lambdify for one (keys, exprs, args) triple",
            "codegen._lambdify_mv": "passes the flag to lambdify"},
    "wrapper": {"operator_dict.OperatorDict.__getitem__": "stores wrapper(func) under func.__name__",
                "operator_dict.UnaryOperatorDict.__getitem__": "same", "operator_dict.Registry.__getitem__": "same",
                "operator_dict.OperatorDict.__call__": "direct vs by-name twin (C02.call-pairing)",
                "operator_dict.OperatorDict._call_binary": "same", "operator_dict.UnaryOperatorDict.__call__": "same",
                "operator_dict.Registry.__call__": "same"},
    "graded": {"multivector.MultiVector.__new__": "consumer check: keys must be complete grades",
               "algebra.BladeDict.__getitem__": "basis blades are created as complete grades"},
    "codegen_symbolcls": {"operator_dict.OperatorDict.__post_init__": "user override of the per-operator symbol class",
                          "operator_dict.OperatorDict.__getitem__": "symbol class of the symbolic operands",
                          "operator_dict.UnaryOperatorDict.__getitem__": "same",
                          "multivector.MultiVector.issymbolic": "which coefficient types count as symbolic",
                          "codegen.codegen_inv": "symbol class of the 1/denominator placeholder",
                          "codegen.codegen_div": "same"},
    "simp_func": {"operator_dict.OperatorDict.filter": "zero test of symbolic results (C06.filter)",
                  "operator_dict.OperatorDict.__call__": "filter only if set", "operator_dict.OperatorDict._call_binary": "same",
                  "operator_dict.UnaryOperatorDict.__call__": "same", "multivector.MultiVector.filter": "default predicate"},
    "pretty_blade": {"algebra.Algebra.__post_init__.pretty_blade": "printing only", "algebra.Algebra.__post_init__": "printing only"},
}


@rule("C13.option-reads", props=["C13"], min_instances=20, mutants=[])
def option_reads(ctx):
    """Every read of an algebra option lies in a confirmed consumer (census; a new reader is reported, not guessed)."""
    from ..astx import private_helper_owners
    repo = ctx.repo
    # a private helper is part of its callers; for simp_func and wrapper the four operator entry points all count as
    # callers whose use of the option is decided semantically (C06.filter-sites, C02.call-pairing run every one of them
    # with the option set and unset), so a helper shared between them is covered as well
    from ..callsites import ENTRY_POINTS
    owners = {opt: private_helper_owners(repo, set(tab) | (set(ENTRY_POINTS) if opt in ("simp_func", "wrapper") else set()))
              for opt, tab in OPTION_CONSUMERS.items()}
    from ..astx import single_assignments, inline, params

    def outer(qual):
        """A nested function belongs to the function it is defined in (its name is a local of that function)."""
        parts = qual.split(".")
        while len(parts) > 2:
            parent = ".".join(parts[:-1])
            if repo.has(parent) and isinstance(repo.lookup(parent), ast.FunctionDef):
                parts = parts[:-1]
            else:
                break
        return ".".join(parts)

    for mname, qual, fn in repo.all_functions():
        defs = single_assignments(fn)
        oq = outer(qual)
        ofn = repo.lookup(oq) if repo.has(oq) else fn
        odefs = single_assignments(ofn) if ofn is not fn else defs
        self_param = params(ofn)[0] if isinstance(ofn, ast.FunctionDef) and params(ofn) else None
        in_algebra_class = oq.startswith("algebra.Algebra.")
        for n in walk_shallow(fn):
            if isinstance(n, ast.Attribute) and isinstance(n.ctx, ast.Load) and n.attr in OPTION_CONSUMERS:
                b = inline(inline(n.value, defs, depth=2), odefs, depth=2)
                base = un(b)
                is_algebra = base.endswith("algebra") or base.endswith(".div") or (in_algebra_class and base == self_param)
                if not is_algebra:
                    continue
                if n.attr in ("cse", "wrapper", "graded", "simp_func", "pretty_blade") and base.endswith(".div"):
                    continue
                c = f"{oq}#{n.attr}"
                table = OPTION_CONSUMERS[n.attr]
                if oq in table or qual in table:
                    ctx.ok(c, n, module=mname, reason=table.get(oq) or table.get(qual))
                elif oq in owners[n.attr]:
                    ctx.ok(c, n, module=mname, reason="private helper called only from confirmed consumers")
                else:
                    raise Unknown(c, f"new reader of option {n.attr!r} ({un(n)}) - not in the confirmed consumer table; "
                                     f"whether results can depend on it is not decided", n)


RESULT_PATH = ["codegen.do_codegen", "codegen.func_builder", "codegen.lambdify", "operator_dict.OperatorDict.filter",
               "operator_dict.OperatorDict.__call__", "operator_dict.OperatorDict._call_binary",
               "operator_dict.UnaryOperatorDict.__call__", "operator_dict.OperatorDict.__getitem__",
               "operator_dict.UnaryOperatorDict.__getitem__", "multivector.MultiVector.fromkeysvalues"]


@rule("C13.graded-producer", props=["C13"], min_instances=1)
def graded_producer(ctx):
    """Contradiction rule: the constructor rejects incomplete grades in graded mode, so some producer on the result
    path must make results complete grades (DEP: does any of them depend on graded / indices_for_grade(s)?)."""
    repo = ctx.repo
    new = ctx.func("multivector.MultiVector.__new__")
    consumer = [n for n in ast.walk(new) if isinstance(n, ast.If) and "graded" in un(n.test) and any(isinstance(b, ast.Raise) for b in n.body)]
    if not consumer:
        ctx.ok("multivector.MultiVector.__new__#graded-consumer", new, note="no consumer check: nothing to contradict")
        return
    producers = []
    codegens = [q for _, q, _ in repo.all_functions() if q.startswith("codegen.codegen_")]
    for q in RESULT_PATH + codegens:
        if not repo.has(q):
            continue
        fn = repo.func(q)
        ctx.functions.add(q)
        for n in ast.walk(fn):
            if isinstance(n, ast.Attribute) and n.attr in ("graded", "indices_for_grades", "indices_for_grade"):
                producers.append((q, n))
    c = "codegen.do_codegen#graded-producer"
    if producers:
        ctx.ok(c, producers[0][1], module=producers[0][0].split(".")[0], producer=producers[0][0])
    else:
        ctx.violation(c, "graded mode: MultiVector.__new__ rejects key tuples that are not complete grades, and every cache "
                         "miss feeds a previous result's keys to that constructor, but no producer on the result path "
                         "(do_codegen keys, filter, fromkeysvalues call sites, any codegen_*) depends on graded / "
                         "indices_for_grades: results need not store complete grades and the next operation raises "
                         "ValueError where the default mode succeeds", consumer[0], module="multivector",
                      analysed=len(RESULT_PATH) + len(codegens))


@rule("C13.graded-blades", props=["C13", "C01"], min_instances=5, mutants=[
    ("graded blade positions follow ascending keys, not the canonical order of the grade", ("algebra", "                indices = self.algebra.indices_for_grade[g]", "                indices = sorted(self.algebra.indices_for_grade[g])")),
    ("graded blade marks the wrong position", ("algebra", "values=[int(bin_blade == i) for i in indices], grades=(g,))", "values=[int(bin_blade != i) for i in indices], grades=(g,))")),
])
def graded_blades(ctx):
    """In graded mode a basis blade is created as a complete grade with a single 1 at its own key."""
    repo = ctx.repo
    q = "algebra.BladeDict.__getitem__"
    fn = ctx.func(q)
    # in four dimensions the canonical order of grade 2 (e12 e13 e14 e23 e24 e34 = keys 3 5 9 6 10 12) is not ascending
    for blade, key, g, d in (("e2", 2, 1, 3), ("e13", 5, 2, 3), ("e14", 9, 2, 4), ("e23", 6, 2, 4), ("e134", 13, 3, 4)):
        c = f"{q}#graded:{blade}" + (f",d={d}" if d != 3 else "")
        made = {}

        def multivector(*a, **k):
            made.update(k)
            return Obj("MultiVector", {"made": True})
        alg = rep_algebra(d, graded=True, extra_methods={"multivector": multivector})
        me = Obj("BladeDict", {"algebra": alg, "blades": {}, "lazy": True})
        it = make_interp(repo)
        it.instance_classes["BladeDict"] = "algebra.BladeDict"
        try:
            out = it.run(q, [me, blade])
        except NoValue as exc:
            raise Unknown(c, str(exc), fn)
        indices = alg.attrs["indices_for_grade"].getitem(g)
        want = [int(i == key) for i in indices]
        if out[0] == "raise":
            ctx.violation(c, f"raises {out[1]}", fn)
        elif made.get("values") == want and made.get("grades") == (g,) and made.get("keys") in (None, indices):
            ctx.ok(c, fn, values=want)
        else:
            ctx.violation(c, f"graded blade {blade} is created with values={made.get('values')} grades={made.get('grades')}, "
                             f"expected the complete grade {g} ({indices}) with a single 1 at key {key}: {want}", fn)


@rule("C13.symbolcls-uniform", props=["C13"], min_instances=3, mutants=[
    ("override only when the operator has the default class", ("operator_dict", "        if self.algebra.codegen_symbolcls is not None:", "        if self.algebra.codegen_symbolcls is not None and self.codegen_symbolcls is RationalPolynomial.fromname:")),
])
def symbolcls_uniform(ctx):
    """The user's symbol class overrides the per-operator default for every dict kind."""
    repo = ctx.repo
    q = "operator_dict.OperatorDict.__post_init__"
    fn = ctx.func(q)
    for kind in ("OperatorDict", "UnaryOperatorDict", "Registry"):
        cls = ctx.cls(f"operator_dict.{kind}")
        if kind != "OperatorDict" and any(isinstance(s, ast.FunctionDef) and s.name == "__post_init__" for s in cls.body):
            raise Unknown(f"operator_dict.{kind}.__post_init__", "overrides __post_init__", cls)
        for default in ("MATHSTR", "DEFAULT"):
            for user in (None, "USER"):
                c = f"operator_dict.{kind}.__post_init__#default={default},user={user}"
                me = Obj(kind, {"algebra": Obj("algebra", {"codegen_symbolcls": Obj("cls", {"fmt": user}) if user else None}),
                                "codegen_symbolcls": Obj("cls", {"fmt": default})})
                it = make_interp(repo)
                it.instance_classes[kind] = f"operator_dict.{kind}"
                it.instance_classes["OperatorDict"] = "operator_dict.OperatorDict"
                try:
                    out = it.run(q, [me])
                except NoValue as exc:
                    raise Unknown(c, str(exc), fn)
                got = str(me.attrs["codegen_symbolcls"])
                want = user or default
                if out[0] == "raise":
                    ctx.violation(c, f"raises {out[1]}", fn)
                elif got != want:
                    ctx.violation(c, f"operator symbol class is {got}, expected {want}: with a user symbol class some "
                                     f"operators still generate code with their own class, others with the user's", fn)
        ctx.ok(f"operator_dict.{kind}.__post_init__", fn)
