"""C11 - Registered (compiled) expressions equal direct evaluation."""
from __future__ import annotations

import ast
import builtins
import symtable
from fractions import Fraction

from ..astx import un, NoValue
from ..absint import Obj, Unk, Raised
from ..core import rule, fixture_for, Unknown
from ..optree import T
from ..surface import class_surface, operator_registry, BINARY_DUNDERS, REFLECTED
from ..symenv import make_interp

INFO = {
    "id": "C11",
    "technique": "sibling-surface cross-check MultiVector vs TapeRecorder (resolved aliases/partialmethods), decision "
                 "tables of the Python-bodied siblings by abstract interpretation over exact finite partitions, "
                 "operator-tree normal forms, symtable scope resolution, template extraction of emitted call source",
    "explanation": "Clause-level, for the enumerated surface. Decided: every registry operator has a recorder method "
                   "of the same name, operator and arity; every dunder defined on both classes resolves to the same "
                   "operator with the same operand order (a reflected recorder dunder may keep (self, other) only for "
                   "operators that commute with a plain number); the Python-bodied siblings (__pow__, dual, undual, "
                   "norm, normalized, grade, coefficient access) have equal decision tables / normal forms or raise; "
                   "a coefficient is recorded as a scalar with the sign of its spelling's parity; no unresolved global "
                   "name in any scope of the package; the emitted callee name, the recorded keys and the operand "
                   "expressions of a recorded call come from one cache lookup in operand order. Not decided: str() "
                   "formatting of exotic numeric literals.",
    "decided": ["C05.dual-table", "C11.grade", "C11.do-compile", "C11.registry-complete", "C11.dunder-agreement", "C11.python-siblings", "C11.coefficient-kind",
                "C11.names", "C11.emission-pairing"],
    "not_decided": ["formatting of non-literal numeric operands via str() inside emitted source (value dependent)",
                    "by-name resolution at call time relies on C09.name-injective"],
    "assumptions": ["operator semantics are those of the registry entry of the same name (C04.registry-names)"],
}

SCALAR_COMMUTATIVE = {"gp", "add", "op"}   # number (.) x == x (.) number for these operators
REQUIRED_ON_RECORDER = ["__mul__", "__rmul__", "__add__", "__radd__", "__sub__", "__rsub__", "__truediv__",
                        "__neg__", "__invert__", "__xor__", "__or__", "__and__", "__rshift__", "__matmul__", "__pow__"]
MV, TR = "multivector.MultiVector", "taperecorder.TapeRecorder"


# --------------------------------------------------------------------------- registry-complete
@rule("C11.registry-complete", props=["C11"], min_instances=29, mutants=[
    ("delete rc on the recorder", ("taperecorder", "    rc = partialmethod(binary_operator, operator='rc')\n", "")),
    ("lc bound to rc", ("taperecorder", "lc = partialmethod(binary_operator, operator='lc')", "lc = partialmethod(binary_operator, operator='rc')")),
    ("hodge recorded as unhodge", ("taperecorder", "hodge = partialmethod(unary_operator, operator='hodge')", "hodge = partialmethod(unary_operator, operator='unhodge')")),
])
def registry_complete(ctx):
    """Every registry operator exists on TapeRecorder under its name with the same operator and arity (SIB)."""
    reg = operator_registry(ctx.repo)
    tr = class_surface(ctx.repo, TR)
    mv = class_surface(ctx.repo, MV)
    for name, row in reg.items():
        c = f"{TR}.{name}"
        arity = 1 if "Unary" in row.dict_class else 2
        e = tr.get(name)
        m = mv.get(name)
        if m is None or m.kind != "op":
            continue  # not part of the multivector method surface
        if e is None:
            ctx.violation(c, f"operator {name!r} is a MultiVector method but TapeRecorder has no method {name!r}: "
                             f"a registered function using x.{name}(...) cannot be recorded", row.node, module="algebra")
        elif e.kind != "op":
            raise Unknown(c, "recorder method is not bound through binary_operator/unary_operator", e.node)
        elif e.op != name:
            ctx.violation(c, f"recorder method {name!r} records operator {e.op!r}", e.node, recorded=e.op)
        elif len(e.order) != arity:
            ctx.violation(c, f"recorder method {name!r} is bound as a {'binary' if len(e.order) == 2 else 'unary'} "
                             f"operator but the registry entry is a {row.dict_class}", e.node)
        elif e.order != m.order:
            ctx.violation(c, f"recorder method {name!r} passes operands {e.order}, MultiVector passes {m.order}", e.node)
        else:
            ctx.ok(c, e.node, operator=e.op, arity=arity)


# --------------------------------------------------------------------------- dunder-agreement
def _same_tree(a, b):
    """Equal normal forms up to the class tag of the variables (x of the recorder against x of the multivector)."""
    return repr(a) == repr(b)


def _eval_dunder(ctx, repo, cls, name, other, oracle=None):
    it = make_interp(repo)
    it.branch_oracle = oracle
    x = T.var("x", cls)
    try:
        return ("return", it._method(x, name, [other] if other is not None else [], {}))
    except Raised as r:
        return ("raise", r.name)


@rule("C11.dunder-agreement", props=["C11", "C04", "C03", "C05", "C06", "C07", "C16"], min_instances=15, mutants=[
    ("__or__ bound to op", ("taperecorder", "ip = __or__ = partialmethod", "ip = partialmethod")),
    ("__rshift__ bound to proj", [("taperecorder", "sw = __rshift__ = partialmethod", "sw = partialmethod"),
                                 ("taperecorder", "proj = __matmul__ = partialmethod", "proj = __matmul__ = __rshift__ = partialmethod")]),
    ("__rsub__ without negation", ("taperecorder", "def __rsub__(self, other): return other + (-self)", "def __rsub__(self, other): return other + self")),
    ("__invert__ records conjugate", [("taperecorder", "reverse = __invert__ = partialmethod", "reverse = partialmethod"),
                                     ("taperecorder", "conjugate = partialmethod", "conjugate = __invert__ = partialmethod")]),
    ("reflected sub keeps (self, other)", ("taperecorder", "def __rsub__(self, other): return other + (-self)", "__rsub__ = sub")),
], rewrites=[
    ("__rsub__ as -(self - other)", ("taperecorder", "def __rsub__(self, other): return other + (-self)", "def __rsub__(self, other): return -(self - other)")),
])
def dunder_agreement(ctx):
    """Every dunder on TapeRecorder means what it means on MultiVector, with the same operand order (SIB + OPT)."""
    repo = ctx.repo
    tr = class_surface(repo, TR)
    mv = class_surface(repo, MV)
    dunders = [n for n in tr if n.startswith("__") and n.endswith("__") and
               (n in BINARY_DUNDERS or n in REFLECTED or n in ("__neg__", "__invert__", "__pos__"))]
    for n in REQUIRED_ON_RECORDER:
        if n in mv and n not in tr:
            ctx.violation(f"{TR}.{n}", f"MultiVector defines {n} (part of the documented expression surface) but "
                                       f"TapeRecorder does not: a registered function using it raises instead of "
                                       f"returning the value of the plain function", mv[n].node, module="multivector")
    for n in dunders:
        c = f"{TR}.{n}"
        r, m = tr[n], mv.get(n)
        if n == "__pow__":
            continue  # python-bodied on both sides: C11.python-siblings
        if m is None:
            ctx.note(c, "defined on the recorder only")
            continue
        reflected = n in REFLECTED
        if r.kind == "op" and m.kind == "op":
            if r.op != m.op:
                ctx.violation(c, f"recorder {n} records operator {r.op!r}, MultiVector.{n} applies {m.op!r}", r.node,
                              recorder=r.sig(), multivector=m.sig())
            elif r.order == m.order:
                ctx.ok(c, r.node, operator=r.op, order=r.order)
            elif reflected and r.order == ("self", "other") and r.op in SCALAR_COMMUTATIVE:
                ctx.ok(c, r.node, operator=r.op, order=r.order,
                       accepted="reflected form is reached only with a plain number on the left, which commutes")
            else:
                ctx.violation(c, f"recorder {n} passes operands {r.order} to {r.op!r}, MultiVector.{n} passes {m.order}; "
                                 f"{r.op!r} does not commute with a plain number", r.node)
            continue
        # at least one side has a Python body: compare normal forms for plain-number left/right operands
        agree = True
        facts = {}
        others = ((5, 7) + (() if reflected else ("y",))) if (reflected or n in BINARY_DUNDERS) else (None,)
        for number in others:
            try:
                if number == "y":
                    # another operand of the same class: conditions on it that the tree does not fix are followed both ways,
                    # and every way the recorder can take must agree with the multivector
                    from ..absint import explore_branches
                    b = _eval_dunder(ctx, repo, "MultiVector", n, T.var("y", "MultiVector"))
                    paths = explore_branches(lambda o: _eval_dunder(ctx, repo, "TapeRecorder", n, T.var("y", "TapeRecorder"), o))
                    bad_paths = [(dec, out) for dec, out in paths if out[0] == "return" and not (isinstance(out[1], T) and isinstance(b[1], T) and _same_tree(out[1], b[1]))]
                    if any(isinstance(out[1], Unk) for _, out in paths if out[0] == "return") or (b[0] == "return" and isinstance(b[1], Unk)):
                        raise Unknown(c, f"Python-bodied dunder evaluates to an unknown value for a recorder operand", r.node)
                    facts["recorder operand"] = {"paths": len(paths), "multivector": repr(b[1])}
                    if b[0] == "return" and bad_paths:
                        dec, out = bad_paths[0]
                        agree = False
                        facts["recorder operand"]["differs"] = {"when": [f"{k} is {v}" for k, v in dec], "recorder": repr(out[1])}
                    continue
                a = _eval_dunder(ctx, repo, "TapeRecorder", n, number)
                b = _eval_dunder(ctx, repo, "MultiVector", n, number)
            except NoValue as exc:
                raise Unknown(c, f"cannot evaluate Python-bodied dunder: {exc}", r.node)
            if a[0] == "return" and isinstance(a[1], Unk) or b[0] == "return" and isinstance(b[1], Unk):
                raise Unknown(c, f"Python-bodied dunder evaluates to an unknown value ({a}, {b})", r.node)
            facts[str(number)] = {"recorder": repr(a[1]), "multivector": repr(b[1])}
            if a[0] == "raise":
                continue  # may raise, must not return a different value
            if b[0] == "raise" or not (isinstance(a[1], T) and isinstance(b[1], T) and a[1] == b[1]):
                agree = False
        if agree:
            ctx.ok(c, r.node, **facts)
        else:
            ctx.violation(c, f"recorder {n} and MultiVector.{n} denote different elements: {facts}", r.node, **facts)


# --------------------------------------------------------------------------- python-bodied siblings
def _outcome_key(o):
    if o[0] == "raise":
        return ("raise",)
    return ("return", o[1])


def pow_table(ctx, repo, cls, construct_prefix):
    x = T.var("x", cls)
    inv = T.opaque("inv", (x,), cls)
    spec = {0: T.num(1, cls), 1: x, 2: x.gp(x), 3: x.gp(x).gp(x), -1: inv, -2: inv.gp(inv), -3: inv.gp(inv).gp(inv)}
    module = "multivector" if cls == "MultiVector" else "taperecorder"
    qual = f"{module}.{cls}.__pow__"
    fn = ctx.func(qual)
    for p, want in spec.items():
        it = make_interp(repo)
        c = f"{qual}#power={p}"
        try:
            out = it.run(qual, [x, p])
        except NoValue as exc:
            raise Unknown(c, str(exc), fn)
        if out[0] == "raise":
            if cls == "TapeRecorder":
                ctx.ok(c, fn, outcome=f"raises {out[1]}")
            else:
                ctx.violation(c, f"x ** {p} raises {out[1]}; integer powers are repeated products "
                                 f"(negative ones of the inverse)", fn)
            continue
        got = out[1]
        if isinstance(got, (int, float, Fraction)) and not isinstance(got, bool):
            got = T.num(got, cls)
        if not isinstance(got, T):
            raise Unknown(c, f"x ** {p} evaluates to {got!r}", fn)
        if got == want:
            ctx.ok(c, fn, normal_form=repr(got))
        else:
            ctx.violation(c, f"x ** {p} evaluates to [{got!r}], expected [{want!r}] "
                             f"({'the inverse multiplied |n| times' if p < 0 else 'repeated geometric product'})",
                          fn, got=repr(got), expected=repr(want))
    # x ** 0.5 is sqrt(x) (C19); the recorder may raise but must not return something else
    it = make_interp(repo)
    c = f"{qual}#power=0.5"
    try:
        out = it.run(qual, [x, 0.5])
    except NoValue as exc:
        raise Unknown(c, str(exc), fn)
    want = T.opaque("sqrt", (x,), cls)
    if out[0] == "raise":
        if cls == "TapeRecorder":
            ctx.ok(c, fn, outcome=f"raises {out[1]}")
        else:
            ctx.violation(c, f"x ** 0.5 raises {out[1]}, expected sqrt(x)", fn)
    elif isinstance(out[1], T) and out[1] == want:
        ctx.ok(c, fn, normal_form=repr(out[1]))
    else:
        ctx.violation(c, f"x ** 0.5 evaluates to [{out[1]!r}], expected [sqrt(x)]", fn)


DUAL_KINDS = ("auto", "polarity", "hodge", "poincare")
R_CELLS = (0, 1, 2)


def dual_tables(ctx, repo, which):
    """Decision table over kind x r for dual / undual on both classes."""
    fam = {"dual": ("polarity", "hodge"), "undual": ("unpolarity", "unhodge")}[which]
    tables = {}
    for cls, module in (("MultiVector", "multivector"), ("TapeRecorder", "taperecorder")):
        qual = f"{module}.{cls}.{which}"
        fn = ctx.func(qual)
        tab = {}
        for kind in DUAL_KINDS:
            for r in R_CELLS:
                it = make_interp(repo, {"r": r, "p": 2, "q": 1, "d": 3 + r})
                x = T.var("x", cls)
                try:
                    out = it.run(qual, [x], {"kind": kind})
                    if kind == "auto":
                        out_default = it.run(qual, [x])
                        if _outcome_key(out_default) != _outcome_key(out):
                            ctx.violation(f"{qual}#default-kind", f"{which}() without a kind does not behave as kind='auto'", fn)
                except NoValue as exc:
                    raise Unknown(f"{qual}#kind={kind},r={r}", str(exc), fn)
                tab[(kind, r)] = out
        tables[cls] = (qual, fn, tab)
    for cls, (qual, fn, tab) in tables.items():
        x = T.var("x", cls)
        for (kind, r), out in tab.items():
            c = f"{qual}#kind={kind},r={'>=2' if r == 2 else r}"
            want = None
            if kind == "polarity" or (kind == "auto" and r == 0):
                want = T.opaque(fam[0], (x,), cls)
            elif kind == "hodge" or (kind == "auto" and r == 1):
                want = T.opaque(fam[1], (x,), cls)
            if want is not None:
                if out[0] == "return" and isinstance(out[1], T) and out[1] == want:
                    ctx.ok(c, fn, outcome=repr(out[1]))
                else:
                    ctx.violation(c, f"{which}(kind={kind!r}) with r={r} gives {out[0]} {out[1]!r}; the statement "
                                     f"requires {want!r}", fn, outcome=repr(out[1]))
            else:
                other_cls = "TapeRecorder" if cls == "MultiVector" else "MultiVector"
                o2 = tables[other_cls][2][(kind, r)]
                same = (out[0] == o2[0] == "raise") or (out[0] == o2[0] == "return" and repr(out[1]) == repr(o2[1]))
                if cls == "TapeRecorder" and out[0] == "raise":
                    same = True
                if same:
                    ctx.ok(c, fn, outcome=f"{out[0]} {out[1]!r}", free_cell=True)
                elif cls == "TapeRecorder":
                    ctx.violation(c, f"recorder {which}(kind={kind!r}, r={r}) gives {out[0]} {out[1]!r} but MultiVector "
                                     f"gives {o2[0]} {o2[1]!r}", fn)
                else:
                    ctx.ok(c, fn, outcome=f"{out[0]} {out[1]!r}", free_cell=True)


def norm_trees(ctx, repo, cls):
    module = "multivector" if cls == "MultiVector" else "taperecorder"
    x = T.var("x", cls)
    nrm = T.opaque("sqrt", (T.opaque("normsq", (x,), cls),), cls)
    spec = {"norm": nrm, "normalized": x.gp(T.opaque("inv", (nrm,), cls))}
    for name, want in spec.items():
        qual = f"{module}.{cls}.{name}"
        fn = ctx.func(qual)
        from ..absint import explore_branches

        def run_(oracle):
            it = make_interp(repo)
            it.branch_oracle = oracle
            return it.run(qual, [x])
        try:
            paths = explore_branches(run_)
        except NoValue as exc:
            raise Unknown(qual, str(exc), fn)
        # conditions the operand tree does not fix are followed both ways: every path has to give the definition
        wrong = [(dec, o) for dec, o in paths if not (o[0] == "return" and isinstance(o[1], T) and o[1] == want)]
        out = wrong[0][1] if wrong else paths[0][1]
        if out[0] == "return" and isinstance(out[1], T) and out[1] == want:
            ctx.ok(qual, fn, normal_form=repr(out[1]), paths=len(paths))
        elif out[0] == "raise" and cls == "TapeRecorder":
            ctx.ok(qual, fn, outcome=f"raises {out[1]}")
        elif out[0] == "return" and isinstance(out[1], Unk):
            raise Unknown(qual, f"evaluates to unknown value {out[1]!r}", fn)
        else:
            ctx.violation(qual, f"{name}() evaluates to [{out[1]!r}], expected [{want!r}] "
                                f"({'sqrt(x * ~x)' if name == 'norm' else 'x / norm(x)'})", fn)


@rule("C11.python-siblings", props=["C11", "C19", "C07"], min_instances=10, mutants=[
    ("recorder norm without sqrt", ("taperecorder", "        normsq = self.normsq()\n        return normsq.sqrt()\n\n    def normalized(self):\n        \"\"\" Normalized version of this multivector. \"\"\"\n        return self / self.norm()\n",
                                    "        normsq = self.normsq()\n        return normsq\n\n    def normalized(self):\n        \"\"\" Normalized version of this multivector. \"\"\"\n        return self / self.norm()\n")),
    ("recorder pow off by one", ("taperecorder", "        for i in range(1, power):\n            res = res.gp(x)", "        for i in range(0, power):\n            res = res.gp(x)")),
])
def python_siblings(ctx):
    """Python-bodied siblings on the recorder have the decision tables / normal forms of MultiVector (DT + OPT)."""
    repo = ctx.repo
    pow_table(ctx, repo, "TapeRecorder", TR)
    norm_trees(ctx, repo, "TapeRecorder")


# --------------------------------------------------------------------------- coefficient-kind
CANON2BIN = {"e": 0, "e1": 1, "e2": 2, "e3": 4, "e12": 3, "e13": 5, "e23": 6, "e123": 7}


def _blade2canon(name):
    """Stand-in for Algebra._blade2canon on the representative algebra: (canonical name, swap parity)."""
    if name in CANON2BIN:
        return (name, 0)
    gens = name[1:]
    if any(f"e{g}" not in CANON2BIN for g in gens):
        return ("e8", 0)
    canon = "e" + "".join(sorted(gens))
    if canon not in CANON2BIN:
        return ("e8", 0)
    perm = list(gens)
    swaps = sum(1 for i in range(len(perm)) for j in range(i + 1, len(perm)) if perm[i] > perm[j])
    return (canon, swaps)


def recorder_obj(keys, expr="X"):
    alg = Obj("algebra", {"canon2bin": dict(CANON2BIN), "bin2canon": {v: k for k, v in CANON2BIN.items()}, "d": 3},
              {"_blade2canon": _blade2canon})
    return Obj("TapeRecorder", {"algebra": alg, "expr": expr, "_keys": keys}, {"keys": lambda: keys})


def _parse_coef(expr: str):
    """'(X[1],)' -> (+1, 1); '(-X[1],)' -> (-1, 1); '(0,)' -> 0."""
    try:
        t = ast.parse(expr, mode="eval").body
    except SyntaxError:
        return None
    if not (isinstance(t, ast.Tuple) and len(t.elts) == 1):
        return None
    e = t.elts[0]
    sign = 1
    while isinstance(e, ast.UnaryOp) and isinstance(e.op, (ast.USub, ast.UAdd)):
        sign *= -1 if isinstance(e.op, ast.USub) else 1
        e = e.operand
    if isinstance(e, ast.BinOp) and isinstance(e.op, ast.Mult):
        for a, b in ((e.left, e.right), (e.right, e.left)):
            if isinstance(a, ast.UnaryOp) and isinstance(a.op, ast.USub) and isinstance(a.operand, ast.Constant) and a.operand.value == 1:
                sign, e = -sign, b
                break
            if isinstance(a, ast.Constant) and a.value == 1:
                e = b
                break
    if isinstance(e, ast.Constant) and e.value == 0:
        return 0
    if isinstance(e, ast.Subscript) and isinstance(e.value, ast.Name) and e.value.id == "X" and isinstance(e.slice, ast.Constant):
        return (sign, e.slice.value)
    return None


def check_coefficient_kind(ctx, repo, qual):
    fn = ctx.func(qual)
    keys = (4, 3, 0, 7)   # storage order e3, e12, e, e123
    cells = {
        "e12": ("present, canonical spelling", (1, 1)),
        "e21": ("present, odd permutation", (-1, 1)),
        "e3": ("present, canonical grade-1", (1, 0)),
        "e": ("present scalar", (1, 2)),
        "e312": ("present, even permutation", (1, 3)),
        "e132": ("present, odd permutation of three", (-1, 3)),
        "e2": ("absent blade", 0),
        "e32": ("absent blade, non-canonical spelling", 0),
        "e9": ("unknown generator", 0),
    }
    for name, (what, want) in cells.items():
        c = f"{qual}#{name}"
        it = make_interp(repo)
        try:
            out = it.run(qual, [recorder_obj(keys), name])
        except NoValue as exc:
            raise Unknown(c, str(exc), fn)
        if out[0] == "raise":
            if out[1] == "NameError":
                raise Unknown(c, "raises NameError (see C11.names)", fn)
            ctx.ok(c, fn, cell=what, outcome=f"raises {out[1]}")
            continue
        v = out[1]
        if isinstance(v, T) and v.is_number():
            got, got_keys = (0 if v.number() == 0 else None), (0,)
        elif isinstance(v, Obj) and v.kind == "TapeRecorder":
            got_keys = v.attrs.get("_keys")
            got = _parse_coef(v.attrs.get("expr")) if isinstance(v.attrs.get("expr"), str) else None
        else:
            raise Unknown(c, f"coefficient access returns {v!r}", fn)
        if got is None:
            raise Unknown(c, f"unrecognised recorded coefficient expression {getattr(v, 'attrs', {}).get('expr')!r}", fn)
        if got_keys != (0,):
            ctx.violation(c, f"coefficient x.{name} ({what}) is recorded with keys {got_keys}: a coefficient is a scalar "
                             f"and must carry key (0,), otherwise it multiplies as a basis blade", fn,
                          cell=what, keys=got_keys)
        elif got != want:
            ctx.violation(c, f"coefficient x.{name} ({what}) is recorded as {v.attrs.get('expr') if isinstance(v, Obj) else v!r}; "
                             f"MultiVector.__getattr__ gives {'0' if want == 0 else ('-' if want[0] < 0 else '') + f'values[{want[1]}]'}",
                          fn, cell=what, got=got, expected=want)
        else:
            ctx.ok(c, fn, cell=what, recorded=got)
    # a non-blade attribute must raise AttributeError
    it = make_interp(repo)
    c = f"{qual}#not-a-blade"
    try:
        out = it.run(qual, [recorder_obj(keys), "shape"])
    except NoValue as exc:
        raise Unknown(c, str(exc), fn)
    if out[0] == "raise" and out[1] in ("AttributeError",):
        ctx.ok(c, fn, outcome="raises AttributeError")
    elif out[0] == "raise":
        raise Unknown(c, f"raises {out[1]}", fn)
    else:
        ctx.violation(c, "a non-blade attribute name returns a value instead of raising AttributeError", fn)


@rule("C11.coefficient-kind", props=["C11", "C15", "C14", "C12"], min_instances=10, mutants=[
    ("coefficient keeps its blade key", ("taperecorder", "                keys=(0,)\n            )\n\n    def grade", "                keys=(self.keys()[idx],)\n            )\n\n    def grade")),
])
def coefficient_kind(ctx):
    """A coefficient read inside a registered function is a scalar with the spelling's parity sign (DT)."""
    check_coefficient_kind(ctx, ctx.repo, f"{TR}.__getattr__")


# --------------------------------------------------------------------------- grade
def _parse_grade_expr(expr: str, n: int = 16, repo=None):
    """Which positions of its argument the recorded expression selects, in order: the expression is evaluated by the
    interpreter with X bound to the list of positions [0, 1, ..., n-1] (whatever its spelling: a comprehension over an
    index tuple, a list of subscripts, a slice, operator.itemgetter, ...)."""
    try:
        t = ast.parse(expr, mode="eval").body
    except SyntaxError:
        return None
    from ..absint import Interp, Env, Raised
    from ..model import Repo
    it = Interp(repo or Repo({}, {}, "expr"), {}, {}, max_steps=20000)
    try:
        v = it.eval(t, Env({"X": list(range(n))}, {}, "<recorded>", it))
    except (NoValue, Raised):
        return None
    if isinstance(v, (list, tuple)) and all(isinstance(i, int) and not isinstance(i, bool) for i in v):
        return list(v)
    return None


@rule("C11.grade", props=["C11", "C08", "C04", "C15"], min_instances=8, mutants=[
    ("keys in canonical order, indices in storage order", ("taperecorder", "        indices_keys = [(idx, k) for idx, k in enumerate(self.keys()) if k in basis_blades]\n        indices, keys = zip(*indices_keys) if indices_keys else (tuple(), tuple())",
                                                            "        keys = tuple(k for k in basis_blades if k in self.keys())\n        indices = tuple(idx for idx, k in enumerate(self.keys()) if k in basis_blades)")),
    ("grade selects the complement", ("taperecorder", "for idx, k in enumerate(self.keys()) if k in basis_blades]", "for idx, k in enumerate(self.keys()) if k not in basis_blades]")),
    ("consecutive grades are taken out as one slice of the argument", ("taperecorder", "        expr = f\"[{self.expr}[idx] for idx in {indices}]\"", "        expr = f\"list({self.expr}[{indices[0]}:{indices[-1] + 1}])\" if indices else f\"[{self.expr}[idx] for idx in {indices}]\"")),
], rewrites=[
    ("selected coefficients spelled one by one", ("taperecorder", "        expr = f\"[{self.expr}[idx] for idx in {indices}]\"", "        expr = \"[\" + \", \".join(f\"{self.expr}[{idx}]\" for idx in indices) + \"]\"")),
])
def grade(ctx):
    """Recorded grade selection pairs every selected key with the position of that key in the recorder's own
    storage order (same blades and coefficients as MultiVector.grade)."""
    from ..symenv import rep_algebra
    repo = ctx.repo
    q = f"{TR}.grade"
    fn = ctx.func(q)
    keys = (6, 0, 3, 2, 5, 7)          # storage order e23, e, e12, e2, e13, e123
    # grade selection is in the set of constructs for which the registered function must EQUAL the plain one, and MultiVector.grade
    # takes the grades in any order and however often (F26): so does the recorder - raising is not an admissible answer here
    for grades in ((2,), (0, 2), (1, 3), ((2, 3),), (2, 0), (1, 1), ((3, 1),), (3,)):
        c = f"{q}#{grades}"
        alg = rep_algebra(3)
        rec = Obj("TapeRecorder", {"algebra": alg, "expr": "X", "_keys": keys}, {"keys": lambda: keys})
        it = make_interp(repo)
        try:
            out = it.run(q, [rec] + list(grades))
        except NoValue as exc:
            raise Unknown(c, str(exc), fn)
        if out[0] == "raise":
            ctx.violation(c, f"x.grade{grades} inside a registered function raises {out[1]}; the plain function selects the grades "
                             f"{sorted(set(grades[0] if isinstance(grades[0], tuple) else grades))}", fn)
            continue
        v = out[1]
        if not (isinstance(v, Obj) and v.kind == "TapeRecorder" and isinstance(v.attrs.get("expr"), str)):
            raise Unknown(c, f"grade returns {v!r}", fn)
        idxs = _parse_grade_expr(v.attrs["expr"], len(keys))
        rkeys = v.attrs.get("_keys")
        if idxs is None or rkeys is None:
            raise Unknown(c, f"unrecognised recorded expression {v.attrs['expr']!r}", fn)
        gset = grades[0] if isinstance(grades[0], tuple) else grades
        want = {k for k in keys if bin(k).count("1") in gset}
        got_pairs = list(zip(rkeys, idxs))
        problems = []
        if len(rkeys) != len(idxs):
            problems.append(f"{len(rkeys)} keys for {len(idxs)} coefficients")
        if set(rkeys) != want:
            problems.append(f"selects blades {sorted(rkeys)}, MultiVector.grade selects {sorted(want)}")
        wrong = [(k, i) for k, i in got_pairs if not (0 <= i < len(keys)) or keys[i] != k]
        if wrong:
            problems.append(f"key {wrong[0][0]} is paired with X[{wrong[0][1]}], which is the coefficient of blade "
                            f"{keys[wrong[0][1]] if 0 <= wrong[0][1] < len(keys) else '?'}")
        if problems:
            ctx.violation(c, f"recorded grade{grades} of an argument stored as {keys}: " + "; ".join(problems), fn)
        else:
            ctx.ok(c, fn, pairs=got_pairs)


# --------------------------------------------------------------------------- names
IMPLICIT_MODULE_NAMES = {"__file__", "__name__", "__doc__", "__package__", "__spec__", "__loader__", "__builtins__",
                         "__annotations__", "__dict__", "__class__", "__module__", "__qualname__"}


def unresolved_globals(source: str, path: str):
    top = symtable.symtable(source, path, "exec")
    module_defs = {s.get_name() for s in top.get_symbols() if s.is_assigned() or s.is_imported() or s.is_namespace()}
    star = "import *" in source
    out = []

    def visit(tab, qual):
        for s in tab.get_symbols():
            name = s.get_name()
            if not s.is_referenced():
                continue
            if tab.get_type() == "module":
                is_glob = not (s.is_assigned() or s.is_imported() or s.is_namespace())
            else:
                is_glob = s.is_global() or (tab.get_type() == "class" and not s.is_local() and not s.is_free())
                if s.is_local() or s.is_free() or s.is_parameter():
                    is_glob = False
            if not is_glob:
                continue
            if name in module_defs or hasattr(builtins, name) or name in IMPLICIT_MODULE_NAMES or star:
                continue
            out.append((qual, name, tab.get_lineno()))
        for ch in tab.get_children():
            visit(ch, f"{qual}.{ch.get_name()}" if qual else ch.get_name())
    visit(top, "")
    return out, len(list(_all_tables(top)))


def _all_tables(t):
    yield t
    for c in t.get_children():
        yield from _all_tables(c)


@rule("C11.names", props=["C11"], min_instances=9, mutants=[
    ("drop `import string` from operator_dict", ("operator_dict", "import string\n", "")),
    ("drop partialmethod import", ("taperecorder", "from functools import cached_property, partial, partialmethod", "from functools import cached_property, partial")),
])
def names(ctx):
    """No scope of the package reads a global name that nothing defines (NAMES, symtable)."""
    for mname, mod in sorted(ctx.repo.modules.items()):
        bad, nscopes = unresolved_globals(mod.source, mod.path)
        if not bad:
            ctx.ok(f"{mname}", None, module=mname, scopes=nscopes)
        seen = set()
        for qual, name, line in bad:
            key = (qual, name)
            if key in seen:
                continue
            seen.add(key)
            node = ast.Pass(lineno=line, col_offset=0)
            ctx.violation(f"{mname}.{qual}#{name}" if qual else f"{mname}#{name}",
                          f"name {name!r} is read in scope {qual or '<module>'} but is neither defined at module level, "
                          f"imported, nor a builtin: NameError at run time", node, module=mname)


@fixture_for("C11.names")
def _fx_names(ctx):
    bad, _ = unresolved_globals("def f(x):\n    return re.match('a', x)\n", "fixture")
    for qual, name, line in bad:
        ctx.violation(f"fixture.{qual}#{name}", "unresolved")


# --------------------------------------------------------------------------- emission-pairing
def _token(name):
    return Obj("token", {"fmt": name})


def check_emission(ctx, repo):
    calls = []

    def opdict(opname):
        def getitem(key):
            calls.append((opname, key))
            idx = len(calls)
            func = Obj("function", {"__name__": f"FN{idx}", "fmt": f"<function FN{idx}>"})
            return (_token(f"KEYS_OUT{idx}"), func)
        return Obj("OperatorDict", {}, {}, getitem=getitem)

    def algebra():
        return Obj("algebra", {}, {"__getattr__": opdict})

    def rec(expr, keys_name, alg):
        k = _token(keys_name)
        return Obj("TapeRecorder", {"algebra": alg, "expr": expr, "_keys": k}, {"keys": lambda: k})

    def result_fields(v):
        if isinstance(v, Obj) and v.kind == "TapeRecorder":
            return v.attrs.get("expr"), v.attrs.get("_keys")
        return None, None

    # binary_operator with a recorder / a plain number on the right, for every binary operator of the registry
    reg = operator_registry(repo)
    binary_ops = [n for n, row in reg.items() if "Unary" not in row.dict_class]
    unary_ops = [n for n, row in reg.items() if "Unary" in row.dict_class]
    q = f"{TR}.binary_operator"
    fn = ctx.func(q)
    for other_kind, number in (("recorder", None), ("number", 5), ("number", 1), ("number", 0), ("number", 1234567.25),
                               ("number", 0.1234567891), ("number", -2.5)):
        bad_ops = []
        for requested in binary_ops:
            calls.clear()
            alg = algebra()
            a = rec("EXPR_A", "KEYS_A", alg)
            b = rec("EXPR_B", "KEYS_B", alg) if other_kind == "recorder" else number
            it = make_interp(repo)
            c = f"{q}#{other_kind}" + (f" {number}" if number not in (None, 5) else "")
            try:
                out = it.run(q, [a, b, requested])
            except NoValue as exc:
                raise Unknown(c, str(exc), fn)
            expr, keys = result_fields(out[1]) if out[0] == "return" else (None, None)
            identity_for_one = ("gp", "div", "op", "ip", "rc")     # x (.) 1 = x by the operators' definitions
            if out[0] == "return" and out[1] is a and not (number == 1 and requested in identity_for_one):
                # the recorder itself comes back: nothing is recorded, i.e. the operation is taken for the identity
                bad_ops.append(f"{requested} with the {other_kind} {number!r} records nothing and returns its left operand unchanged")
                continue
            if out[0] == "return" and out[1] is a:
                continue            # x * 1 and x / 1 ARE x
            if expr is None or len(calls) != 1:
                raise Unknown(c, f"unrecognised result {out!r} after {len(calls)} cache lookups (operator {requested})", fn)
            opname, key = calls[0]
            want_key = ("KEYS_A", "KEYS_B") if other_kind == "recorder" else ("KEYS_A", (0,))
            got_key = tuple(k.attrs["fmt"] if isinstance(k, Obj) else k for k in key) if isinstance(key, tuple) else key
            want_expr = "FN1(EXPR_A, EXPR_B)" if other_kind == "recorder" else f"FN1(EXPR_A, ({number},))"
            problems = []
            if opname != requested:
                problems.append(f"operator {requested!r} requested, {opname!r} looked up and recorded")
            if got_key != want_key:
                problems.append(f"{requested}: cache lookup key is {got_key}, expected {want_key} (operand order / scalar key)")
            if not isinstance(expr, str) or expr.replace(" ", "") != want_expr.replace(" ", ""):
                # any spelling of the same literal is the same call: compare the parsed call, the number by value and type
                same = False
                try:
                    call = ast.parse(expr, mode="eval").body if isinstance(expr, str) else None
                    if other_kind == "number" and isinstance(call, ast.Call) and un(call.func) == "FN1" and len(call.args) == 2 \
                            and un(call.args[0]) == "EXPR_A" and not call.keywords:
                        lit = ast.literal_eval(call.args[1])
                        same = isinstance(lit, tuple) and len(lit) == 1 and type(lit[0]) is type(number) and lit[0] == number
                except (SyntaxError, ValueError):
                    same = False
                if not same:
                    problems.append(f"{requested}: emitted call is {expr!r}, expected {want_expr!r}")
            if not (isinstance(keys, Obj) and keys.attrs.get("fmt") == "KEYS_OUT1"):
                problems.append(f"{requested}: recorded keys are not the keys_out of the same cache lookup")
            bad_ops.extend(problems)
        if bad_ops:
            ctx.violation(c, "; ".join(bad_ops[:4]) + (f" (+{len(bad_ops) - 4} more)" if len(bad_ops) > 4 else ""), fn)
        else:
            ctx.ok(c, fn, operators=len(binary_ops))

    # a constant that is NOT a number: its str() is written into the source, which is lossy (a MultiVector prints three significant
    # digits and omits zero coefficients, an ndarray prints as a list) - the property allows raising, never another value
    q = f"{TR}.binary_operator"
    fn = ctx.func(q)
    for label, const in (("a scalar multivector constant", Obj("MultiVector", {"fmt": "0.333", "_keys": (0,), "_values": [1 / 3]}, {"keys": lambda: (0,)})),
                         ("an ndarray constant", Obj("ndarray", {"fmt": "[2]"}))):
        c = f"{q}#{label}"
        bad = []
        for requested in binary_ops:
            calls.clear()
            alg = algebra()
            a = rec("EXPR_A", "KEYS_A", alg)
            it = make_interp(repo)
            try:
                out = it.run(q, [a, const, requested])
            except NoValue as exc:
                raise Unknown(c, str(exc), fn)
            if out[0] == "raise":
                continue
            expr, keys = result_fields(out[1])
            if isinstance(expr, str) and str(const) in expr.replace("EXPR_A", ""):
                bad.append(f"{requested}: records {expr!r}")
        if bad:
            ctx.violation(c, f"the printed form {str(const)!r} of {label} is written into the generated source ({bad[0]}; {len(bad)} operators): "
                             f"printing is lossy, so the registered function silently computes with another value than the plain function", fn)
        else:
            ctx.ok(c, fn, operators=len(binary_ops))

    q = f"{TR}.unary_operator"
    fn = ctx.func(q)
    problems = []
    for requested in unary_ops:
        calls.clear()
        alg = algebra()
        it = make_interp(repo)
        try:
            out = it.run(q, [rec("EXPR_A", "KEYS_A", alg), requested])
        except NoValue as exc:
            raise Unknown(q, str(exc), fn)
        expr, keys = result_fields(out[1]) if out[0] == "return" else (None, None)
        if expr is None or len(calls) != 1:
            raise Unknown(q, f"unrecognised result {out!r} (operator {requested})", fn)
        if calls[0][0] != requested:
            problems.append(f"operator {requested!r} requested, {calls[0][0]!r} looked up and recorded")
        k = calls[0][1]
        if not (isinstance(k, Obj) and k.attrs.get("fmt") == "KEYS_A"):
            problems.append(f"{requested}: cache lookup key is not the recorder's own key tuple")
        if not isinstance(expr, str) or expr.replace(" ", "") != "FN1(EXPR_A)":
            problems.append(f"{requested}: emitted call is {expr!r}, expected 'FN1(EXPR_A)'")
        if not (isinstance(keys, Obj) and keys.attrs.get("fmt") == "KEYS_OUT1"):
            problems.append(f"{requested}: recorded keys are not the keys_out of the same cache lookup")
    if problems:
        ctx.violation(q, "; ".join(problems[:4]), fn)
    else:
        ctx.ok(q, fn, operators=len(unary_ops))


@rule("C11.emission-pairing", props=["C11", "C03", "C16", "C09", "C12", "C13"], min_instances=7, mutants=[
    ("the number 1 is taken for the identity of every operator", ("taperecorder", "            # Assume scalar\n", "            # Assume scalar\n            if other == 1:\n                return self\n")),
    ("products with a plain number are recorded as the geometric product", ("taperecorder", "            # Assume scalar\n", "            if operator in ('op', 'ip', 'lc', 'rc', 'sp', 'acp'):\n                operator = 'gp'\n")),
    ("emit operands in swapped order", ("taperecorder", "expr = f'{func.__name__}({self.expr}, {other.expr})'", "expr = f'{func.__name__}({other.expr}, {self.expr})'")),
    ("swapped lookup key", ("taperecorder", "getattr(self.algebra, operator)[self.keys(), other.keys()]", "getattr(self.algebra, operator)[other.keys(), self.keys()]")),
    ("whatever is no recorder is pasted as text (F33)", ("taperecorder", "            if not isinstance(other, Number):\n", "            if False:\n")),
    ("only multivectors are refused, arrays are pasted as text", ("taperecorder", "            if not isinstance(other, Number):\n", "            if hasattr(other, 'algebra'):\n")),
    ("the number is written with six significant digits", ("taperecorder", "expr = f'{func.__name__}({self.expr}, ({other},))'", "expr = f'{func.__name__}({self.expr}, ({other:g},))'")),
    ("scalar emitted bare", ("taperecorder", "expr = f'{func.__name__}({self.expr}, ({other},))'", "expr = f'{func.__name__}({self.expr}, {other})'")),
])
def emission_pairing(ctx):
    """Emitted callee name, recorded keys and operand expressions come from one lookup, in operand order."""
    check_emission(ctx, ctx.repo)


# --------------------------------------------------------------------------- the recorder keeps what it is given
@rule("C11.recorder-keys", props=["C11", "C02", "C08"], min_instances=3, mutants=[
    ("recorders store their keys in canonical order", ("taperecorder", "        obj._keys = keys\n", "        obj._keys = tuple(k for k in algebra.canon2bin.values() if k in keys)\n")),
    ("recorders store their keys sorted", ("taperecorder", "        obj._keys = keys\n", "        obj._keys = tuple(sorted(keys))\n")),
])
def recorder_keys(ctx):
    """A recorder stands for an argument whose values arrive in the argument's own storage order: it must keep the key
    tuple it is created with, in that order (the functions it records are looked up, and compiled, for that order)."""
    from ..absint import ClassRef
    from ..symenv import rep_algebra
    repo = ctx.repo
    q = "taperecorder.TapeRecorder.__new__"
    fn = ctx.func(q)
    for keys in ((4, 1, 2), (6, 5, 3, 0), (7, 0)):
        c = f"{q}#keys={keys}"
        alg = rep_algebra(3)
        it = make_interp(repo)
        it.algebra = alg
        try:
            out = it.run(q, [ClassRef("TapeRecorder"), alg, "a", keys])
        except NoValue as exc:
            raise Unknown(c, str(exc), fn)
        if out[0] == "raise" or not isinstance(out[1], Obj):
            ctx.violation(c, f"creating a recorder with keys {keys} gives {out!r}", fn)
            continue
        try:
            got = it.call(it.getattr_value(out[1], "keys"), [], {})
        except NoValue as exc:
            raise Unknown(c, str(exc), fn)
        if isinstance(got, (tuple, list)) and tuple(got) == keys:
            ctx.ok(c, fn)
        else:
            ctx.violation(c, f"a recorder created with keys {keys} reports keys {got!r}: the functions recorded for it are generated for "
                             f"another storage order than the one its values arrive in, so coefficients land on the wrong blades", fn)


# --------------------------------------------------------------------------- do_compile template
@rule("C11.do-compile", props=["C11", "C09", "C04", "C08"], min_instances=2, mutants=[
    ("output keys re-sorted into canonical order, values not", ("codegen", "    return CodegenOutput(\n        res.keys() if not isinstance(res, str) else (0,), func\n    )", "    keys_out = res.keys() if not isinstance(res, str) else (0,)\n    keys_out = tuple(k for k in algebra.canon2bin.values() if k in keys_out)\n    return CodegenOutput(keys_out, func)")),
    ("compiled function lists its parameters in reverse", ("codegen", "    funcstr = f\"def {funcname}({', '.join(t.expr for t in tapes)}):\"", "    funcstr = f\"def {funcname}({', '.join(t.expr for t in reversed(tapes))}):\"")),
    ("compiled function returns the recorder of the first argument", ("codegen", "        funcstr += f\"    return {res.expr}\"", "        funcstr += f\"    return {tapes[0].expr}\"")),
    ("compiled in a private namespace", ("codegen", "    exec(c, namespace, funclocals)\n    # mtime has to be None or else linecache.checkcache will remove it\n    linecache.cache[filename] = (len(funcstr), None, funcstr.splitlines(True), filename) # type: ignore\n\n    func = funclocals[funcname]\n    return CodegenOutput(\n        res.keys()", "    exec(c, {}, funclocals)\n    # mtime has to be None or else linecache.checkcache will remove it\n    linecache.cache[filename] = (len(funcstr), None, funcstr.splitlines(True), filename) # type: ignore\n\n    func = funclocals[funcname]\n    return CodegenOutput(\n        res.keys()")),
])
def do_compile_rule(ctx):
    """do_compile emits `def name(<recorder names in order>): return <recorded expression>`, executes it in the
    algebra's name space (where the recorded callee names are resolved) and returns the recorded keys."""
    from ..absint import PyFunc
    from ..symenv import rep_algebra
    repo = ctx.repo
    q = "codegen.do_compile"
    fn = ctx.func(q)
    for label, result in (("recorder result", None), ("plain string result", "a[0] * 2")):
        c = f"{q}#{label}"
        numspace = {"marker": "NUMSPACE"}
        alg = rep_algebra(3, extra_attrs={"numspace": numspace})
        tapes = [Obj("TapeRecorder", {"algebra": alg, "expr": n, "_keys": k, "type_number": 7 + i}, {"keys": lambda k=k: k})
                 for i, (n, k) in enumerate((("a", (1, 2)), ("b", (4,))))]
        # the recorded result is stored in NON-canonical key order: the keys must be reported in the order of the values
        res = Obj("TapeRecorder", {"algebra": alg, "expr": "gp_1(a, b)", "_keys": (6, 5)}, {"keys": lambda: (6, 5)}) if result is None else result
        codegen = Obj("function", {"__name__": "user_fn"}, call=lambda *a: res)
        sources, execs = [], []
        it = make_interp(repo)
        it.algebra = alg

        def compile_(src, filename, mode):
            sources.append(src)
            return Obj("code", {"source": src})

        def exec_(code, g=None, l=None):
            execs.append(g)
            tree = ast.parse(code.attrs["source"])
            for n in tree.body:
                if isinstance(n, ast.FunctionDef) and isinstance(l, dict):
                    l[n.name] = Obj("function", {"__name__": n.name, "source": code.attrs["source"]})
        it.builtins["compile"] = PyFunc(compile_, "compile", True)
        it.builtins["exec"] = PyFunc(exec_, "exec", True)
        it.standins["linecache"] = Obj("module:linecache", {"cache": {}})
        try:
            out = it.run(q, [codegen] + tapes)
        except NoValue as exc:
            raise Unknown(c, str(exc), fn)
        if out[0] == "raise" or not sources:
            ctx.violation(c, f"do_compile {out[0]}s {out[1]!r} without emitting source", fn)
            continue
        try:
            tree = ast.parse(sources[-1]).body[0]
        except SyntaxError:
            ctx.violation(c, f"emitted source does not parse: {sources[-1]!r}", fn)
            continue
        problems = []
        params_ = [a.arg for a in tree.args.args]
        if params_ != ["a", "b"]:
            problems.append(f"parameters {params_}, expected the recorder names in argument order ['a', 'b']")
        ret = un(tree.body[-1].value) if isinstance(tree.body[-1], ast.Return) else None
        want_ret = "gp_1(a, b)" if result is None else "(a[0] * 2,)"
        if ret is None or ret.replace(" ", "") != want_ret.replace(" ", ""):
            problems.append(f"returns {ret!r}, expected the recorded expression {want_ret!r}")
        if not execs or execs[-1] is not numspace:
            problems.append("the source is not executed in the algebra's name space, so the recorded callee names cannot be resolved")
        keys = out[1].attrs.get("keys_out") if isinstance(out[1], Obj) else None
        want_keys = (6, 5) if result is None else (0,)
        if keys is None or tuple(keys) != want_keys:
            problems.append(f"returns keys {keys!r}, expected {want_keys!r} (the key order of the recorded result, which is the order "
                            f"in which the compiled function returns the values)")
        if problems:
            ctx.violation(c, "; ".join(problems) + f" | emitted: {sources[-1]!r}", fn)
        else:
            ctx.ok(c, fn, emitted=sources[-1])


# --------------------------------------------------------------------------- nested registered calls, registration
@rule("C11.nested-registry", props=["C11"], min_instances=7, mutants=[
    ("a symbolically registered function does not know the recorders (F34)", ("operator_dict", "        if mvs and all(isinstance(mv, TapeRecorder) for mv in mvs):\n            # Called from within", "        if False:\n            # Called from within")),
    ("a symbolically registered function records its arguments reversed", ("operator_dict", "            expr = f\"{func.__name__}({', '.join(mv.expr for mv in mvs)})\"\n            return TapeRecorder(self.algebra, keys=keys_out, expr=expr)\n\n        if len(mvs) == 2:", "            expr = f\"{func.__name__}({', '.join(mv.expr for mv in mvs[::-1])})\"\n            return TapeRecorder(self.algebra, keys=keys_out, expr=expr)\n\n        if len(mvs) == 2:")),
    ("nested call emits its arguments reversed", ("operator_dict", "            keys_out, func = self[keys_in]\n            expr = f\"{func.__name__}({', '.join(mv.expr for mv in mvs)})\"", "            keys_out, func = self[keys_in]\n            expr = f\"{func.__name__}({', '.join(mv.expr for mv in reversed(mvs))})\"")),
    ("nested call records the input keys", ("operator_dict", "            return TapeRecorder(self.algebra, keys=keys_out, expr=expr)\n\n        # Make sure all inputs are multivectors. If an input is not, assume its scalar.\n        mvs = [mv if isinstance(mv, MultiVector) else MultiVector.fromkeysvalues(self.algebra, (0,), (mv,))\n               for mv in mvs]\n        if any((mvs[0].algebra != mv.algebra) for mv in mvs[1:]):\n            raise AlgebraError(\"Cannot multiply elements of different algebra's.\")\n\n        keys_in = tuple(mv.keys() for mv in mvs)\n        values_in = tuple(mv.values() for mv in mvs)\n        keys_out, func = self[keys_in]\n\n        if not", "            return TapeRecorder(self.algebra, keys=keys_in[0], expr=expr)\n\n        # Make sure all inputs are multivectors. If an input is not, assume its scalar.\n        mvs = [mv if isinstance(mv, MultiVector) else MultiVector.fromkeysvalues(self.algebra, (0,), (mv,))\n               for mv in mvs]\n        if any((mvs[0].algebra != mv.algebra) for mv in mvs[1:]):\n            raise AlgebraError(\"Cannot multiply elements of different algebra's.\")\n\n        keys_in = tuple(mv.keys() for mv in mvs)\n        values_in = tuple(mv.values() for mv in mvs)\n        keys_out, func = self[keys_in]\n\n        if not")),
    ("symbolic=True registers a non-symbolic registry", ("algebra", "            if not symbolic:\n                self.registry[expr] = Registry(name, codegen=expr, algebra=self)", "            if True:\n                self.registry[expr] = Registry(name, codegen=expr, algebra=self)")),
])
def nested_registry(ctx):
    """A registered function called inside another one is recorded as a by-name call of the function of the cache
    entry for the recorders' key tuples, arguments in order; Algebra.register builds a Registry (or an
    OperatorDict for symbolic=True) for the given function under its own name."""
    from ..absint import PyFunc
    repo = ctx.repo
    # both kinds of registered function (Registry for register(f), OperatorDict for register(symbolic=True)(f)), two and three arguments
    for cls_name, nargs in (("Registry", 2), ("OperatorDict", 2), ("OperatorDict", 3), ("Registry", 1), ("OperatorDict", 1)):
        q = f"operator_dict.{cls_name}.__call__"
        fn = ctx.func(q)
        c = q + "#recorders" + ("" if nargs == 2 else f", {nargs} argument{'s' if nargs > 1 else ''}")
        looked = []
        func = Obj("function", {"__name__": "inner_7_x_2_5", "fmt": "<fn>"})

        def getitem(key, looked=looked, func=func):
            looked.append(tuple(k.attrs.get("fmt") if isinstance(k, Obj) else k for k in key))
            return (Obj("token", {"fmt": "KEYS_OUT"}), func)
        alg = Obj("algebra", {"wrapper": None, "numspace": {}})
        me = Obj(cls_name, {"algebra": alg, "name": "inner"}, getitem=getitem)

        def rec(expr, kname, alg=alg):
            k = Obj("token", {"fmt": kname})
            return Obj("TapeRecorder", {"algebra": alg, "expr": expr, "_keys": k}, {"keys": lambda: k})
        it = make_interp(repo)
        it.instance_classes[cls_name] = f"operator_dict.{cls_name}"
        created = {}
        prev = it.class_call_hook

        def cch(name, args, kwargs, created=created, prev=prev):
            if name == "TapeRecorder":
                vals = dict(zip(["algebra", "expr", "keys"], args))
                vals.update(kwargs)
                created.update(vals)
                return Obj("TapeRecorder", {"algebra": vals.get("algebra"), "expr": vals.get("expr"), "_keys": vals.get("keys")})
            return prev(name, args, kwargs)
        it.class_call_hook = cch
        letters = "ABC"[:nargs]
        try:
            out = it.run(q, [me] + [rec(f"EXPR_{x}", f"KEYS_{x}") for x in letters])
        except NoValue as exc:
            if cls_name == "Registry":
                raise Unknown(c, str(exc), fn)
            out = ("gap", str(exc))
        problems = []
        if out[0] == "raise" or (out[0] == "gap" and not created):
            problems.append(f"the call with the recorders of an enclosing registered function {'raises ' + str(out[1]) if out[0] == 'raise' else 'is not recorded (' + str(out[1])[:80] + ')'}: "
                            f"a function registered with {'symbolic=True' if cls_name == 'OperatorDict' else 'register(f)'} cannot be called inside a registered function")
        else:
            want_keys = tuple(f"KEYS_{x}" for x in letters)
            want_expr = "inner_7_x_2_5(" + ",".join(f"EXPR_{x}" for x in letters) + ")"
            if looked != [want_keys]:
                problems.append(f"cache lookups {looked}, expected one with {want_keys}")
            if not isinstance(created.get("expr"), str) or created["expr"].replace(" ", "") != want_expr:
                problems.append(f"recorded expression {created.get('expr')!r}, expected {want_expr!r}")
            if not (isinstance(created.get("keys"), Obj) and created["keys"].attrs.get("fmt") == "KEYS_OUT"):
                problems.append("recorded keys are not the keys_out of that cache entry")
        if problems:
            ctx.violation(c, "; ".join(problems), fn)
        else:
            ctx.ok(c, fn, emitted=created["expr"])
    # Algebra.register
    q = "algebra.Algebra.register"
    fn = ctx.func(q)
    for symbolic in (False, True):
        c = f"{q}#symbolic={symbolic}"
        made = {}

        def cch2(name, args, kwargs, made=made):
            if name in ("Registry", "OperatorDict"):
                made.update(kind=name, args=args, kwargs=kwargs)
                return Obj(name)
            return NotImplemented
        it = make_interp(repo)
        it.class_call_hook = cch2
        algebra = Obj("algebra", {"registry": {}})
        user = Obj("function", {"__name__": "myexpr", "fmt": "<myexpr>"})
        try:
            dec = it.run(q, [algebra], {"symbolic": symbolic})
            if dec[0] == "return" and not (isinstance(dec[1], Obj) and dec[1].kind in ("Registry", "OperatorDict")):
                res = it.call(dec[1], [user], {})
            else:
                res = dec[1]
        except NoValue as exc:
            raise Unknown(c, str(exc), fn)
        want_kind = "OperatorDict" if symbolic else "Registry"
        ok = made.get("kind") == want_kind and made.get("kwargs", {}).get("codegen") is user and made["kwargs"].get("algebra") is algebra \
            and (list(made.get("args", [])) + [made["kwargs"].get("name")])[0] == "myexpr" and algebra.attrs["registry"].get(user) is res
        if ok:
            ctx.ok(c, fn, kind=want_kind)
        else:
            ctx.violation(c, f"register(symbolic={symbolic}) builds {made.get('kind')} with {made.get('args')} "
                             f"{ {k: str(v) for k, v in made.get('kwargs', {}).items()} }; expected a {want_kind} named 'myexpr' for the "
                             f"given function and this algebra, stored in and returned from the registry", fn)
