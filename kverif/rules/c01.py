"""C01 - Basis-blade products follow the Clifford relations of the chosen signature."""
from __future__ import annotations

import ast
import re
from itertools import permutations

from ..astx import un, NoValue, Poly, const_value
from ..absint import Obj, Unk, PyFunc, ClassRef, Closure, Raised
from ..core import rule, fixture_for, Unknown
from ..products import PV, pv_atom, poly_of_value
from ..symenv import make_interp

INFO = {
    "id": "C01",
    "technique": "abstract interpretation of Algebra.__post_init__ / _prepare_signs / _swap_blades / _blade2canon / cayley "
                 "with a SYMBOLIC metric (one indeterminate per generator) on representative basis configurations, against "
                 "the checker's own normal-ordering of generator words; decision tables for the lazy table and the blade "
                 "dictionary",
    "explanation": "Clause-level. Decided, for each representative basis configuration (default bases with start index 1, 0 "
                   "(PGA) and an explicit 2; the 2DPGA and 3DPGA custom bases read from the source, a permuted-generator "
                   "custom basis; a 7-dimensional algebra whose table is filled lazily) and for ALL signatures at once "
                   "(the metric entries are indeterminates s_g): every entry of the sign table built by the repository's "
                   "own code equals (-1)^swaps times the product of the metric indeterminates of the eliminated "
                   "generators, where swaps is the number of transpositions that bring the concatenated spellings into the "
                   "spelling of the result blade - i.e. the Clifford relations with the blade named e_ij..k read as the "
                   "ordered product; the lazily filled table is the same function and stores what it computes; the Cayley "
                   "table prints that same table with the left factor first; a non-canonical blade spelling resolves to "
                   "its canonical blade with the parity of the permutation, and the blade dictionary negates on odd "
                   "parity. NOT decided: configurations other than the representatives (the code is uniform in the "
                   "configuration, but that uniformity is not proved).",
    "decided": ["C01.sign-table", "C01.lazy-eager", "C01.cayley", "C01.blade-parity"],
    "not_decided": ["bases / dimensions other than the representative configurations", "associativity as a separate "
                    "statement (it follows from the normal-ordering specification the table is compared with)"],
    "assumptions": ["Clifford relations define the product of generator words uniquely (normal ordering)"],
}


# --------------------------------------------------------------------------- the checker's specification
def normal_order(word, target):
    """Bring a word of generator characters into the order of `target` (a word without repetitions containing
    exactly the characters that occur an odd number of times); returns (swaps, eliminated characters)."""
    word = list(word)
    swaps = 0
    eliminated = []
    # contract equal generators: move the second occurrence next to the first
    i = 0
    while i < len(word):
        ch = word[i]
        try:
            j = word.index(ch, i + 1)
        except ValueError:
            i += 1
            continue
        swaps += j - i - 1
        del word[j]
        del word[i]
        eliminated.append(ch)
    # sort the remaining (distinct) generators into the target order
    pos = {c: k for k, c in enumerate(target)}
    seq = [pos[c] for c in word]
    swaps += sum(1 for a in range(len(seq)) for b in range(a + 1, len(seq)) if seq[a] > seq[b])
    return swaps, eliminated


def spec_entry(eI, eJ, eK, metric_pos):
    swaps, eliminated = normal_order(eI[1:] + eJ[1:], eK[1:])
    p = Poly.const(-1 if swaps % 2 else 1)
    for ch in eliminated:
        p = p * Poly.atom(f"s{metric_pos[ch]}")
    return p


# --------------------------------------------------------------------------- building the algebra stand-in from source
NAMED_OPTIONS = {"graded": True, "cse": False, "wrapper": "WRAPPER-TOKEN"}    # options handed to fromname in the probe call


def named_algebras(repo):
    """What Algebra.fromname constructs for each name it knows: {name: (pqr, basis, keyword names)}.  The classmethod
    is interpreted from source with the class replaced by a recorder of the constructor call; candidate names are the
    string constants of its body (a blade name such as 'e01' simply raises and is skipped)."""
    cache = getattr(repo, "_named_algebras", None)
    if cache is not None:
        return cache
    fn = repo.func("algebra.Algebra.fromname")
    doc = ast.get_docstring(fn)
    consts = []
    # candidate names: string constants of the body and of the module-level constants the body reads (a table of the
    # named algebras may live at module level)
    sources = [fn]
    mod = repo.modules["algebra"].tree
    read = {n.id for n in ast.walk(fn) if isinstance(n, ast.Name) and isinstance(n.ctx, ast.Load)}
    for st in mod.body:
        if isinstance(st, (ast.Assign, ast.AnnAssign)):
            tg = st.targets if isinstance(st, ast.Assign) else [st.target]
            if any(isinstance(t, ast.Name) and t.id in read for t in tg) and st.value is not None:
                sources.append(st.value)
    for src in sources:
        for n in ast.walk(src):
            if isinstance(n, ast.Constant) and isinstance(n.value, str) and n.value != doc and n.value not in consts \
                    and not re.fullmatch(r"e[0-9a-fA-F]*", n.value) and len(n.value) < 40:
                consts.append(n.value)
    out = {}
    for name in consts:
        it = make_interp(repo)
        seen = {}

        def hook(cname, args, kwargs, _seen=seen):
            if cname != "Algebra":
                return NotImplemented           # helper records of the table of names are built as usual
            _seen["call"] = (list(args), dict(kwargs))
            return Obj("Algebra", {"fmt": "<Algebra>"})
        it.class_call_hook = hook
        try:
            res = it.run("algebra.Algebra.fromname", [ClassRef("Algebra"), name], dict(NAMED_OPTIONS))
        except NoValue as exc:
            raise Unknown("algebra.Algebra.fromname", f"fromname({name!r}) cannot be evaluated: {exc}", fn)
        if res[0] == "raise" or "call" not in seen:
            continue
        args, kwargs = seen["call"]
        vals = {"p": 0, "q": 0, "r": 0}
        vals.update(dict(zip(("p", "q", "r"), args)))
        vals.update({k: v for k, v in kwargs.items() if k in vals})
        basis = kwargs.get("basis")
        if not all(isinstance(vals[k], int) for k in vals):
            raise Unknown("algebra.Algebra.fromname", f"fromname({name!r}) constructs Algebra({args}, {kwargs})", fn)
        passed = {k: kwargs.get(k, "<missing>") for k in NAMED_OPTIONS}
        out[name] = ([vals["p"], vals["q"], vals["r"]], list(basis) if isinstance(basis, (list, tuple)) else None,
                     sorted(k for k in kwargs if k not in NAMED_OPTIONS), passed)
    repo._named_algebras = out
    return out


def read_named_basis(repo, name):
    fn = repo.func("algebra.Algebra.fromname")
    table = named_algebras(repo)
    if name not in table or table[name][1] is None:
        raise Unknown("algebra.Algebra.fromname", f"named basis {name} not found", fn)
    pqr, basis = table[name][:2]
    return list(basis), list(pqr)


def build_algebra(repo, p=0, q=0, r=0, signature=None, start_index=None, basis=None, _prepare=None):
    """Run Algebra.__post_init__ from source on a stand-in instance; returns (interp, algebra object)."""
    it = make_interp(repo, max_steps=3_000_000)
    it.instance_classes.update({"Algebra": "algebra.Algebra", "BladeDict": "algebra.BladeDict"})
    it.plain_classes.update({"BladeDict": "algebra.BladeDict", "DefaultKeyDict": "algebra.DefaultKeyDict"})
    # np.array copies; np.asarray / asanyarray hand an array argument back (the user's signature may be an ndarray)
    it.standins["numpy"] = Obj("module:numpy", {"array": PyFunc(lambda x, *a, **k: list(x), "np.array", True),
                                                "asarray": PyFunc(lambda x, *a, **k: x, "np.asarray", True),
                                                "asanyarray": PyFunc(lambda x, *a, **k: x, "np.asanyarray", True)})
    alg = Obj("Algebra", {"p": p, "q": q, "r": r, "signature": signature, "start_index": start_index,
                          "basis": list(basis or []), "graded": False, "pretty_blade": "e", "cse": True,
                          "wrapper": None, "codegen_symbolcls": None, "numspace": {}, "registry": {}})
    # any other dataclass field gets its declared default (default= literal or default_factory of a builtin)
    for st in repo.cls("algebra.Algebra").body:
        if isinstance(st, ast.AnnAssign) and isinstance(st.target, ast.Name) and st.target.id not in alg.attrs \
                and isinstance(st.value, ast.Call):
            for kw in st.value.keywords:
                if kw.arg == "default_factory" and un(kw.value) in ("dict", "list", "set", "tuple"):
                    alg.attrs[st.target.id] = {"dict": dict, "list": list, "set": set, "tuple": tuple}[un(kw.value)]()
                elif kw.arg == "default":
                    try:
                        alg.attrs[st.target.id] = ast.literal_eval(kw.value)
                    except Exception:
                        pass
    it.algebra = alg
    # the operator fields: the real dataclass fields, each instantiated as a stand-in of its declared class; of the
    # operators only `neg` is applicable (a blade asked for in an odd spelling is the negated canonical blade)
    from .c14 import dataclass_fields
    flds = dataclass_fields(repo, "algebra.Algebra")
    opkinds = {f.attrs["type"].name for f in flds if "codegen" in f.attrs["metadata"]}
    it.standins["dataclasses.fields"] = PyFunc(lambda o: list(flds), "fields", True)
    prev_hook = it.class_call_hook

    def negate(mv):
        if isinstance(mv, Obj) and mv.kind == "MultiVector" and isinstance(mv.attrs.get("_values"), (list, tuple)) \
                and all(isinstance(v, (int, float)) for v in mv.attrs["_values"]):
            return Obj("MultiVector", dict(mv.attrs, _values=[-v for v in mv.attrs["_values"]]))
        raise NoValue("neg of a non-numeric multivector stand-in")

    def hook(cname, args, kwargs):
        if cname in opkinds:
            return Obj(cname, dict(kwargs, fmt=f"<{cname} {kwargs.get('name')}>"), call=negate if kwargs.get("name") == "neg" else None)
        return prev_hook(cname, args, kwargs) if prev_hook is not None else None
    it.class_call_hook = hook
    if _prepare is not None:
        _prepare(it, alg)
    out = it.run("algebra.Algebra.__post_init__", [alg])
    if out[0] == "raise":
        raise Raised(out[1])
    return it, alg


def symbolic_table(it, alg, pairs=None):
    """Sign table with the metric replaced by indeterminates s_<generator char>: {(I, J): Poly}."""
    d = alg.attrs["d"]
    # one indeterminate per POSITION of the signature: the metric of a generator named c is the entry at
    # position int(c, 16) - (smallest generator label), whatever bit the generator is assigned
    alg.attrs["signature"] = [pv_atom(f"s{i}") for i in range(d)]
    fn = it._class_def("Algebra", "_prepare_signs")
    signs = it.call_function(fn, [alg], {}, {}, "algebra")
    table = {}
    if isinstance(signs, dict):
        for k, v in signs.items():
            table[k] = poly_of_value(v)
        return table, "eager", signs
    if isinstance(signs, Obj) and signs.kind == "DefaultKeyDict":
        # read every sampled pair THROUGH the table object, in sequence on one object (as the library does), so that
        # whatever the factory or __missing__ stores besides the requested entry is seen by later reads
        for key in pairs or []:
            table[key] = poly_of_value(it.subscript(signs, key, None))
        return table, "lazy", signs
    raise NoValue(f"_prepare_signs returns {signs!r}")


CONFIGS = {
    "default d=3 (start index 1)": dict(p=2, q=1),
    "default PGA d=3 (start index 0)": dict(p=2, r=1),
    "default d=4, start_index=2": dict(p=2, q=1, r=2 - 1, start_index=2),
    "explicit signature [-1,0,1,1]": dict(signature=[-1, 0, 1, 1]),
    "custom basis, permuted generators": dict(p=3, basis=["e", "e2", "e3", "e1", "e23", "e31", "e12", "e123"]),
    "custom basis, spelled blades": dict(p=2, r=1, basis=["e", "e1", "e0", "e2", "e10", "e02", "e21", "e021"]),
    "custom basis, labels from 0 in a non-degenerate algebra": dict(p=1, q=1, basis=["e", "e0", "e1", "e01"]),
    "custom basis, labels from 3 in a PGA": dict(p=2, r=1, basis=["e", "e3", "e4", "e5", "e34", "e35", "e45", "e345"]),
    "default d=3, explicit start_index=0": dict(p=2, q=1, start_index=0),
}


def check_table(ctx, repo, label, kwargs, c, fn, pairs=None):
    try:
        it, alg = build_algebra(repo, **kwargs)
        table, mode, signs = symbolic_table(it, alg, pairs)
    except NoValue as exc:
        raise Unknown(c, str(exc), fn)
    except Raised as r:
        ctx.violation(c, f"constructing the algebra ({label}) raises {r.name}", fn)
        return None
    b2c = alg.attrs["bin2canon"]
    c2b = alg.attrs["canon2bin"]
    labels = [n[1:] for n in c2b if len(n) == 2]
    lowest = min(int(l, 16) for l in labels) if labels else 0
    metric_pos = {l: int(l, 16) - lowest for l in labels}
    problems = []
    if not kwargs.get("basis"):
        r_ = kwargs.get("r", 0) if kwargs.get("signature") is None else list(kwargs["signature"]).count(0)
        want_start = kwargs["start_index"] if kwargs.get("start_index") is not None else (0 if r_ == 1 else 1)
        want_labels = [format(want_start + i, "x") for i in range(alg.attrs["d"])]
        got_labels = [b2c[1 << i][1:] for i in range(alg.attrs["d"])] if all((1 << i) in b2c for i in range(alg.attrs["d"])) else None
        if got_labels != want_labels:
            problems.append(f"generators are named {got_labels}, expected {want_labels} (position + start index "
                            f"{want_start}{' given explicitly' if kwargs.get('start_index') is not None else ' by default'})")
    if sorted(b2c) != list(range(2 ** alg.attrs["d"])) or {v: k for k, v in b2c.items()} != dict(c2b):
        problems.append(f"canon2bin / bin2canon are not inverse bijections onto 0..2^d-1: {b2c}")
    bad = []
    for (I, J), got in table.items():
        want = spec_entry(b2c[I], b2c[J], b2c[I ^ J], metric_pos)
        if got is None or got != want:
            bad.append(((b2c[I], b2c[J]), got, want))
    if bad:
        (a, b), got, want = bad[0]
        problems.append(f"{len(bad)} of {len(table)} table entries differ from the Clifford relations, e.g. {a} * {b}: table "
                        f"says {got!r} x {b2c[c2b[a] ^ c2b[b]]}, ordered product of the spelled generators gives {want!r}")
    if problems:
        ctx.violation(c, f"{label}: " + "; ".join(problems), fn, mode=mode)
    else:
        ctx.ok(c, fn, mode=mode, entries=len(table), basis=list(c2b)[:9])
    return it, alg, signs


@rule("C01.sign-table", props=["C01", "C14"], min_instances=11, mutants=[
    ("swap count off by one", ("algebra", "        swaps += len(blade1) - idx - 1", "        swaps += len(blade1) - idx")),
    ("metric indexed without start_index", ("algebra", "sign *= self.signature[int(key, base=16) - self.start_index]", "sign *= self.signature[int(key, base=16) - 1]")),
    ("target reordering not counted", ("algebra", "            swaps += idx - i", "            swaps += 0")),
    ("metric applied to the result blade instead of the eliminated generators", ("algebra", "            for key in eliminated:", "            for key in prod:")),
    ("parity test inverted", ("algebra", "            sign = -1 if swaps % 2 else 1", "            sign = 1 if swaps % 2 else -1")),
    ("explicit start_index=0 treated as not given", ("algebra", "        if self.start_index is None:\n            self.start_index = 0 if self.r == 1 else 1", "        if not self.start_index:\n            self.start_index = 0 if self.r == 1 else 1")),
], rewrites=[
    ("custom basis bits assigned in sorted generator order (any consistent bit assignment satisfies the relations)", ("algebra", "vec2bin = {vec: 2 ** j for j, vec in enumerate(vecs)}", "vec2bin = {vec: 2 ** j for j, vec in enumerate(sorted(vecs))}")),
    ("(-1) ** swaps", ("algebra", "            sign = -1 if swaps % 2 else 1", "            sign = (-1) ** swaps")),
])
def sign_table(ctx):
    """The sign table equals normal ordering of the spelled generators, for all signatures, per configuration."""
    repo = ctx.repo
    fn = ctx.func("algebra.Algebra._prepare_signs")
    configs = dict(CONFIGS)
    for name in ("2DPGA", "3DPGA"):
        basis, pqr = read_named_basis(repo, name)
        configs[f"named basis {name}"] = dict(p=pqr[0], q=pqr[1], r=pqr[2], basis=basis)
    if ctx.tier == "thorough":
        basis, pqr = read_named_basis(repo, "STAP")
        configs["named basis STAP (d=5)"] = dict(p=pqr[0], q=pqr[1], r=pqr[2], basis=basis)
        configs["default d=5, signature [+,-,0,+,-]"] = dict(signature=[1, -1, 0, 1, -1])
        configs["custom basis d=4, spelled blades"] = dict(p=3, q=1, basis=[
            "e", "e4", "e2", "e1", "e3", "e24", "e14", "e43", "e21", "e32", "e13", "e421", "e432", "e314", "e123", "e1234"])
    for label, kwargs in configs.items():
        check_table(ctx, repo, label, kwargs, f"algebra.Algebra._prepare_signs#{label}", fn)


@rule("C01.lazy-eager", props=["C01", "C09", "C02", "C03", "C05"], min_instances=3, mutants=[
    ("the square of a blade takes the reversal sign of grades 2 and 3 only", ("algebra", "            eI, eJ = canon_pair\n", "            eI, eJ = canon_pair\n            if I == J:\n                sign = -1 if len(eI) - 1 in (2, 3) else 1\n                for key in eI[1:]:\n                    sign *= self.signature[int(key, base=16) - self.start_index]\n                return sign\n")),
    ("lazy table stores under a swapped key", ("algebra", "        res = self[key] = self.factory(key)", "        res = self[key[::-1]] = self.factory(key)")),
    ("lazy fill also caches the mirrored entry with a grade-only sign", ("algebra", "            return sign\n\n        if self.d > 6:\n            return DefaultKeyDict(_compute_sign)", "            if not canon_pair_given:\n                signs[J, I] = sign * (-1) ** ((len(eI) - 1) * (len(eJ) - 1))\n            return sign\n\n        if self.d > 6:\n            signs = DefaultKeyDict(_compute_sign)\n            return signs")),
    ("lazy path uses a different spelling source", ("algebra", "                canon_pair = self.bin2canon[I], self.bin2canon[J]", "                canon_pair = self.bin2canon[J], self.bin2canon[I]")),
])
def lazy_eager(ctx):
    """Above six dimensions the lazily filled table is the same sign function and stores what it computes."""
    repo = ctx.repo
    fn = ctx.func("algebra.Algebra._prepare_signs")
    sample = [0, 1, 2, 64, 3, 65, 66, 7, 96, 21, 42, 85, 127, 126, 15, 112]
    pairs = [(a, b) for a in sample for b in sample]
    # ... and the square of EVERY blade (the reversal sign of each grade 0..7 times the metric of its generators): the sign of
    # the pseudoscalar's square decides how dual() inverts it
    pairs += [(a, a) for a in range(128) if a not in sample]
    res = check_table(ctx, repo, "default d=7 (lazy)", dict(p=4, q=2, r=1), "algebra.Algebra._prepare_signs#lazy d=7", fn, pairs)
    if ctx.tier == "thorough":
        sample8 = [0, 1, 128, 129, 3, 192, 85, 170, 255, 254, 15, 240, 51, 204, 7, 224]
        check_table(ctx, repo, "explicit signature d=8 (lazy)", dict(signature=[1, -1, 0, 1, 1, -1, 1, 0]),
                    "algebra.Algebra._prepare_signs#lazy d=8", fn, [(a, b) for a in sample8 for b in sample8])
    if res is not None:
        it, alg, signs = res
        if not (isinstance(signs, Obj) and signs.kind == "DefaultKeyDict"):
            ctx.violation("algebra.Algebra._prepare_signs#lazy-kind", "d = 7 does not use the lazily filled table", fn)
        else:
            ctx.ok("algebra.Algebra._prepare_signs#lazy-kind", fn)
    # __missing__ stores under the requested key and returns the value
    q = "algebra.DefaultKeyDict.__missing__"
    fnm = ctx.func(q)
    stored = {}
    me = Obj("DefaultKeyDict", {"factory": Obj("factory", call=lambda k: ("VALUE", k))}, {"setitem": lambda k, v: stored.__setitem__(k, v)})
    it = make_interp(repo)
    it.instance_classes["DefaultKeyDict"] = "algebra.DefaultKeyDict"
    try:
        out = it.run(q, [me, (3, 5)])
    except NoValue as exc:
        raise Unknown(q, str(exc), fnm)
    if out == ("return", ("VALUE", (3, 5))) and stored == {(3, 5): ("VALUE", (3, 5))}:
        ctx.ok(q, fnm)
    else:
        ctx.violation(q, f"__missing__((3, 5)) returns {out[1]!r} and stores {stored}: the lazily filled table must store "
                         f"factory(key) under key and return it", fnm)


@rule("C01.cayley", props=["C01", "C20"], min_instances=2, mutants=[
    ("large algebras take their Cayley signs from the binary routine", ("algebra", "            if sign := self.signs[I, J]:\n                sign = '-' if sign == -1 else ''", "            if sign := (self._swap_blades_bin(I, J)[1] if self.d > 6 and not self.basis else self.signs[I, J]):\n                sign = '-' if sign == -1 else ''")),
    ("cayley looks the sign up transposed", ("algebra", "            if sign := self.signs[I, J]:\n                sign = '-' if sign == -1 else ''", "            if sign := self.signs[J, I]:\n                sign = '-' if sign == -1 else ''")),
    ("cayley drops the minus sign", ("algebra", "                sign = '-' if sign == -1 else ''", "                sign = '-' if sign == 1 else ''")),
    ("cayley prints zero products", ("algebra", "                cayley[eI, eJ] = f'0'", "                cayley[eI, eJ] = f'{self.bin2canon[I ^ J]}'")),
])
def cayley(ctx):
    """The Cayley table is the sign table: entry (eI, eJ) = sign(I, J) x blade(I ^ J), '0' for a zero sign."""
    repo = ctx.repo
    q = "algebra.Algebra.cayley"
    fn = ctx.func(q)
    from ..symenv import default_canon2bin
    from ..products import spec_sign
    # (label, signature as the algebra keeps it, blades of the table).  The second stand-in is a LARGE algebra (d = 7, where the sign
    # table is filled on demand) whose signature is not in the layout null-positive-negative; its table is restricted to the blades over
    # the first three generators (+1, -1, 0), which is closed under products, so that the cell stays small.
    cells = [("d=3, signature [0, 1, -1]", [0, 1, -1], default_canon2bin(3, 0)),
             ("d=7, signature [1, -1, 0, 1, 1, 0, 1], blades over e1 e2 e3", [1, -1, 0, 1, 1, 0, 1],
              {n: b for n, b in default_canon2bin(7).items() if b < 8})]
    for label, sig, c2b in cells:
        c = q if label.startswith("d=3") else f"{q}#{label}"
        b2c = {b: n for n, b in c2b.items()}
        alg = Obj("Algebra", {"canon2bin": c2b, "bin2canon": b2c, "d": len(sig), "basis": [], "signature": list(sig), "start_index": 1,
                              "p": sum(1 for x in sig if x > 0), "q": sum(1 for x in sig if x < 0), "r": sum(1 for x in sig if x == 0),
                              "signs": Obj("dict", getitem=lambda k, sig=sig: spec_sign(k[0], k[1], sig))})
        it = make_interp(repo)
        it.instance_classes["Algebra"] = "algebra.Algebra"
        try:
            out = it.run(q, [alg])
        except NoValue as exc:
            raise Unknown(c, str(exc), fn)
        if out[0] == "raise" or not isinstance(out[1], dict):
            raise Unknown(c, f"cayley gives {out!r}", fn)
        want = {}
        for eI, I in c2b.items():
            for eJ, J in c2b.items():
                s = spec_sign(I, J, sig)
                want[(eI, eJ)] = "0" if s == 0 else ("-" if s < 0 else "") + b2c[I ^ J]
        if out[1] == want:
            ctx.ok(c, fn, entries=len(want))
        else:
            bad = [k for k in want if out[1].get(k) != want[k]]
            ctx.violation(c, f"{label}: {len(bad)} Cayley entries differ from the sign table, e.g. {bad[0]}: reported {out[1].get(bad[0])!r}, "
                             f"table gives {want[bad[0]]!r}", fn)


def parity(spelling, canon):
    pos = {c: i for i, c in enumerate(canon)}
    seq = [pos[c] for c in spelling]
    return sum(1 for a in range(len(seq)) for b in range(a + 1, len(seq)) if seq[a] > seq[b]) % 2


@rule("C01.blade-parity", props=["C01", "C14", "C15", "C09"], min_instances=9, mutants=[
    ("the sign of the first requested spelling is baked into the cached blade", ("algebra", "                self.blades[basis_blade] = MultiVector.fromkeysvalues(self.algebra, keys=(bin_blade,), values=[1])", "                self.blades[basis_blade] = MultiVector.fromkeysvalues(self.algebra, keys=(bin_blade,), values=[-1 if swaps % 2 else 1])")),
    ("blade dictionary ignores parity", ("algebra", "        return self.blades[basis_blade] if swaps % 2 == 0 else - self.blades[basis_blade]", "        return self.blades[basis_blade]")),
    ("spelling parity measured against the sorted spelling", ("algebra", "            swaps, *_ = _swap_blades(basis_blade, '', target=canon_blade)", "            swaps, *_ = _swap_blades(basis_blade, '', target='e' + ''.join(sorted(canon_blade[1:])))")),
])
def blade_parity(ctx):
    """A permuted blade spelling resolves to the canonical blade with the permutation's parity; the blade
    dictionary negates on odd parity."""
    repo = ctx.repo
    q = "algebra.Algebra._blade2canon"
    fn = ctx.func(q)
    basis3, pqr = read_named_basis(repo, "3DPGA")
    for label, kwargs in (("default d=3", dict(p=3)), ("named basis 3DPGA", dict(p=pqr[0], q=pqr[1], r=pqr[2], basis=basis3))):
        c = f"{q}#{label}"
        try:
            it, alg = build_algebra(repo, **kwargs)
        except NoValue as exc:
            raise Unknown(c, str(exc), fn)
        except Raised as r:
            ctx.violation(c, f"constructing the algebra raises {r.name}", fn)
            continue
        bad = []
        n = 0
        for canon in alg.attrs["canon2bin"]:
            chars = canon[1:]
            if not 2 <= len(chars) <= 3:
                continue
            for perm in permutations(chars):
                sp = "e" + "".join(perm)
                try:
                    out = it.call_function(fn, [alg, sp], {}, {}, "algebra")
                except NoValue as exc:
                    raise Unknown(c, str(exc), fn)
                n += 1
                if not (isinstance(out, tuple) and out[0] == canon and isinstance(out[1], int) and out[1] % 2 == parity(perm, chars)):
                    bad.append((sp, out, (canon, parity(perm, chars))))
        unknown = it.call_function(fn, [alg, "e9"], {}, {}, "algebra")
        if isinstance(unknown, tuple) and unknown[0] in alg.attrs["canon2bin"]:
            bad.append(("e9", unknown, "a name outside the algebra"))
        if bad:
            ctx.violation(c, f"{label}: {len(bad)} of {n} spellings resolve wrongly, e.g. {bad[0][0]} -> {bad[0][1]}, expected "
                             f"{bad[0][2]} (canonical blade, swap parity)", fn)
        else:
            ctx.ok(c, fn, spellings=n)
    # BladeDict.__getitem__
    q2 = "algebra.BladeDict.__getitem__"
    fn2 = ctx.func(q2)
    for sp, canon, swaps in (("e21", "e12", 1), ("e12", "e12", 0), ("e312", "e123", 2), ("e132", "e123", 1)):
        c = f"{q2}#{sp}"
        blade = Obj("MultiVector", {"fmt": f"B({canon})"}, {"unop": lambda op, canon=canon: Obj("MultiVector", {"fmt": f"-B({canon})"}) if op == "USub" else Unk("unop")})
        alg = Obj("Algebra", {"canon2bin": {canon: 3}, "graded": False}, {"_blade2canon": lambda s_, canon=canon, swaps=swaps: (canon, swaps)})
        me = Obj("BladeDict", {"algebra": alg, "blades": {canon: blade}, "lazy": True})
        it = make_interp(repo)
        it.instance_classes["BladeDict"] = "algebra.BladeDict"
        try:
            out = it.run(q2, [me, sp])
        except NoValue as exc:
            raise Unknown(c, str(exc), fn2)
        want = ("-" if swaps % 2 else "") + f"B({canon})"
        if out[0] == "return" and str(out[1]) == want:
            ctx.ok(c, fn2)
        else:
            ctx.violation(c, f"blades[{sp!r}] gives {out[1]}, expected {want} (negated iff the spelling is an odd permutation "
                             f"of the canonical blade)", fn2)


    # the lazily filled blade dictionary (algebras above six dimensions): sequences of requests on ONE object, the
    # first request for a blade being a permuted spelling
    def signed_blade(key, sign):
        o = Obj("MultiVector", {"fmt": f"{'-' if sign < 0 else '+'}B[{key}]", "key": key, "sign": sign})
        o.methods["unop"] = lambda op: signed_blade(key, -sign) if op == "USub" else (o if op == "UAdd" else Unk("unop"))
        return o

    def fromkeysvalues(algebra, keys=None, values=None, **kw):
        if not (isinstance(keys, (tuple, list)) and len(keys) == 1 and isinstance(values, (tuple, list)) and len(values) == 1
                and values[0] in (1, -1)):
            raise NoValue(f"blade created as fromkeysvalues(keys={keys!r}, values={values!r})")
        return signed_blade(keys[0], values[0])
    c2b = {"e12": 3, "e13": 5, "e123": 7}
    par = {"e12": ("e12", 0), "e21": ("e12", 1), "e13": ("e13", 0), "e31": ("e13", 1), "e123": ("e123", 0), "e312": ("e123", 2), "e132": ("e123", 1)}
    for label, seq_ in (("odd spelling first", ["e21", "e12", "e21"]), ("canonical first", ["e13", "e31", "e13"]),
                        ("even permutation first", ["e312", "e132", "e123"])):
        c = f"{q2}#lazy:{label}"
        alg = Obj("Algebra", {"canon2bin": dict(c2b), "graded": False}, {"_blade2canon": lambda s_: par[s_]})
        me = Obj("BladeDict", {"algebra": alg, "blades": {}, "lazy": True})
        it = make_interp(repo)
        it.instance_classes["BladeDict"] = "algebra.BladeDict"
        it.overrides["algebra.MultiVector"] = Obj("class:MultiVector", {"fromkeysvalues": PyFunc(fromkeysvalues, "MultiVector.fromkeysvalues", True)})
        got, want = [], []
        try:
            for sp in seq_:
                out = it.run(q2, [me, sp])
                got.append((out[1].attrs.get("key"), out[1].attrs.get("sign")) if out[0] == "return" and isinstance(out[1], Obj) else out)
                want.append((c2b[par[sp][0]], -1 if par[sp][1] % 2 else 1))
        except NoValue as exc:
            raise Unknown(c, str(exc), fn2)
        if got == want:
            ctx.ok(c, fn2, requests=seq_)
        else:
            ctx.violation(c, f"a lazily filled blade dictionary asked for {seq_} in this order returns (key, sign) {got}, expected {want}: "
                             f"what a blade name denotes depends on which spelling was requested first", fn2)


@rule("C01.pss-frame", props=["C01", "C05"], min_instances=3, mutants=[
    ("pseudoscalar is the last blade of the canonical list minus one", ("algebra", "        self.pss = self.blades[self.bin2canon[2 ** self.d - 1]]", "        self.pss = self.blades[self.bin2canon[2 ** self.d - 2]]")),
    ("frame uses consecutive keys", ("algebra", "        return [self.blades[self.bin2canon[2**j]] for j in range(0, self.d)]", "        return [self.blades[self.bin2canon[j + 1]] for j in range(0, self.d)]")),
])
def pss_frame(ctx):
    """Algebra.pss is the unit blade that contains every generator (canonical spelling, coefficient +1) and
    Algebra.frame lists the d generators; these are what polarity and the reciprocal frame multiply with."""
    repo = ctx.repo
    fn = ctx.func("algebra.Algebra.__post_init__")
    basis, pqr = read_named_basis(repo, "3DPGA")
    for label, kwargs in (("default d=3", dict(p=2, q=1)), ("default PGA d=3", dict(p=2, r=1)),
                          ("named basis 3DPGA", dict(p=pqr[0], q=pqr[1], r=pqr[2], basis=basis))):
        c = f"algebra.Algebra.pss#{label}"
        try:
            it, alg = build_algebra(repo, **kwargs)
            frame = it._instance_attr(alg, "frame")
        except NoValue as exc:
            raise Unknown(c, str(exc), fn)
        except Raised as r:
            ctx.violation(c, f"raises {r.name}", fn)
            continue
        d = alg.attrs["d"]
        pss = alg.attrs.get("pss")
        problems = []
        if not (isinstance(pss, Obj) and tuple(pss.attrs.get("_keys", ())) == (2 ** d - 1,) and list(pss.attrs.get("_values", [])) == [1]):
            problems.append(f"pss stores keys {getattr(pss, 'attrs', {}).get('_keys')} / values {getattr(pss, 'attrs', {}).get('_values')}, "
                            f"expected the single key {2 ** d - 1} with coefficient 1")
        try:
            fk = [(tuple(v.attrs["_keys"]), list(v.attrs["_values"])) for v in frame]
        except Exception:
            fk = None
        if fk != [((2 ** j,), [1]) for j in range(d)]:
            problems.append(f"frame is {fk}, expected the generators with keys {[2 ** j for j in range(d)]}")
        if problems:
            ctx.violation(c, "; ".join(problems), fn)
        else:
            ctx.ok(c, fn)
