"""C20 - Graph widget payload reflects the multivectors it is given."""
from __future__ import annotations

import ast
import re

from ..astx import un, NoValue, walk_shallow, call_name
from ..absint import Obj, Unk, Closure
from ..core import rule, fixture_for, Unknown
from ..symenv import make_interp, rep_algebra, Val, val_repr, mv_obj

INFO = {
    "id": "C20",
    "technique": "abstract interpretation of encode/walker/GraphWidget methods with symbolic coefficient tokens and the "
                 "front end's decoding rule as oracle; reader/writer name table Python <-> graph.js; sibling decision "
                 "tables of the draggable predicates",
    "explanation": "Clause-level. Decided on the source: the payload of every layout class of multivector (sparse, full in "
                   "canonical order, full in binary order, full permuted), decoded the way graph.js decodes it (by key "
                   "through key2idx, or positionally in canonical order when no keys are sent), reproduces every "
                   "coefficient token on its own blade - i.e. a key-less payload is produced only for the canonical "
                   "layout; lists/tuples recurse element-wise, zero-argument callables are called, array-valued "
                   "multivectors expand through itermv; every name the front end reads or sets exists on the Python side "
                   "under the same name; key2idx is the canonical position; the Cayley rows/columns are left/right "
                   "factors; the draggable-point predicate and its index twin agree on every (r, d) cell; drag write-back "
                   "is in place, key-addressed and followed by re-evaluation. NOT decided: ganja.js itself.",
    "decided": ["C20.keys-or-canonical", "C20.byte-payload", "C20.signature", "C20.recursion", "C20.fields", "C20.key2idx", "C20.cayley",
                "C20.draggable-agree", "C20.writeback"],
    "not_decided": ["what ganja.js renders from a decoded element"],
    "assumptions": ["graph.js decodes a payload by key through key2idx when 'keys' is present and positionally otherwise "
                    "(read from graph.js by C20.fields)"],
}

ENC = "graph.encode"
WALK = "graph.walker"


def canonical_keys(alg):
    return tuple(alg.attrs["canon2bin"].values())


def js_decode(payload, alg):
    """graph.js toElement: {blade key: coefficient} of a payload dict."""
    canon = canonical_keys(alg)
    key2idx = {k: i for i, k in enumerate(canon)}
    vals = payload.get("mv")
    if not isinstance(vals, (list, tuple)):
        return None
    out = {k: 0 for k in canon}
    if "keys" in payload:
        element = [0] * len(canon)
        for j, k in enumerate(payload["keys"]):
            if k not in key2idx or j >= len(vals):
                return None
            element[key2idx[k]] = vals[j]
    else:
        element = list(vals)
        if len(element) != len(canon):
            return None
    return {k: (val_repr(v) if isinstance(v, Obj) else v) for k, v in zip(canon, element)}


def encode_walk(repo, subjects, root=True, numpy=None):
    it = make_interp(repo)
    if numpy is not None:
        it.standins["numpy"] = numpy
    enc = it.run(ENC, [subjects], {"root": root})
    if enc[0] != "return":
        return enc
    it2 = make_interp(repo)
    return it2.run(WALK, [enc[1]])


LAYOUTS = {
    "sparse": lambda alg: ((4, 3), ("A", "B")),
    "sparse single": lambda alg: ((6,), ("A",)),
    "full canonical": lambda alg: (canonical_keys(alg), tuple(f"C{k}" for k in canonical_keys(alg))),
    "full binary order": lambda alg: (tuple(range(8)), tuple(f"C{k}" for k in range(8))),
    "full permuted": lambda alg: (tuple(reversed(canonical_keys(alg))), tuple(f"C{k}" for k in reversed(canonical_keys(alg)))),
}


def check_keys_or_canonical(ctx, repo):
    fn = ctx.func(ENC)
    for label, mk in LAYOUTS.items():
        alg = rep_algebra(3)
        keys, names = mk(alg)
        mv = mv_obj(alg, tuple(keys), [Val(n) for n in names])
        c = f"{ENC}#{label}"
        try:
            out = encode_walk(repo, [mv])
        except NoValue as exc:
            raise Unknown(c, str(exc), fn)
        if out[0] != "return" or not isinstance(out[1], list) or len(out[1]) != 1 or not isinstance(out[1][0], dict):
            raise Unknown(c, f"unrecognised payload {out!r}", fn)
        payload = out[1][0]
        want = {k: 0 for k in canonical_keys(alg)}
        want.update(dict(zip(keys, names)))
        got = js_decode(payload, alg)
        if got is None:
            ctx.violation(c, f"payload {_show(payload)} of a {label} multivector cannot be decoded by the front end "
                             f"(value count does not match the canonical basis and no keys are sent)", fn)
        elif got == want:
            ctx.ok(c, fn, has_keys="keys" in payload)
        else:
            wrong = {k: (got[k], want[k]) for k in want if got[k] != want[k]}
            ctx.violation(c, f"a {label} multivector (keys {tuple(keys)}) is sent {'with' if 'keys' in payload else 'WITHOUT'} "
                             f"keys; decoded the way graph.js decodes it (positionally in canonical order when no keys "
                             f"are sent) blade->coefficient differs: {{key: (decoded, stored)}} = {wrong}",
                          fn, layout=label, wrong=wrong)
    # the payload must carry copies/values, and keys must be the multivector's own
    return


def _show(p):
    return {k: ([val_repr(x) if isinstance(x, Obj) else x for x in v] if isinstance(v, (list, tuple)) else v) for k, v in p.items()}


@rule("C20.keys-or-canonical", props=["C20"], min_instances=5, mutants=[
    ("length test instead of canonical test", ("graph", "if tuple(o._keys) != tuple(o.algebra.canon2bin.values()):", "if len(o) != len(o.algebra):")),
    ("keys always omitted", ("graph", "            yield {'mv': values, 'keys': o._keys}", "            yield {'mv': values}")),
], rewrites=[
    ("always send keys", ("graph", "        if tuple(o._keys) != tuple(o.algebra.canon2bin.values()):", "        if True:")),
])
def keys_or_canonical(ctx):
    """A payload without keys is produced only for the canonical layout (decode(encode(mv)) == mv for every layout)."""
    check_keys_or_canonical(ctx, ctx.repo)


# --------------------------------------------------------------------------- coefficient arrays sent as raw bytes
FLOAT64_SPELLINGS = {"float64", "f8", "<f8", "d", "double", "float", "float_"}


def _dtype_name(t):
    from ..absint import ClassRef, PyFunc
    if isinstance(t, str):
        return "float64" if t in FLOAT64_SPELLINGS else t
    if isinstance(t, Obj) and t.kind == "dtype":
        return t.attrs["name"]
    if isinstance(t, (ClassRef, PyFunc)) and getattr(t, "name", None) == "float":
        return "float64"
    if isinstance(t, (ClassRef, PyFunc)) and getattr(t, "name", None) == "int":
        return "int64"
    return None


def nd_standin(names, dtype):
    """A 1-D ndarray of coefficients with an element type: what tobytes() writes depends on it."""
    o = Obj("ndarray", {"fmt": f"ARR<{dtype}>{list(names)}", "dtype": Obj("dtype", {"name": dtype, "fmt": dtype}),
                        "shape": (len(names),), "ndim": 1, "names": tuple(names)})

    def astype(t, *a, **k):
        n = _dtype_name(t)
        if n is None:
            raise NoValue(f"astype({t!r})")
        return nd_standin(names, n)
    o.methods.update({
        "tobytes": lambda *a, **k: Obj("bytes", {"dtype": dtype, "names": tuple(names), "fmt": f"bytes<{dtype}>{list(names)}"}),
        "astype": astype, "copy": lambda *a, **k: nd_standin(names, dtype), "__len__": lambda: len(names),
        "tolist": lambda: [Val(n) for n in names], "__iter__": lambda: [Val(n) for n in names],
        "view": lambda *a, **k: (_ for _ in ()).throw(NoValue("ndarray.view"))})
    return o


def numpy_for_payload():
    from ..absint import PyFunc, ClassRef

    def asarray(x, dtype=None, *a, **k):
        if not (isinstance(x, Obj) and x.kind == "ndarray"):
            raise NoValue("np.asarray of a non-array stand-in")
        if "leaves" in x.attrs:                       # the N-dimensional stand-in of symenv
            return x if dtype is None else x.methods["astype"](dtype)
        n = _dtype_name(dtype) if dtype is not None else x.attrs["dtype"].attrs["name"]
        if n is None:
            raise NoValue(f"dtype {dtype!r}")
        return nd_standin(x.attrs["names"], n)
    table = {"ndarray": ClassRef("ndarray"), "asarray": PyFunc(asarray, "np.asarray", True), "array": PyFunc(asarray, "np.array", True),
             "ascontiguousarray": PyFunc(asarray, "np.ascontiguousarray", True), "asanyarray": PyFunc(asarray, "np.asanyarray", True),
             "require": PyFunc(asarray, "np.require", True)}
    for n in ("float64", "float32", "int64", "int32", "double", "float_", "complex128"):
        table[n] = Obj("dtype", {"name": "float64" if n in ("double", "float_") else n, "fmt": n})
    return Obj("module:numpy", table)


@rule("C20.byte-payload", props=["C20"], min_instances=3, mutants=[
    ("the coefficient array is sent in whatever element type it has", ("graph", "np.asarray(o._values, dtype=np.float64).tobytes()", "o._values.tobytes()")),
    ("coefficient arrays are sent as single precision", ("graph", "np.asarray(o._values, dtype=np.float64).tobytes()", "np.asarray(o._values, dtype=np.float32).tobytes()")),
])
def byte_payload(ctx):
    """A multivector whose coefficients live in ONE ndarray is sent as the raw bytes of that array, and graph.js reads
    such a payload as `new Float64Array(buffer)`: the bytes must be those of a float64 array holding the coefficients in
    storage order, whatever element type the user's array has (int64 bytes read as doubles are denormals; float32 bytes
    have the wrong length)."""
    repo = ctx.repo
    fn = ctx.func(ENC)
    js = repo.extra.get("graph.js") or ""
    reads = re.search(r"instanceof\s+DataView\s*\?\s*new\s+(\w+)\(", js)
    if not reads:
        raise Unknown("graph.js#byte-payload", "the front end's treatment of a binary payload was not recognised")
    elem = {"Float64Array": "float64", "Float32Array": "float32"}.get(reads.group(1))
    if elem is None:
        raise Unknown("graph.js#byte-payload", f"the front end reads binary payloads as {reads.group(1)}")
    alg = rep_algebra(3)
    for dtype in ("float64", "int64", "float32"):
        c = f"{ENC}#ndarray-backed:{dtype}"
        names = ("A", "B", "C")
        mv = mv_obj(alg, (1, 2, 4), nd_standin(names, dtype))
        it = make_interp(repo)
        it.standins["numpy"] = numpy_for_payload()
        try:
            enc = it.run(ENC, [[mv]], {"root": True})
            out = make_interp(repo).run(WALK, [enc[1]]) if enc[0] == "return" else enc
        except NoValue as exc:
            raise Unknown(c, str(exc), fn)
        if out[0] != "return" or not isinstance(out[1], list) or len(out[1]) != 1 or not isinstance(out[1][0], dict):
            raise Unknown(c, f"unrecognised payload {out!r}", fn)
        payload = out[1][0]
        vals = payload.get("mv")
        if isinstance(vals, (list, tuple)):
            got = [val_repr(v) if isinstance(v, Obj) else v for v in vals]
            if got == list(names) and tuple(payload.get("keys", ())) == (1, 2, 4):
                ctx.ok(c, fn, sent="list")
            else:
                ctx.violation(c, f"coefficients {names} of an ndarray-backed multivector are sent as {got} with keys {payload.get('keys')}", fn)
            continue
        if not (isinstance(vals, Obj) and vals.kind == "bytes"):
            raise Unknown(c, f"payload value {vals!r}", fn)
        if vals.attrs["dtype"] != elem:
            ctx.violation(c, f"the coefficient array (element type {dtype}) is sent as raw {vals.attrs['dtype']} bytes, but graph.js reads a binary "
                             f"payload as {reads.group(1)}: the front end sees other numbers than the multivector stores", fn)
        elif vals.attrs["names"] != names or tuple(payload.get("keys", ())) != (1, 2, 4):
            ctx.violation(c, f"bytes of {vals.attrs['names']} with keys {payload.get('keys')} are sent for coefficients {names} on keys (1, 2, 4)", fn)
        else:
            ctx.ok(c, fn, sent=f"{elem} bytes")


# --------------------------------------------------------------------------- recursion
@rule("C20.recursion", props=["C20"], min_instances=7, mutants=[
    ("a coefficient array is sliced along its last axis first", ("graph", "        yield from (encode(value) for value in o.itermv())", "        if isinstance(o._values, np.ndarray):\n            yield from (encode(o.fromkeysvalues(o.algebra, o._keys, o._values[..., i])) for i in range(o.shape[-1]))\n        else:\n            yield from (encode(value) for value in o.itermv())")),
    ("callable result not encoded", ("graph", "        yield encode(o(), tree_types)", "        yield o()")),
    ("array-valued test looks at the container only", ("graph", "    elif isinstance(o, MultiVector) and len(o.shape) > 1:", "    elif isinstance(o, MultiVector) and getattr(o._values, 'ndim', 1) > 1:")),
    ("tuple elements reversed", ("graph", "        yield o.__class__(encode(value, tree_types) for value in o)", "        yield o.__class__(encode(value, tree_types) for value in reversed(o))")),
])
def recursion(ctx):
    """Lists/tuples recurse element-wise, callables are called, array-valued multivectors expand via itermv."""
    repo = ctx.repo
    fn = ctx.func(ENC)
    alg = rep_algebra(3)
    a = mv_obj(alg, (1,), [Val("A")])
    b = mv_obj(alg, (2, 4), [Val("B"), Val("C")])
    pa = {"mv": ["A"], "keys": (1,)}
    pb = {"mv": ["B", "C"], "keys": (2, 4)}

    def norm(x):
        if isinstance(x, dict):
            return {k: norm(v) for k, v in x.items()}
        if isinstance(x, (list, tuple)):
            return [norm(v) for v in x]
        if isinstance(x, Obj):
            return str(x) if x.kind == "bytes" else val_repr(x)
        return x

    lam_b = Closure(ast.parse("lambda: B", mode="eval").body, {"B": b}, "graph")
    lam_list = Closure(ast.parse("lambda: [A, 255, B]", mode="eval").body, {"A": a, "B": b}, "graph")
    cells = [
        ("flat", [0xFF, a, "label", b], [0xFF, pa, "label", pb]),
        ("nested list", [a, [b, [a]]], [pa, [pb, [pa]]]),
        ("tuple", [(a, b)], [[pa, pb]]),
        ("callable", [lam_b], [pb]),
        ("callable returning a list", [lam_list], [[pa, 255, pb]]),
    ]
    # array-valued multivector whose coefficients are a list of arrays (what every operator returns for array input)
    def arr(name):
        o = Obj("ndarray-element", {"fmt": name, "shape": (2,)})
        o.getitem = lambda idx: Val(f"{name}[{idx!r}]")
        return o
    cloud = mv_obj(alg, (1, 2), [arr("X"), arr("Y")])
    cells.append(("array-valued (list of arrays)", [cloud], [{"mv": ["X[(0,)]", "Y[(0,)]"], "keys": (1, 2)}, {"mv": ["X[(1,)]", "Y[(1,)]"], "keys": (1, 2)}]))
    # ... and one whose coefficients are ONE ndarray with two element axes: the elements come in C order of the element axes
    # (itermv), each with its own coefficients - a short cut that slices another axis first transposes the picture
    from ..symenv import symarray
    nd = mv_obj(alg, (1, 2), symarray("X", (2, 2, 3)))
    elem = lambda i, j: {"mv": f"bytes<float64>['X[0,{i},{j}]', 'X[1,{i},{j}]']", "keys": (1, 2)}
    cells.append(("array-valued (one ndarray, two element axes)", [nd], [elem(i, j) for i in range(2) for j in range(3)]))
    for label, subjects, want in cells:
        c = f"{ENC}#tree:{label}"
        try:
            out = encode_walk(repo, subjects, numpy=numpy_for_payload() if "one ndarray" in label else None)
        except NoValue as exc:
            raise Unknown(c, str(exc), fn)
        if out[0] != "return":
            ctx.violation(c, f"encoding a {label} subject tree raises {out[1]}", fn)
            continue
        got = norm(out[1])
        if got == norm(want):
            ctx.ok(c, fn)
        else:
            ctx.violation(c, f"subject tree ({label}) is encoded as {got}, expected {norm(want)}: elements are dropped, "
                             f"reordered or not encoded", fn)


# --------------------------------------------------------------------------- fields (reader/writer names)
def js_names(js: str):
    return {
        "get": set(re.findall(r"model\.get\(\s*['\"](\w+)['\"]", js)),
        "set": set(re.findall(r"model\.set\(\s*['\"](\w+)['\"]", js)),
        "payload_read": set(re.findall(r"\bo\[\s*['\"](\w+)['\"]\s*\]", js)) | set(re.findall(r"['\"](\w+)['\"]\s+in\s+o\b", js)),
        "payload_written": set(re.findall(r"\(\{\s*(\w+)\s*:", js)),
        "msg_types": set(re.findall(r"type\s*:\s*['\"](\w+)['\"]", js)),
    }


@rule("C20.fields", props=["C20"], min_instances=10, mutants=[
    ("payload member renamed on the Python side only", ("graph", "            yield {'mv': values, 'keys': o._keys}", "            yield {'mv': values, 'blades': o._keys}")),
    ("trait not synced", ("graph", "    key2idx = traitlets.Dict({}).tag(sync=True)", "    key2idx = traitlets.Dict({})")),
    ("message type renamed", ("graph", "if data[\"type\"] == \"update_mvs\":", "if data[\"type\"] == \"update\":")),
    ("js reads a renamed trait", ("graph.js", "model.get('draggable_points_idxs')", "model.get('draggable_idxs')")),
])
def fields(ctx):
    """Every name graph.js reads or sets exists on the Python side under the same name (TAB, reader within writer)."""
    repo = ctx.repo
    js = repo.extra.get("graph.js")
    if js is None:
        raise Unknown("graph.js", "front-end source not found")
    names = js_names(js)
    cls = ctx.cls("graph.GraphWidget")
    synced, unsynced = set(), set()
    for st in cls.body:
        if isinstance(st, ast.Assign) and len(st.targets) == 1 and isinstance(st.targets[0], ast.Name) \
                and "traitlets." in un(st.value):
            (synced if re.search(r"\.tag\(.*sync\s*=\s*True", un(st.value)) else unsynced).add(st.targets[0].id)
    if not names["get"]:
        raise Unknown("graph.js", "no model.get(...) found")
    for n in sorted(names["get"] | names["set"]):
        c = f"graph.js#model:{n}"
        if n in synced:
            ctx.ok(c, None, module="graph.js")
        elif n in unsynced:
            ctx.violation(c, f"graph.js uses model trait {n!r}, which GraphWidget declares without sync=True: the front "
                             f"end never receives it", cls, module="graph")
        else:
            ctx.violation(c, f"graph.js uses model trait {n!r}, which GraphWidget does not declare", cls, module="graph")
    # payload members written by encode
    enc = ctx.func(ENC)
    written = set()
    for d in ast.walk(enc):
        if isinstance(d, ast.Dict):
            for k in d.keys:
                if isinstance(k, ast.Constant) and isinstance(k.value, str):
                    written.add(k.value)
        elif isinstance(d, ast.Subscript) and isinstance(d.ctx, ast.Store) and isinstance(d.slice, ast.Constant) \
                and isinstance(d.slice.value, str):
            written.add(d.slice.value)
        elif isinstance(d, ast.Call) and call_name(d) == "dict":
            written |= {k.arg for k in d.keywords if k.arg}
    # ... and what the payloads of a sparse and of a dense multivector actually contain (abstract interpretation)
    alg_ = rep_algebra(3)
    for keys_ in ((4, 3), canonical_keys(alg_)):
        try:
            out_ = encode_walk(repo, [mv_obj(alg_, tuple(keys_), [Val(f"v{k}") for k in keys_])])
            if out_[0] == "return" and out_[1] and isinstance(out_[1][0], dict):
                written |= {k for k in out_[1][0] if isinstance(k, str)}
        except NoValue:
            pass
    for n in sorted(names["payload_read"]):
        c = f"graph.js#payload:{n}"
        if n in written:
            ctx.ok(c, enc, module="graph")
        else:
            ctx.violation(c, f"graph.js reads payload member {n!r} but encode() only writes {sorted(written)}", enc, module="graph")
    # payload members read back by inplacereplace
    ipr = ctx.func("graph.GraphWidget.inplacereplace")
    read_back = {un(s.slice).strip("'\"") for s in ast.walk(ipr) if isinstance(s, ast.Subscript) and isinstance(s.slice, ast.Constant)
                 and isinstance(s.slice.value, str)}
    for n in sorted(read_back):
        c = f"graph.GraphWidget.inplacereplace#reads:{n}"
        if n in names["payload_written"]:
            ctx.ok(c, ipr, module="graph")
        else:
            ctx.violation(c, f"inplacereplace reads member {n!r} of the dragged points, graph.js encodes them with "
                             f"{sorted(names['payload_written'])}", ipr, module="graph")
    # message types
    h = ctx.func("graph.GraphWidget._handle_custom_msg")
    handled = {c2.value for n in ast.walk(h) if isinstance(n, ast.Compare) for c2 in n.comparators if isinstance(c2, ast.Constant)}
    for n in sorted(names["msg_types"]):
        c = f"graph.js#message:{n}"
        if n in handled:
            ctx.ok(c, h, module="graph")
        else:
            ctx.violation(c, f"graph.js sends message type {n!r}; _handle_custom_msg only compares with {sorted(handled)}: "
                             f"animated subjects are never re-evaluated", h, module="graph")
    # the decoding rule assumed by js_decode
    if re.search(r"['\"]keys['\"]\s+in\s+o", js) and re.search(r"values\[\s*key2idx\[\s*k\s*\]\s*\]\s*=\s*_values\[\s*j\s*\]", js):
        ctx.ok("graph.js#decode-rule", None, module="graph.js", rule="by key through key2idx when 'keys' present, positional otherwise")
    else:
        raise Unknown("graph.js#decode-rule", "toElement no longer matches the decoding rule the oracle assumes")


# --------------------------------------------------------------------------- key2idx / cayley
def widget(alg, **attrs):
    a = {"algebra": alg}
    a.update(attrs)
    return Obj("GraphWidget", a)


@rule("C20.signature", props=["C20"], min_instances=3, mutants=[
    ("signature rebuilt from the counts as [0]*r + [1]*p + [-1]*q", ("graph", "        return [int(s) for s in self.algebra.signature]", "        alg = self.algebra\n        return [0] * alg.r + [1] * alg.p + [-1] * alg.q")),
    ("signature sent sorted", ("graph", "        return [int(s) for s in self.algebra.signature]", "        return sorted(int(s) for s in self.algebra.signature)")),
])
def signature_rule(ctx):
    """The metric sent to the front end is the algebra's signature entry by entry, in the algebra's own generator order
    (ganja squares generator i to entry i; the Cayley table and the coefficients sent next to it are in that order)."""
    q = "graph.GraphWidget.get_signature"
    fn = ctx.func(q)
    for sig in ([1, 0, 1], [1, -1, 0, 0], [0, 1, 1, 1], [-1, 1]):
        c = f"{q}#{sig}"
        alg = rep_algebra(len(sig), extra_attrs={"signature": list(sig), "p": sig.count(1), "q": sig.count(-1), "r": sig.count(0)})
        it = make_interp(ctx.repo)
        try:
            out = it.run(q, [widget(alg)])
        except NoValue as exc:
            raise Unknown(c, str(exc), fn)
        if out[0] == "return" and isinstance(out[1], (list, tuple)) and list(out[1]) == sig and all(type(v) is int for v in out[1]):
            ctx.ok(c, fn)
        elif out[0] == "return" and isinstance(out[1], (list, tuple)) and _concrete_list(out[1]):
            ctx.violation(c, f"an algebra with signature {sig} sends the metric {list(out[1])} to the front end: generator i of the algebra "
                             f"does not square to entry i there, so the Cayley table and the coefficients describe another algebra", fn)
        elif out[0] == "raise":
            ctx.violation(c, f"raises {out[1]}", fn)
        else:
            raise Unknown(c, f"returns {out[1]!r}", fn)


def _concrete_list(v):
    return all(isinstance(x, (int, float)) and not isinstance(x, bool) for x in v)


@rule("C20.key2idx", props=["C20"], min_instances=3, mutants=[
    ("key2idx orders keys by (grade, binary value)", ("graph", "return {k: i for i, k in enumerate(self.algebra.canon2bin.values())}", "return {k: i for i, k in enumerate(sorted(self.algebra.canon2bin.values(), key=lambda k: (bin(k).count('1'), k)))}")),
    ("key2idx by binary value", ("graph", "return {k: i for i, k in enumerate(self.algebra.canon2bin.values())}", "return {k: k for i, k in enumerate(self.algebra.canon2bin.values())}")),
])
def key2idx(ctx):
    """key2idx[k] is the position of k in the canonical basis - the order a key-less payload is read in."""
    q = "graph.GraphWidget.get_key2idx"
    fn = ctx.func(q)
    from .c02 import BASIS_2DPGA
    for label, alg in (("default d=3", rep_algebra(3)), ("default d=4", rep_algebra(4)), ("custom basis 2DPGA", rep_algebra(3, basis=BASIS_2DPGA))):
        c = f"{q}#{label}"
        it = make_interp(ctx.repo)
        try:
            out = it.run(q, [widget(alg)])
        except NoValue as exc:
            raise Unknown(c, str(exc), fn)
        want = {k: i for i, k in enumerate(canonical_keys(alg))}
        if out == ("return", want):
            ctx.ok(c, fn)
        else:
            bad = sorted(k for k in want if not isinstance(out[1], dict) or out[1].get(k) != want[k])[:4]
            ctx.violation(c, f"key2idx ({label}) differs from the canonical positions for keys {bad}: a payload sent with keys "
                             f"puts those coefficients on other blades than a key-less payload read in canonical order", fn)


@rule("C20.cayley", props=["C20"], min_instances=1, mutants=[
    ("transposed cayley table", ("graph", "self.algebra.cayley[eJ, eI])[-1] != 'e'", "self.algebra.cayley[eI, eJ])[-1] != 'e'")),
])
def cayley(ctx):
    """Cayley table sent to the front end: row = left factor, column = right factor, entries from Algebra.cayley."""
    q = "graph.GraphWidget.get_cayley"
    fn = ctx.func(q)
    alg = rep_algebra(2)
    names = list(alg.attrs["canon2bin"])

    def entry(key):
        a, b = key
        if a == "e" and b == "e":
            return "e"
        if a == "e1" and b == "e1":
            return "-e"
        return f"[{a}*{b}]"
    alg.attrs["cayley"] = Obj("dict", getitem=entry)
    it = make_interp(ctx.repo)
    try:
        out = it.run(q, [widget(alg)])
    except NoValue as exc:
        raise Unknown(q, str(exc), fn)
    want = [[("1" if entry((a, b)) == "e" else "-1" if entry((a, b)) == "-e" else entry((a, b))) for b in names] for a in names]
    if out == ("return", want):
        ctx.ok(q, fn)
    else:
        ctx.violation(q, f"Cayley table rows/columns do not follow (left factor, right factor) in canonical order: got "
                         f"{out[1]!r}", fn)


# --------------------------------------------------------------------------- draggable predicates
@rule("C20.draggable-agree", props=["C20"], min_instances=5, mutants=[
    ("index twin forgets the grade test", ("graph", "                    if isinstance(s, MultiVector) and s.grades == (d - 1,)]", "                    if isinstance(s, MultiVector)]")),
    ("points twin selects grade d-2", ("graph", "points = [p for p in points if p.grades == (d - 1,)]", "points = [p for p in points if p.grades == (d - 2,)]")),
])
def draggable_agree(ctx):
    """The draggable-point selection and its index twin pick the same subjects in every (r, d) cell (SIB + DT)."""
    repo = ctx.repo
    qp, qi = "graph.GraphWidget.get_draggable_points", "graph.GraphWidget.get_draggable_points_idxs"
    fnp, fni = ctx.func(qp), ctx.func(qi)
    for r, d in ((1, 3), (1, 4), (1, 2), (0, 3), (2, 4), (0, 4)):
        alg = rep_algebra(d, r=r)
        c2b = alg.attrs["canon2bin"]
        by_grade = lambda g: tuple(b for n, b in c2b.items() if len(n) - 1 == g)
        subjects = [
            0xFF0000,
            mv_obj(alg, by_grade(d - 1), [Val(f"P{i}") for i in range(len(by_grade(d - 1)))]),      # a point in PGA
            "text",
            mv_obj(alg, by_grade(1), [Val(f"L{i}") for i in range(len(by_grade(1)))]),              # a line/plane
            [mv_obj(alg, by_grade(d - 1), [Val(f"N{i}") for i in range(len(by_grade(d - 1)))])],    # nested: not first level
            mv_obj(alg, by_grade(d - 1)[:1], [Val("Q0")]),                                          # sparse point
        ]
        c = f"graph.GraphWidget#draggable(r={r},d={d})"
        try:
            ip = make_interp(repo).run(qp, [widget(alg, pre_subjects=subjects)])
            ii = make_interp(repo).run(qi, [widget(alg, pre_subjects=subjects)])
        except NoValue as exc:
            raise Unknown(c, str(exc), fnp)
        if ip[0] != "return" or ii[0] != "return" or not isinstance(ip[1], list) or not isinstance(ii[1], list):
            raise Unknown(c, f"unrecognised results {ip!r} / {ii!r}", fnp)
        try:
            sel_by_idx = [subjects[j] for j in ii[1]]
        except Exception:
            ctx.violation(c, f"draggable_points_idxs {ii[1]} are not positions in pre_subjects", fni)
            continue
        enc_idx = []
        for s in sel_by_idx:
            if not (isinstance(s, Obj) and s.kind == "MultiVector"):
                enc_idx.append(None)
            else:
                enc_idx.append([val_repr(v) for v in s.attrs["_values"]])
        def flat(x):
            if isinstance(x, dict):
                yield x
            elif isinstance(x, (list, tuple)):
                for y in x:
                    yield from flat(y)
            else:
                yield x
        enc_pts = [[val_repr(v) if isinstance(v, Obj) else v for v in p.get("mv", [])] if isinstance(p, dict) else None
                   for p in flat(ip[1])]
        if enc_idx == enc_pts:
            ctx.ok(c, fnp, selected=ii[1])
        else:
            ctx.violation(c, f"with r={r}, d={d} draggable_points encodes {enc_pts} but draggable_points_idxs selects "
                             f"positions {ii[1]} = {enc_idx}: a dragged point is written back into a different subject",
                          fni, points=enc_pts, idxs=ii[1])


# --------------------------------------------------------------------------- positions of the draggable points
@rule("C20.drag-positions", props=["C20"], min_instances=4, mutants=[
    ("indices count the multivectors only", ("graph", "        return [j for j, s in enumerate(self.pre_subjects) if isinstance(s, MultiVector)]", "        return [j for j, s in enumerate(s_ for s_ in self.pre_subjects if isinstance(s_, MultiVector))]")),
    ("PGA indices are shifted by one", ("graph", "            return [j for j, s in enumerate(self.pre_subjects)\n                    if isinstance(s, MultiVector) and s.grades == (d - 1,)]", "            return [j + 1 for j, s in enumerate(self.pre_subjects)\n                    if isinstance(s, MultiVector) and s.grades == (d - 1,)]")),
])
def drag_positions(ctx):
    """ECHO INVARIANCE.  On every frame graph.js reports `draggable_points_idxs.map(i => canvas.value[i])`, where canvas.value is
    the decoded `subjects` list - whether or not anything was moved - and the observer writes report k into the subject that
    belongs to index k.  So a report that merely echoes what the front end was sent must leave every subject as it is: the
    positions sent to the front end have to be positions in the list the front end indexes (the WALKED subjects, in which an
    array-valued multivector at the root is spliced in element by element), and each must hold the encoding of the very
    multivector the observer writes to.  encode, walker, get_draggable_points_idxs and the observer are all run from source."""
    repo = ctx.repo
    qi, qo = "graph.GraphWidget.get_draggable_points_idxs", "graph.GraphWidget._observe_draggable_points"
    fni, fno = ctx.func(qi), ctx.func(qo)

    def arr(name, n):
        o = Obj("ndarray-element", {"fmt": name, "shape": (n,)})
        o.getitem = lambda idx: Val(f"{name}[{idx!r}]")
        return o

    def cells():
        for r, label_alg in ((1, "2D PGA"), (0, "R3")):
            alg = rep_algebra(3, r=r)
            c2b = alg.attrs["canon2bin"]
            by_grade = lambda g, c2b=c2b: tuple(b for n, b in c2b.items() if len(n) - 1 == g)
            pts, lines = by_grade(2), by_grade(1)
            mk = lambda keys, nm: mv_obj(alg, keys, [Val(f"{nm}{i}") for i in range(len(keys))])
            cloud_lines = mv_obj(alg, lines, [arr(f"CL{i}", 3) for i in range(len(lines))])
            cloud_points = mv_obj(alg, pts, [arr(f"CP{i}", 3) for i in range(len(pts))])
            lam = Closure(ast.parse("lambda: CLOUD", mode="eval").body, {"CLOUD": cloud_points}, "graph")
            yield alg, f"{label_alg}: no array-valued subject", [0xFF, mk(lines, "L"), mk(pts, "P"), [mk(pts, "N")], mk(pts, "Q")]
            yield alg, f"{label_alg}: a callable returning an array-valued multivector before the points", [0xFF, lam, mk(pts, "P"), mk(pts, "Q")]
            if r == 1:
                yield alg, f"{label_alg}: an array-valued multivector (not of point grade) before the points", [0xFF, cloud_lines, mk(pts, "P"), mk(pts, "Q")]

    for alg, label, S in cells():
        c = f"graph.GraphWidget#echo:{label}"
        canon = canonical_keys(alg)
        key2idx_ = {k: i for i, k in enumerate(canon)}
        before = {id(s): [val_repr(v) for v in s.attrs["_values"]] for s in S
                  if isinstance(s, Obj) and s.kind == "MultiVector" and all(not (isinstance(v, Obj) and v.kind == "ndarray-element") for v in s.attrs["_values"])}
        try:
            ii = make_interp(repo).run(qi, [widget(alg, pre_subjects=S)])
            E = encode_walk(repo, S)
        except NoValue as exc:
            raise Unknown(c, str(exc), fni)
        if ii[0] != "return" or not isinstance(ii[1], list) or E[0] != "return" or not isinstance(E[1], list):
            raise Unknown(c, f"unrecognised results {ii!r} / {E!r}", fni)
        idxs, shown = ii[1], E[1]
        report, bad = [], None
        for i in idxs:
            item = shown[i] if isinstance(i, int) and 0 <= i < len(shown) else None
            full = js_decode(item, alg) if isinstance(item, dict) else None
            if full is None:
                bad = f"index {i} of draggable_points_idxs {idxs} is {'outside' if item is None else 'no multivector in'} the list the front end indexes " \
                      f"({len(shown)} walked subjects)"
                break
            report.append({"mv": [Val(full[k]) if isinstance(full[k], str) else full[k] for k in canon]})
        if bad:
            ctx.violation(c, bad + ": the front end reports something that is not the point", fni)
            continue
        w = widget(alg, key2idx=key2idx_, pre_subjects=S, raw_subjects=S, draggable_points_idxs=idxs, subjects="STALE")
        try:
            out = make_interp(repo).run(qo, [w, {"new": report}])
        except NoValue as exc:
            raise Unknown(c, str(exc), fno)
        if out[0] == "raise":
            ctx.violation(c, f"the observer raises {out[1]} on a report that echoes the subjects", fno)
            continue
        changed = [(j, before[id(s)], [val_repr(v) for v in s.attrs["_values"]]) for j, s in enumerate(S)
                   if id(s) in before and [val_repr(v) for v in s.attrs["_values"]] != before[id(s)]]
        if changed:
            j, was, now = changed[0]
            ctx.violation(c, f"nothing was moved (the report echoes positions {idxs} of the walked subjects), yet subject {j} changes from {was} to {now}: "
                             f"draggable_points_idxs are positions in the unexpanded argument list, the front end indexes the list in which an "
                             f"array-valued multivector is spliced in element by element - every report overwrites the points with other subjects", fni)
        else:
            ctx.ok(c, fni, idxs=idxs, shown=len(shown))


# --------------------------------------------------------------------------- writeback
def check_writeback(ctx, repo):
    q = "graph.GraphWidget.inplacereplace"
    fn = ctx.func(q)
    for label, mk in LAYOUTS.items():
        alg = rep_algebra(3)
        canon = canonical_keys(alg)
        keys, names = mk(alg)
        store = [Val(n) for n in names]
        mv = mv_obj(alg, tuple(keys), store)
        other = mv_obj(alg, (1,), [Val("UNTOUCHED")])
        new_vals = [Val(f"N{k}") for k in canon]          # the front end reports full elements in canonical order
        key2idx_ = {k: i for i, k in enumerate(canon)}
        w = widget(alg, key2idx=key2idx_)
        c = f"{q}#{label}"
        it = make_interp(repo)
        try:
            out = it.run(q, [w, [other, mv], [(1, {"mv": new_vals})]])
        except NoValue as exc:
            raise Unknown(c, str(exc), fn)
        if out[0] == "raise":
            ctx.violation(c, f"drag write-back into a {label} multivector raises {out[1]}", fn)
            continue
        got = [val_repr(v) if isinstance(v, Obj) else v for v in mv.attrs["_values"]]
        want = [f"N{k}" for k in keys]
        problems = []
        if mv.attrs["_values"] is not store:
            problems.append("the value container was replaced instead of written in place")
        if got != want:
            problems.append(f"stored coefficients become {dict(zip(keys, got))}, expected {dict(zip(keys, want))} "
                            f"(the new coefficient of each stored blade)")
        if val_repr(other.attrs["_values"][0]) != "UNTOUCHED":
            problems.append("a subject that was not dragged was modified")
        if problems:
            ctx.violation(c, f"drag write-back into a {label} multivector (keys {tuple(keys)}): " + "; ".join(problems), fn)
        else:
            ctx.ok(c, fn)
    # re-evaluation after the write
    q2 = "graph.GraphWidget._observe_draggable_points"
    fn2 = ctx.func(q2)
    alg = rep_algebra(3)
    canon = canonical_keys(alg)
    mv = mv_obj(alg, (4, 3), [Val("A"), Val("B")])
    subjects = [mv]
    w = widget(alg, key2idx={k: i for i, k in enumerate(canon)}, pre_subjects=subjects, raw_subjects=subjects,
               draggable_points_idxs=[0], subjects="STALE")
    it = make_interp(repo)
    try:
        out = it.run(q2, [w, {"new": [{"mv": [Val(f"N{k}") for k in canon]}]}])
    except NoValue as exc:
        raise Unknown(q2, str(exc), fn2)
    subj = w.attrs.get("subjects")
    if out[0] == "raise":
        ctx.violation(q2, f"observer raises {out[1]}", fn2)
    elif isinstance(subj, list) and subj and isinstance(subj[0], dict) and \
            [val_repr(v) for v in subj[0].get("mv", [])] == ["N4", "N3"]:
        ctx.ok(q2, fn2)
    elif subj == "STALE":
        ctx.violation(q2, "subjects are not recomputed after the dragged points are written back: dependent callables "
                          "are not re-evaluated", fn2)
    else:
        ctx.violation(q2, f"after a drag update subjects are {subj!r}, expected the re-encoded updated multivector", fn2)


@rule("C20.writeback", props=["C20"], min_instances=5, mutants=[
    ("positional fast path for every full-length mv", ("graph", "if tuple(old_subject._keys) == tuple(self.algebra.canon2bin.values()):", "if len(old_vals) == len(self.algebra):")),
    ("write-back by storage position", ("graph", "                    val = new_vals[self.key2idx[k]]", "                    val = new_vals[j]")),
    ("subjects not refreshed", ("graph", "        self.subjects = self.get_subjects().copy()\n", "")),
])
def writeback(ctx):
    """Drag write-back is in place, key-addressed through key2idx, and followed by re-evaluation (TS/OWN)."""
    check_writeback(ctx, ctx.repo)


# --------------------------------------------------------------------------- subject plumbing
@rule("C20.subjects", props=["C20"], min_instances=7, mutants=[
    ("graph() evaluates a graph function once, up front", ("algebra", "        return graph_widget(\n            algebra=self,\n            raw_subjects=subjects,", "        if len(subjects) == 1 and callable(subjects[0]) and not isinstance(subjects[0], MultiVector):\n            subjects = subjects[0]()\n        return graph_widget(\n            algebra=self,\n            raw_subjects=subjects,")),
    ("subjects encode the raw subjects of a single callable without calling it", ("graph", "            pre_subjects = s()\n            if not isinstance(pre_subjects, TREE_TYPES):", "            pre_subjects = s\n            if not isinstance(pre_subjects, TREE_TYPES):")),
    ("subjects encode the cached pre_subjects", ("graph", "        return walker(encode(self._get_pre_subjects(), root=True))", "        return walker(encode(self.pre_subjects, root=True))")),
    ("message handler does not refresh", ("graph", "            self.subjects = self.get_subjects()\n\n    def _get_pre_subjects", "            self.get_subjects()\n\n    def _get_pre_subjects")),
    ("graph() drops the options", ("algebra", "            raw_subjects=subjects,\n            options=options,", "            raw_subjects=subjects,\n            options={},")),
    ("camera option passed through unencoded", ("graph", "            options['camera'] = list(encode(options['camera']))[0]", "            options['camera'] = options['camera']")),
])
def subjects(ctx):
    """Subject plumbing: a single zero-argument callable is called for the subject list, subjects are the walked
    encoding of the prepared subjects, an update message re-evaluates them, Algebra.graph hands subjects and
    options through, a multivector-valued camera option is encoded."""
    from ..astx import NoValue
    repo = ctx.repo
    alg = rep_algebra(3)
    a = mv_obj(alg, (1,), [Val("A")])
    b = mv_obj(alg, (2, 4), [Val("B"), Val("C")])
    pa, pb = {"mv": ["A"], "keys": (1,)}, {"mv": ["B", "C"], "keys": (2, 4)}

    def norm(x):
        if isinstance(x, dict):
            return {k: norm(v) for k, v in x.items()}
        if isinstance(x, (list, tuple)):
            return [norm(v) for v in x]
        if isinstance(x, Obj):
            return val_repr(x)
        return x
    q = "graph.GraphWidget._get_pre_subjects"
    fn = ctx.func(q)
    lam = Closure(ast.parse("lambda: [A, 255, B]", mode="eval").body, {"A": a, "B": b}, "graph")
    lam1 = Closure(ast.parse("lambda: A", mode="eval").body, {"A": a}, "graph")
    for label, raw, want in (("plain subjects", [255, a, b], [255, a, b]), ("single callable returning a list", [lam], [a, 255, b]),
                             ("single callable returning one subject", [lam1], [a]), ("single multivector", [a], [a])):
        c = f"{q}#{label}"
        try:
            out = make_interp(repo).run(q, [widget(alg, raw_subjects=raw)])
        except NoValue as exc:
            raise Unknown(c, str(exc), fn)
        got = list(out[1]) if out[0] == "return" and isinstance(out[1], (list, tuple)) else None
        if got is not None and len(got) == len(want) and all(g is w or g == w for g, w in zip(got, want)):
            ctx.ok(c, fn)
        else:
            ctx.violation(c, f"prepared subjects for {label} are {norm(got) if got is not None else out!r}", fn)
    # a single root callable is re-run on every evaluation (its result is not cached in pre_subjects)
    q = "graph.GraphWidget.get_subjects"
    fn = ctx.func(q)
    state = {"n": 0}

    def root():
        state["n"] += 1
        return [a] if state["n"] == 1 else [a, 255, b]
    rootf = Obj("function", {"fmt": "<root>"}, call=root)
    w = widget(alg, raw_subjects=[rootf])
    try:
        it0 = make_interp(repo)
        w.attrs["pre_subjects"] = it0.run("graph.GraphWidget.get_pre_subjects", [w])[1]      # trait default at construction
        out = make_interp(repo).run(q, [w])
    except NoValue as exc:
        raise Unknown(q + "#re-evaluation", str(exc), fn)
    if out[0] == "return" and norm(out[1]) == norm([pa, 255, pb]):
        ctx.ok(q + "#re-evaluation", fn)
    else:
        ctx.violation(q + "#re-evaluation", f"after the root function changed what it returns, get_subjects() gives "
                      f"{norm(out[1]) if out[0] == 'return' else out!r} - the stale first evaluation - instead of re-running "
                      f"the function ({norm([pa, 255, pb])}): dependent subjects are not re-evaluated", fn)
    # update message re-evaluates
    q = "graph.GraphWidget._handle_custom_msg"
    fn = ctx.func(q)
    w = widget(alg, raw_subjects=[a], subjects="STALE")
    try:
        out = make_interp(repo).run(q, [w, {"type": "update_mvs"}, []])
    except NoValue as exc:
        raise Unknown(q, str(exc), fn)
    if norm(w.attrs.get("subjects")) == norm([pa]):
        ctx.ok(q, fn)
    else:
        ctx.violation(q, f"after an 'update_mvs' message subjects are {norm(w.attrs.get('subjects'))!r}, expected the "
                         f"re-evaluated subjects {norm([pa])}", fn)
    # Algebra.graph hands everything through
    q = "algebra.Algebra.graph"
    fn = ctx.func(q)
    seen = {}
    gw = Obj("widget-class", call=lambda **k: (seen.update(k), Obj("GraphWidget"))[1])
    try:
        out = make_interp(repo).run(q, [alg, 255, a], {"graph_widget": gw, "grid": 1, "lineWidth": 3})
    except NoValue as exc:
        raise Unknown(q, str(exc), fn)
    if seen.get("algebra") is alg and list(seen.get("raw_subjects", ())) == [255, a] and seen.get("options") == {"grid": 1, "lineWidth": 3}:
        ctx.ok(q, fn)
    else:
        ctx.violation(q, f"Algebra.graph constructs the widget with {norm({k: v for k, v in seen.items() if k != 'algebra'})}, expected "
                         f"raw_subjects=(255, A) and options={{'grid': 1, 'lineWidth': 3}} for this algebra", fn)
    # a single graph function must reach the widget as a function (it is re-evaluated on every update), not as the
    # list it returns when the widget is created
    calls = []
    gf = Obj("function", {"fmt": "<graph function>"}, call=lambda: (calls.append(1), [a])[1])
    seen2 = {}
    gw2 = Obj("widget-class", call=lambda **k: (seen2.update(k), Obj("GraphWidget"))[1])
    c = f"{q}#single callable subject"
    try:
        out = make_interp(repo).run(q, [alg, gf], {"graph_widget": gw2})
    except NoValue as exc:
        raise Unknown(c, str(exc), fn)
    rs = seen2.get("raw_subjects")
    if out[0] != "raise" and isinstance(rs, (tuple, list)) and len(rs) == 1 and rs[0] is gf and not calls:
        ctx.ok(c, fn)
    else:
        ctx.violation(c, f"Algebra.graph(f) with a single graph function hands the widget raw_subjects={norm(rs)!r} after calling f "
                         f"{len(calls)} time(s); expected the function itself, uncalled: the widget re-evaluates it after every update, "
                         f"a list computed once goes stale when points are dragged", fn)
    # camera option
    q = "graph.GraphWidget._valid_options"
    fn = ctx.func(q)
    try:
        out = make_interp(repo).run(q, [widget(alg), {"value": {"camera": a, "grid": 1}}])
    except NoValue as exc:
        raise Unknown(q, str(exc), fn)
    if out[0] == "return" and norm(out[1]) == {"camera": norm(pa), "grid": 1}:
        ctx.ok(q, fn)
    else:
        ctx.violation(q, f"options with a multivector camera are validated to {norm(out[1]) if out[0] == 'return' else out!r}, expected the "
                         f"camera encoded as {norm(pa)}", fn)
