"""C04 - Sum, difference, negation, involutions and grade selection act blade-wise."""
from __future__ import annotations

import ast

from ..astx import un, NoValue, Poly
from ..core import Unknown as _U
from ..core import rule, fixture_for, Unknown
from ..products import grade
from ..surface import operator_registry, class_surface
from .c02 import run_product, compare_result
from .c15 import check_accessors

INFO = {
    "id": "C04",
    "technique": "abstract interpretation of the leaf codegens with polynomial coefficient tokens over the exact cell "
                 "partition {only-left, both, only-right} and over all grade residues mod 4; registry/surface name table",
    "explanation": "Decided: codegen_add/sub/neg, abstractly interpreted on operands with overlapping, left-only and "
                   "right-only blades and symbolic coefficients, give (x, x+y, y), (x, x-y, -y) and -x cell by cell; the "
                   "three involutions on every blade of a 7-D algebra (grades 0..7, i.e. every residue mod 4 twice) negate "
                   "exactly the grades with (-1)^(k(k-1)/2), (-1)^k, (-1)^(k(k+1)/2) = -1; grade() returns exactly the stored "
                   "coefficients of the requested grades; every registry operator X carries codegen_X and the MultiVector "
                   "methods/dunders forward to the operators of the documented table (so ~a is reversion, not conjugation). "
                   "The (anti)automorphism statements are consequences of a grade-wise sign (M2).",
    "decided": ["C04.cells", "C04.involution-table", "C04.grade", "C04.registry-names", "C02.call-pairing"],
    "not_decided": ["nothing beyond the builders shared with C02"],
    "assumptions": ["keys are unique within one operand", "M2: involution signs have period 4 in the grade"],
}

CELL_REP = ([1, 1, 1], (1, 6, 3, 0), (6, 5, 0, 2))   # both: 6, 0; only-x: 1, 3; only-y: 5, 2
SAME_SET_REP = ([1, 1, 1], (1, 2, 3, 7), (3, 7, 1, 2))  # the same blades, stored in another order


def _cells_spec(kind, rep=None):
    _, xk, yk = rep or CELL_REP
    res = {}
    for k in xk:
        res[k] = Poly.atom(f"a{k}")
    for k in yk:
        b = Poly.atom(f"b{k}")
        if kind == "add":
            res[k] = res.get(k, Poly()) + b
        else:
            res[k] = res.get(k, Poly()) - b
    return res


@rule("C04.cells", props=["C04", "C08"], min_instances=5, mutants=[
    ("sub keeps +y on blades only y stores", ("codegen", "            vals[k] = -v\n    return vals", "            vals[k] = v\n    return vals")),
    ("add overwrites on shared blades", ("codegen", "            vals[k] = vals[k] + v", "            vals[k] = v")),
    ("sub reversed on shared blades", ("codegen", "            vals[k] = vals[k] - v", "            vals[k] = v - vals[k]")),
    ("positional fast path for equal type numbers", ("codegen", "def codegen_add(x, y):\n    vals = dict(x.items())", "def codegen_add(x, y):\n    if x.type_number == y.type_number:\n        return {k: vx + vy for (k, vx), vy in zip(x.items(), y.values())}\n    vals = dict(x.items())")),
    ("neg is the identity", ("codegen", "    return {k: -v for k, v in x.items()}", "    return {k: v for k, v in x.items()}")),
], rewrites=[
    ("vals.get form of sub", ("codegen", "        if k in vals:\n            vals[k] = vals[k] - v\n        else:\n            vals[k] = -v", "        vals[k] = vals[k] - v if k in vals else -v")),
])
def cells(ctx):
    """add / sub / neg act cell-wise: (x, x+y, y), (x, x-y, -y), -x (VF + DT)."""
    repo = ctx.repo
    reg = operator_registry(repo)
    sig, xk, yk = CELL_REP
    for op in ("add", "sub"):
        cg = reg[op].codegen
        c = f"codegen.{cg}#cells"
        got = run_product(ctx, repo, cg, sig, xk, yk, c)
        compare_result(ctx, c, ctx.func(f"codegen.{cg}"), got, _cells_spec(op), op)
        c = f"codegen.{cg}#same-blades-other-order"
        got = run_product(ctx, repo, cg, *SAME_SET_REP, c)
        compare_result(ctx, c, ctx.func(f"codegen.{cg}"), got, _cells_spec(op, SAME_SET_REP), f"{op} of operands holding the same blades in another storage order")
    cg = reg["neg"].codegen
    c = f"codegen.{cg}#cells"
    got = run_product(ctx, repo, cg, sig, xk, yk, c, unary=True)
    compare_result(ctx, c, ctx.func(f"codegen.{cg}"), got, {k: -Poly.atom(f"a{k}") for k in xk}, "negation")


INVOLUTION_SIGN = {
    "reverse": lambda k: (-1) ** (k * (k - 1) // 2),
    "involute": lambda k: (-1) ** k,
    "conjugate": lambda k: (-1) ** (k * (k + 1) // 2),
}


@rule("C04.involution-table", props=["C04"], min_instances=33, mutants=[
    ("operands without a grade 2 or 3 (resp. 1, 3 / 1, 2) are returned unchanged", ("codegen", "    return {k: -v if bin(k).count('1') % 4 in invert_grades else v\n            for k, v in x.items()}", "    if not set(x.grades) & set(invert_grades):\n        return dict(x.items())\n    return {k: -v if bin(k).count('1') % 4 in invert_grades else v\n            for k, v in x.items()}")),
    ("reverse negates grades 1,2", ("codegen", "return codegen_involutions(x, invert_grades=(2, 3))", "return codegen_involutions(x, invert_grades=(1, 2))")),
    ("popcount mod 2", ("codegen", "bin(k).count('1') % 4 in invert_grades", "bin(k).count('1') % 2 in invert_grades")),
    ("conjugate and involute exchanged", [("codegen", "def codegen_involute(x):\n    return codegen_involutions(x, invert_grades=(1, 3))", "def codegen_involute(x):\n    return codegen_involutions(x, invert_grades=(1, 2))")]),
    ("registry: involute carries codegen_conjugate", ("algebra", "involute: UnaryOperatorDict = operation_field(metadata={'codegen': codegen_involute,", "involute: UnaryOperatorDict = operation_field(metadata={'codegen': codegen_conjugate,")),
    ("no wrap-around above grade 3", ("codegen", "bin(k).count('1') % 4 in invert_grades", "bin(k).count('1') in invert_grades")),
], rewrites=[
    ("popcount via format", ("codegen", "bin(k).count('1') % 4 in invert_grades", "format(k, 'b').count('1') % 4 in invert_grades")),
])
def involution_table(ctx):
    """reverse / involute / conjugate negate exactly the grades their sign formulas say, for every residue mod 4."""
    repo = ctx.repo
    reg = operator_registry(repo)
    d = 7
    keys = tuple(sorted(range(2 ** d), key=lambda k: (k * 37) % 128))   # all 128 blades, shuffled
    for op, sgn in INVOLUTION_SIGN.items():
        cg = reg[op].codegen
        c = f"codegen.{cg}#table"
        got = run_product(ctx, repo, cg, [1] * d, keys, (), c, unary=True)
        want = {k: Poly.atom(f"a{k}") * Poly.const(sgn(grade(k))) for k in keys}
        compare_result(ctx, c, ctx.func(f"codegen.{cg}"), got, want, op)
        # operands of one grade, and of high grades only (what a shortcut keyed on the grades PRESENT would look at): the
        # sign of grade g is that of g mod 4
        for label, gs in [(f"grade {g} only", (g,)) for g in range(d + 1)] + [("grades 4 and 5", (4, 5)), ("grades 5, 6 and 7", (5, 6, 7))]:
            ks = tuple(k for k in keys if grade(k) in gs)[:5]
            c2 = f"codegen.{cg}#{label}"
            got = run_product(ctx, repo, cg, [1] * d, ks, (), c2, unary=True)
            want = {k: Poly.atom(f"a{k}") * Poly.const(sgn(grade(k))) for k in ks}
            compare_result(ctx, c2, ctx.func(f"codegen.{cg}"), got, want, f"{op} of an operand of {label}")


@rule("C04.grade", props=["C04", "C08", "C15"], min_instances=19)
def grade_rule(ctx):
    """grade() returns exactly the stored coefficients of the requested grades (shared with C15.accessors)."""
    check_accessors(ctx, ctx.repo)


DOCUMENTED = {  # README operator table: method / dunder -> registry operator, operand roles
    "gp": ("gp", ("self", "other")), "__mul__": ("gp", ("self", "other")), "__rmul__": ("gp", ("other", "self")),
    "op": ("op", ("self", "other")), "__xor__": ("op", ("self", "other")),
    "ip": ("ip", ("self", "other")), "__or__": ("ip", ("self", "other")),
    "rp": ("rp", ("self", "other")), "__and__": ("rp", ("self", "other")),
    "sw": ("sw", ("self", "other")), "__rshift__": ("sw", ("self", "other")),
    "proj": ("proj", ("self", "other")), "__matmul__": ("proj", ("self", "other")),
    "cp": ("cp", ("self", "other")), "acp": ("acp", ("self", "other")), "sp": ("sp", ("self", "other")),
    "lc": ("lc", ("self", "other")), "rc": ("rc", ("self", "other")),
    "add": ("add", ("self", "other")), "__add__": ("add", ("self", "other")),
    "sub": ("sub", ("self", "other")), "__sub__": ("sub", ("self", "other")),
    "div": ("div", ("self", "other")), "__truediv__": ("div", ("self", "other")),
    "neg": ("neg", ("self",)), "__neg__": ("neg", ("self",)),
    "reverse": ("reverse", ("self",)), "__invert__": ("reverse", ("self",)),
    "involute": ("involute", ("self",)), "conjugate": ("conjugate", ("self",)), "inv": ("inv", ("self",)),
    "sqrt": ("sqrt", ("self",)), "normsq": ("normsq", ("self",)), "polarity": ("polarity", ("self",)),
    "unpolarity": ("unpolarity", ("self",)), "hodge": ("hodge", ("self",)), "unhodge": ("unhodge", ("self",)),
    "outerexp": ("outerexp", ("self",)), "outersin": ("outersin", ("self",)), "outercos": ("outercos", ("self",)),
    "outertan": ("outertan", ("self",)),
}


def _spec_unary(op, coeffs):
    sgn = {"reverse": INVOLUTION_SIGN["reverse"], "involute": INVOLUTION_SIGN["involute"], "conjugate": INVOLUTION_SIGN["conjugate"],
           "neg": lambda k: -1}[op]
    return {k: v * Poly.const(sgn(grade(k))) for k, v in coeffs.items()}


def _check_python_bodied_method(ctx, repo, c, meth, op, order, entry):
    """A documented method with a Python body (shortcuts, special cases): abstractly interpret it on homogeneous
    operands of every grade and on a mixed operand, with the algebra's operators replaced by the checker's own
    specification, and compare with applying the documented operator directly."""
    from ..absint import Obj, PyFunc, Unk
    from ..products import PV, poly_of_value
    from ..symenv import make_interp, rep_algebra, mv_obj
    if not isinstance(entry.node, ast.FunctionDef):
        raise Unknown(c, "is neither a forwarding method, an alias nor a plain function", entry.node)
    d = 7
    operands = [tuple(k for k in range(2 ** d) if grade(k) == g)[:3] for g in range(d + 1)] + [(0, 3, 21, 127, 64, 97)]

    def mk(alg, keys, prefix):
        return mv_obj(alg, tuple(keys), [PV(Poly.atom(f"{prefix}{k}"), "atom") for k in keys])

    def coeffs(o):
        if isinstance(o, Obj) and o.kind == "MultiVector" and "_keys" in o.attrs:
            vals = [poly_of_value(v) for v in o.attrs["_values"]]
            if all(v is not None for v in vals):
                return {k: v for k, v in zip(o.attrs["_keys"], vals) if not v.is_zero()}
        return None
    from ..specmv import Spec
    spec = Spec([1] * d)
    # the second operand: other blades, and - for binary methods - the SAME blades in the same and in another storage order
    # (what a shortcut keyed on "operands of one type" would take for interchangeable)
    cases = [(keys, (1, 6)) for keys in operands]
    if len(order) == 2:
        cases += [((4, 1, 2), (1, 2, 4)), ((1, 2, 4), (1, 2, 4)), ((3, 0, 5), (5, 3, 0))]
        # an operand that stores no blade (e0 * e0 in PGA, an empty grade selection), on either side: `nothing - b` is -b, not b
        cases += [((), (1, 6)), ((1, 6), ()), ((), ())]
    for keys, ykeys in cases:
        alg = rep_algebra(d)
        alg.attrs.setdefault("wrapper", None)

        def opattr(name, alg=alg):
            def apply(*ops):
                if name in ("reverse", "involute", "conjugate", "neg") and len(ops) == 1 and coeffs(ops[0]) is not None:
                    res = _spec_unary(name, coeffs(ops[0]))
                    return mv_obj(alg, tuple(res), [PV(v, "sum") for v in res.values()])
                if name in ("add", "sub", "gp", "op", "ip", "lc", "rc", "sp", "sw", "proj") and len(ops) == 2 and all(coeffs(o) is not None for o in ops):
                    res = getattr(spec, name)(coeffs(ops[0]), coeffs(ops[1]))
                    ks = tuple(sorted(res))
                    return mv_obj(alg, ks, [PV(res[k], "sum") for k in ks])
                return Obj("opresult", {"fmt": f"{name}({', '.join(str(id(o)) for o in ops)})"})
            return PyFunc(apply, f"algebra.{name}", True)
        alg.methods["__getattr__"] = opattr
        x = mk(alg, keys, "a")
        y = mk(alg, ykeys, "b")
        for o_ in (x, y):
            o_.attrs["issymbolic"] = False
        roles = {"self": x, "other": y}
        it = make_interp(repo)
        it.algebra = alg
        args = [y] if len(order) == 2 else []
        try:
            got = it.call_function(entry.node, [x] + args, {}, {}, "multivector")
            want = it.call(opattr(op), [roles[r] for r in order], {})
        except NoValue as exc:
            raise Unknown(c, f"cannot evaluate the Python body: {exc}", entry.node)
        same = (coeffs(got) == coeffs(want)) if coeffs(want) is not None else (str(got) == str(want))
        if isinstance(got, Unk):
            raise Unknown(c, f"evaluates to {got!r}", entry.node)
        if not same:
            g = sorted({grade(k) for k in keys})
            if len(order) == 2:
                ctx.violation(c, f"MultiVector.{meth} on operands storing the blades {tuple(keys)} and {tuple(ykeys)} does not equal the documented "
                                 f"operator {op!r} applied to {order}: got {coeffs(got) if coeffs(got) is not None else got!s}, expected "
                                 f"{coeffs(want) if coeffs(want) is not None else want!s}", entry.node)
                return
            ctx.violation(c, f"MultiVector.{meth} on an operand of grades {g} does not equal the documented operator "
                             f"{op!r} applied to {order}: got {coeffs(got) if coeffs(got) is not None else got!s}, expected "
                             f"{coeffs(want) if coeffs(want) is not None else want!s}", entry.node)
            return
    ctx.ok(c, entry.node, operator=op, via="python body, evaluated on homogeneous operands of every grade 0..7 and a mixed one")


@rule("C04.registry-names", props=["C04", "C06", "C03", "C05", "C07"], min_instances=60, mutants=[
    ("subtracting from the multivector that stores no blade returns the other operand", ("multivector", "    def sub(self, other):\n        return self.algebra.sub(self, other)", "    def sub(self, other):\n        if isinstance(other, MultiVector) and other.algebra is self.algebra and not self._keys:\n            return other\n        return self.algebra.sub(self, other)")),
    ("the sandwich is stripped to the grades of its second operand", ("multivector", "        return self.algebra.sw(self, other)", "        res = self.algebra.sw(self, other)\n        if isinstance(other, MultiVector) and isinstance(res, MultiVector) and res.grades != other.grades:\n            res = res.grade(other.grades)\n        return res")),
    ("single-grade shortcut of reverse() forgets the period 4", ("multivector", "    def reverse(self):\n        \"\"\" Reversion \"\"\"\n        return self.algebra.reverse(self)", "    def reverse(self):\n        \"\"\" Reversion \"\"\"\n        if len(self.grades) == 1:\n            return -self if self.grades[0] in (2, 3) else self\n        return self.algebra.reverse(self)")),
    ("~ bound to conjugate", ("multivector", "    def __invert__(self):\n        \"\"\" Reversion \"\"\"\n        return self.algebra.reverse(self)", "    def __invert__(self):\n        \"\"\" Reversion \"\"\"\n        return self.algebra.conjugate(self)")),
    ("lc method calls rc", ("multivector", "    def lc(self, other):\n        return self.algebra.lc(self, other)", "    def lc(self, other):\n        return self.algebra.rc(self, other)")),
    ("operands of one type are added position by position", ("multivector", "    def add(self, other):\n        return self.algebra.add(self, other)", "    def add(self, other):\n        if isinstance(other, MultiVector) and other.algebra is self.algebra and other.type_number == self.type_number and not (self.issymbolic or other.issymbolic):\n            return self.fromkeysvalues(self.algebra, self._keys, [v + w for v, w in zip(self._values, other._values)])\n        return self.algebra.add(self, other)")),
])
def registry_names(ctx):
    """Registry field X carries codegen_X; MultiVector methods and dunders forward to the documented operators."""
    repo = ctx.repo
    reg = operator_registry(repo)
    for name, row in reg.items():
        c = f"algebra.Algebra.{name}#codegen"
        if not repo.has(f"codegen.{row.codegen}"):
            ctx.violation(c, f"operator {name!r} is registered with {row.codegen}, which codegen.py does not define", row.node)
        else:
            # which function an operator carries is decided semantically: every table / tree rule resolves its
            # codegen through this registry row (C02.table, C03.table, C04.cells, C04.involution-table, C05.*, C06.trees,
            # C07.*, C19.*), so a mis-registered operator fails there; the naming convention itself is only recorded
            ctx.ok(c, row.node, codegen=row.codegen, follows_naming_convention=row.codegen == f"codegen_{name}")
    # every name used by the registry must also be imported from codegen (C11.names covers resolution)
    mv = class_surface(repo, "multivector.MultiVector")
    for meth, (op, order) in DOCUMENTED.items():
        c = f"multivector.MultiVector.{meth}"
        e = mv.get(meth)
        if e is None:
            ctx.violation(c, f"documented method/operator {meth} is not defined on MultiVector", None, module="multivector")
        elif e.kind != "op":
            _check_python_bodied_method(ctx, repo, c, meth, op, order, e)
        elif (e.op, e.order) == (op, order) and e.via == "def:branching":
            # forwards for generic operands, but its body branches: also interpreted on representatives of particular shapes
            _check_python_bodied_method(ctx, repo, c, meth, op, order, e)
        elif (e.op, e.order) == (op, order):
            ctx.ok(c, e.node, operator=e.op, order=e.order)
        else:
            ctx.violation(c, f"MultiVector.{meth} applies operator {e.op!r} to {e.order}; the documented operator table says "
                             f"{op!r} on {order}", e.node)
