"""C10 - Code is generated at most once per operator and key pattern (typestate on the cache)."""
from __future__ import annotations

import ast

from ..astx import (reaching_assignment, un, chain, call_name, paths, params, walk_shallow, single_assignments, inline, names_read, enclosing,
                    inline_self_calls, private_helper_owners, seq)
from ..core import rule, fixture_for, Unknown

INFO = {
    "id": "C10",
    "technique": "typestate / must-pass-through on the three cache __getitem__ methods (path enumeration), who-may-call "
                 "closure over every compile sink of the package, def-use provenance of every cache key, eviction scan",
    "explanation": "Decided (this property is entirely in the shape of the code): in each of the three cache lookups the "
                   "generating call is control-dependent on a miss test of the cache for the unmodified key parameter and "
                   "every normal path from it stores the entry under that same key; every call site of a compile sink "
                   "(compile, exec, cse, lambdify, func_builder, do_codegen, do_compile) in the package lies in a function "
                   "that is only reachable through those guarded regions or through a memoising decorator; every cache "
                   "key is built only from operand key tuples; nothing evicts or rebinds the caches.",
    "decided": ["C10.guard-and-store", "C10.only-through-cache", "C10.key-provenance", "C10.value-blind-operands", "C10.no-eviction"],
    "not_decided": ["nothing structural; costs inside sympy are outside the statement"],
    "assumptions": ["callee resolution is by simple name over the nine modules of the package (no dynamic dispatch reaches a sink)"],
}

GETITEMS = ["operator_dict.OperatorDict.__getitem__", "operator_dict.UnaryOperatorDict.__getitem__",
            "operator_dict.Registry.__getitem__"]
GENERATORS = {"do_codegen", "do_compile"}
CACHE_ATTR = "operator_dict"


def _is_cache(node):
    c = chain(node)
    return c is not None and c.endswith("." + CACHE_ATTR)


def _miss_test(test, positive, key):
    """Does guard (test, outcome) establish that `key` is NOT in the cache?  Returns the key node or None."""
    if isinstance(test, ast.UnaryOp) and isinstance(test.op, ast.Not):
        return _miss_test(test.operand, not positive, key)
    if isinstance(test, ast.Compare) and len(test.ops) == 1 and _is_cache(test.comparators[0]):
        if isinstance(test.ops[0], ast.NotIn) and positive:
            return test.left
        if isinstance(test.ops[0], ast.In) and not positive:
            return test.left
    return None


def _flatten_try(stmts):
    """Rewrite `try: return cache[K] except KeyError: <body>` into `if K not in cache: <body>` + return."""
    out = []
    for st in stmts:
        if isinstance(st, ast.Try) and len(st.handlers) == 1 and not st.orelse and not st.finalbody \
                and st.handlers[0].type is not None and un(st.handlers[0].type) == "KeyError" \
                and len(st.body) == 1 and isinstance(st.body[0], ast.Return) \
                and isinstance(st.body[0].value, ast.Subscript) and _is_cache(st.body[0].value.value):
            sub = st.body[0].value
            test = ast.Compare(left=sub.slice, ops=[ast.NotIn()], comparators=[sub.value])
            body = list(st.handlers[0].body)
            out.append(ast.copy_location(ast.If(test=test, body=body, orelse=[st.body[0]]), st))
        else:
            out.append(st)
    return out


def check_guard_and_store(ctx, fn, qual):
    ps = params(fn)
    if len(ps) != 2:
        raise Unknown(qual, f"expected (self, key), found {ps}", fn)
    key = ps[1]
    for n in walk_shallow(fn):
        if isinstance(n, (ast.Assign, ast.AugAssign, ast.NamedExpr)):
            tg = n.targets if isinstance(n, ast.Assign) else [n.target]
            for t in tg:
                if any(isinstance(x, ast.Name) and x.id == key and isinstance(x.ctx, ast.Store) for x in ast.walk(t)):
                    ctx.violation(qual, f"the cache key parameter {key!r} is rebound ({un(n)!r}) before use", n)
                    return
    try:
        ps_ = paths(_flatten_try(fn.body))
    except Exception as exc:
        raise Unknown(qual, f"path enumeration failed: {exc}", fn)
    gen_paths = 0
    for p in ps_:
        gen_idx = [i for i, st in enumerate(p.stmts) if any((call_name(c) or "").split(".")[-1] in GENERATORS
                                                            for c in ast.walk(st) if isinstance(c, ast.Call))]
        if not gen_idx:
            # a hit path: must return the cached entry of this key
            if p.exit == "return":
                rv = p.exit_node.value
                ok = isinstance(rv, ast.Subscript) and _is_cache(rv.value) and un(rv.slice) == key
                if not ok and not any(_miss_test(t, b, key) is not None for t, b in p.guards):
                    ctx.violation(f"{qual}#hit-path", f"a path without code generation returns {un(rv)!r}, not the "
                                                      f"cached entry of the key", p.exit_node)
            continue
        gen_paths += 1
        first = gen_idx[0]
        gen_stmt = p.stmts[first]
        # (a) dominated by a miss test on the unmodified key
        missed = [_miss_test(t, b, key) for t, b in p.guards]
        missed = [m for m in missed if m is not None]
        guarded = any(un(m) == key for m in missed)
        # which guards precede the generation statement on this path?  (guards are in order; a miss test
        # that textually follows the generation does not count)
        guarded = guarded and any(seq(t) <= seq(gen_stmt) for t, b in p.guards
                                  if _miss_test(t, b, key) is not None)
        if not guarded:
            if missed:
                ctx.violation(f"{qual}#guard", f"code generation is guarded by a miss test on {un(missed[0])!r}, not on "
                                               f"the key {key!r} that is looked up", gen_stmt)
            else:
                ctx.violation(f"{qual}#guard", "code generation (do_codegen/do_compile) is reachable without a cache-miss "
                                               "test: every call regenerates and recompiles", gen_stmt)
            continue
        # (b) post-dominated by a store under the same key
        stores = [st for st in p.stmts[first + 1:] if isinstance(st, ast.Assign) and any(
            isinstance(t, ast.Subscript) and _is_cache(t.value) for t in st.targets)]
        good = [st for st in stores if any(isinstance(t, ast.Subscript) and _is_cache(t.value) and un(t.slice) == key
                                           for t in st.targets)]
        if p.exit == "raise":
            continue
        if not stores:
            ctx.violation(f"{qual}#store", "a path generates code but never stores it in the cache: the next call with "
                                           "the same key pattern generates again", gen_stmt)
        elif not good:
            ctx.violation(f"{qual}#store", f"generated code is stored under {un(stores[0].targets[0])!r}, not under the "
                                           f"looked-up key {key!r}: later lookups miss", stores[0])
        else:
            ctx.ok(f"{qual}#generate-path", gen_stmt, guard=f"{key} not in self.{CACHE_ATTR}", store=un(good[0].targets[0]))
    if gen_paths == 0:
        raise Unknown(qual, "no path calls do_codegen/do_compile", fn)


@rule("C10.guard-and-store", props=["C10"], min_instances=9, mutants=[
    ("a None entry is taken for a miss and the entry is never stored", ("operator_dict", "            self.operator_dict[keys_in] = (keys_out, func)\n        return self.operator_dict[keys_in]\n\n    def __contains__", "            return (keys_out, func)\n        return self.operator_dict[keys_in]\n\n    def __contains__")),
    ("store under sorted key", ("operator_dict", "            mv = self.algebra.multivector(name='a', keys=keys_in, symbolcls=self.codegen_symbolcls)\n            keys_out, func = do_codegen(self.codegen, mv)\n            # The generated name only encodes which blades are present, not their order: make it unique.\n            func.__name__ = f'{func.__name__}_{id(func)}'\n            self.algebra.numspace[func.__name__] = self.algebra.wrapper(func) if self.algebra.wrapper else func\n            self.operator_dict[keys_in] = (keys_out, func)",
                                "            mv = self.algebra.multivector(name='a', keys=keys_in, symbolcls=self.codegen_symbolcls)\n            keys_out, func = do_codegen(self.codegen, mv)\n            # The generated name only encodes which blades are present, not their order: make it unique.\n            func.__name__ = f'{func.__name__}_{id(func)}'\n            self.algebra.numspace[func.__name__] = self.algebra.wrapper(func) if self.algebra.wrapper else func\n            self.operator_dict[tuple(sorted(keys_in))] = (keys_out, func)")),
    ("miss test always true for Registry", ("operator_dict", "class Registry(OperatorDict):\n    def __getitem__(self, keys_in: Tuple[Tuple[int]]):\n        if keys_in not in self.operator_dict:",
                                            "class Registry(OperatorDict):\n    def __getitem__(self, keys_in: Tuple[Tuple[int]]):\n        if True:")),
], rewrites=[
    ("try/except KeyError form", ("operator_dict", "    def __getitem__(self, keys_in: Tuple[Tuple[int]]):\n        if keys_in not in self.operator_dict:\n            mv = self.algebra.multivector(name='a', keys=keys_in, symbolcls=self.codegen_symbolcls)",
                                  "    def __getitem__(self, keys_in: Tuple[Tuple[int]]):\n        if not (keys_in in self.operator_dict):\n            mv = self.algebra.multivector(name='a', keys=keys_in, symbolcls=self.codegen_symbolcls)")),
])
def guard_and_store(ctx):
    """Each cache look-up (__getitem__ of the three dictionaries) is interpreted from source with stubbed generators,
    in sequence on one object: a miss generates exactly once and stores the entry under exactly the looked-up key; a
    second look-up with the same key, and a look-up of a key that was already in the cache, generate nothing and
    return the stored entry; another key generates once more and evicts nothing.  (Every path of these functions is
    exercised by the four look-ups; the shape of the miss test - `in`, try/except KeyError, `.get` - does not matter.)"""
    from .c08 import run_getitem_sequence, GETITEMS as G8
    from ..astx import NoValue
    for q in GETITEMS:
        fn = ctx.func(q)
        try:
            log = run_getitem_sequence(ctx.repo, q)
        except NoValue as exc:
            raise Unknown(q, str(exc), fn)
        if log.get("raised"):
            ctx.violation(f"{q}#guard", f"the look-up sequence raises {log['raised']}", fn)
            continue
        gens = log["generations"]          # number of generations after each of the four look-ups
        # 1: miss
        if gens[0] != 1:
            ctx.violation(f"{q}#guard", f"the first look-up of a key generates code {gens[0]} times", fn)
        elif not log["stored_under_key"]:
            ctx.violation(f"{q}#store", f"after a miss the cache holds the keys {log['cache_keys_after_first']!r}, not the looked-up key "
                                        f"{log['key']!r}: the next call with the same key pattern generates again", fn)
        else:
            ctx.ok(f"{q}#generate-path", fn, stored_under="the looked-up key")
        # 2: hit after miss, 3: hit on a pre-populated cache
        if gens[1] != gens[0]:
            ctx.violation(f"{q}#guard", "a second look-up with the same key generates and compiles again: code generation is not "
                                        "guarded by a cache-miss test on the key that is looked up", fn)
        elif not log["second_is_entry"]:
            ctx.violation(f"{q}#hit-path", "a look-up that hits does not return the stored cache entry of the key", fn)
        elif log["prepopulated_generated"] or not log["prepopulated_is_entry"]:
            ctx.violation(f"{q}#hit-path", "a key that is already in the cache is generated again / not answered with its stored entry", fn)
        else:
            ctx.ok(f"{q}#hit-path", fn)
        # 4: another key
        if gens[2] != gens[1] + 1 or not log["both_present"]:
            ctx.violation(f"{q}#store", f"looking up a second key pattern gives {gens[2] - gens[1]} generation(s) and leaves the cache with "
                                        f"{log['cache_size_after_other']} entries (expected one generation, two entries): entries overwrite or "
                                        f"evict each other", fn)
        else:
            ctx.ok(f"{q}#other-key", fn)


@rule("C10.order-in-key", props=["C10", "C08", "C09", "C02", "C03", "C04", "C05", "C06", "C07"], min_instances=3, mutants=[
    ("the function generated for the same blades in another order is reused", ("operator_dict", "    def __getitem__(self, keys_in: Tuple[Tuple[int]]):\n        if keys_in not in self.operator_dict:\n            # Make symbolic multivectors for each set of keys and generate the code.\n            mvs = [self.algebra.multivector(",
                                                                                "    def __getitem__(self, keys_in: Tuple[Tuple[int]]):\n        if keys_in not in self.operator_dict:\n            for known_keys, known in self.operator_dict.items():\n                if tuple(frozenset(k) for k in known_keys) == tuple(frozenset(k) for k in keys_in):\n                    self.operator_dict[keys_in] = known\n                    return known\n            # Make symbolic multivectors for each set of keys and generate the code.\n            mvs = [self.algebra.multivector(")),
])
def order_in_key(ctx):
    """The storage ORDER of an operand's blades is part of the cache key: a generated function unpacks its operands by position, so the
    blades of a cached pattern in another order are another pattern - looked up after it on the same dictionary object they must be
    generated for themselves, not answered with the other order's function (every operator's values would land on other blades)."""
    from .c08 import run_getitem_sequence
    from ..astx import NoValue
    for q in GETITEMS:
        fn = ctx.func(q)
        c = f"{q}#same blades, other order"
        try:
            log = run_getitem_sequence(ctx.repo, q)
        except NoValue as exc:
            raise Unknown(c, str(exc), fn)
        if log.get("raised"):
            raise Unknown(c, f"the look-up sequence raises {log['raised']}", fn)       # reported by C10.guard-and-store
        if log["reordered"] == "ok":
            ctx.ok(c, fn, key=str(log["reordered_key"]))
        else:
            ctx.violation(c, f"after the pattern {log['key']!r} was generated, looking up {log['reordered_key']!r} (the same blades stored in another "
                             f"order) is {log['reordered']}: the function that unpacks its operands in the first order is applied to operands "
                             f"stored in the second, so coefficients are bound to the wrong blades", fn)


@fixture_for("C10.guard-and-store")
def _fx_guard(ctx):
    src = ("def __getitem__(self, keys_in):\n"
           "    keys_out, func = do_codegen(self.codegen, keys_in)\n"
           "    self.operator_dict[keys_in] = (keys_out, func)\n"
           "    return self.operator_dict[keys_in]\n")
    fn = ast.parse(src).body[0]
    check_guard_and_store(ctx, fn, "fixture.__getitem__")


# --------------------------------------------------------------------------- only-through-cache (who may call)
SINK_CALLERS = {
    # sink (simple callee name) -> functions allowed to contain a call to it, with one line of reason
    "compile": {"codegen.do_compile", "codegen.func_builder", "codegen.lambdify"},
    "exec": {"codegen.do_compile", "codegen.func_builder", "codegen.lambdify"},
    "cse": {"codegen.lambdify"},
    "lambdify": {"codegen.do_codegen", "codegen._lambdify_mv",
                 "matrixreps.expr_as_matrix"},   # sympy.lambdify of the matrix, not an operator application
    "func_builder": {"codegen.do_codegen"},
    "do_codegen": set(GETITEMS[:2]),
    "do_compile": {GETITEMS[2]},
    "_lambdify_mv": {"multivector.MultiVector._callable"},   # cached_property per multivector object
}
MEMO_DECORATORS = {"cached_property", "functools.cached_property", "cache", "functools.cache", "lru_cache",
                   "functools.lru_cache"}


@rule("C10.only-through-cache", props=["C10"], min_instances=10, mutants=[
    ("uncached shortcut for symbolic operands", ("operator_dict", "        keys_out, func = self[mv1.keys(), mv2.keys()]\n        issymbolic = (mv1.issymbolic or mv2.issymbolic)",
                                                "        issymbolic = (mv1.issymbolic or mv2.issymbolic)\n        keys_out, func = do_codegen(self.codegen, mv1, mv2) if issymbolic else self[mv1.keys(), mv2.keys()]")),
    ("_callable as plain property", ("multivector", "    @cached_property\n    def _callable(self):", "    @property\n    def _callable(self):")),
])
def only_through_cache(ctx):
    """Every call site of a compile sink lies in a function reachable only through the guarded cache regions (CG)."""
    repo = ctx.repo
    n = 0
    # an accepted caller that a class inherits (a template method in the base class) is accepted where it is defined
    owners = {k: private_helper_owners(repo, set(v) | {repo.defining_qual(x) for x in v if repo.has(x)}) for k, v in SINK_CALLERS.items()}
    for mname, qual, fn in repo.all_functions():
        for call in [c for c in walk_shallow(fn) if isinstance(c, ast.Call)]:
            cn = call_name(call)
            if cn is None:
                continue
            simple = cn.split(".")[-1]
            if simple not in SINK_CALLERS:
                continue
            if simple == "compile" and cn != "compile":
                continue  # re.compile etc.
            n += 1
            ctx.call_sites += 1
            c = f"{qual}#{simple}"
            if qual in owners[simple]:
                ctx.ok(c, call, module=mname, sink=simple)
            else:
                ctx.violation(c, f"{qual} calls the compile sink {cn}() outside the guarded cache regions: code is "
                                 f"generated/compiled on every call instead of once per key pattern", call, module=mname)
    # memoisation of the per-multivector callable
    fn = ctx.func("multivector.MultiVector._callable")
    decos = {un(d).split("(")[0] for d in fn.decorator_list}
    if decos & MEMO_DECORATORS:
        ctx.ok("multivector.MultiVector._callable#memoised", fn, decorators=sorted(decos))
    else:
        ctx.violation("multivector.MultiVector._callable#memoised",
                      "_callable lambdifies the multivector but is not memoised (cached_property): every call of a "
                      "symbolic multivector recompiles", fn)


# --------------------------------------------------------------------------- key provenance
LOOKUP_FUNCS = ["operator_dict.OperatorDict.__call__", "operator_dict.OperatorDict._call_binary",
                "operator_dict.UnaryOperatorDict.__call__", "operator_dict.Registry.__call__",
                "taperecorder.TapeRecorder.binary_operator", "taperecorder.TapeRecorder.unary_operator"]
BAD_KEY_SOURCES = ("values", "_values", "issymbolic", "shape", "free_symbols")
BAD_KEY_CALLS = ("type", "id", "len", "hash", "str", "repr")


def _key_expr_ok(node, comp_vars=()):
    """Grammar of admissible cache keys.  Returns (ok, offending sub-expression or None, recognised_bad)."""
    if isinstance(node, ast.Call):
        cn = call_name(node) or ""
        if cn.endswith(".keys") and not node.args:
            return True, None, False
        if cn == "tuple" and len(node.args) == 1:
            return _key_expr_ok(node.args[0], comp_vars)
        if cn.split(".")[-1] in BAD_KEY_CALLS:
            return False, node, True
        if cn.split(".")[-1] in BAD_KEY_SOURCES:
            return False, node, True
        return False, node, False
    if isinstance(node, (ast.Tuple, ast.List)):
        for e in node.elts:
            r = _key_expr_ok(e, comp_vars)
            if not r[0]:
                return r
        return True, None, False
    if isinstance(node, (ast.GeneratorExp, ast.ListComp)):
        if any(g.ifs for g in node.generators):
            return False, node, False
        return _key_expr_ok(node.elt, comp_vars)
    if isinstance(node, ast.Constant) and isinstance(node.value, int):
        return True, None, False
    if isinstance(node, ast.IfExp):
        # a choice between two admissible keys by the CLASS of an operand (tape vs plain number) is admissible
        t = node.test
        if isinstance(t, ast.UnaryOp) and isinstance(t.op, ast.Not):
            t = t.operand
        if not (isinstance(t, ast.Call) and call_name(t) == "isinstance"):
            return False, node.test, False
        for arm in (node.body, node.orelse):
            r = _key_expr_ok(arm, comp_vars)
            if not r[0]:
                return r
        return True, None, False
    if isinstance(node, ast.Attribute):
        if node.attr == "_keys":
            return True, None, False
        if node.attr in BAD_KEY_SOURCES:
            return False, node, True
        return False, node, False
    return False, node, False


@rule("C10.key-provenance", props=["C10"], min_instances=6, mutants=[
    ("key includes the value type", ("operator_dict", "keys_out, func = self[mv.keys()]", "keys_out, func = self[mv.keys(), type(mv.values()[0])]")),
    ("key includes issymbolic", ("operator_dict", "        keys_out, func = self[mv1.keys(), mv2.keys()]", "        keys_out, func = self[mv1.keys(), mv2.keys(), mv1.issymbolic]")),
], rewrites=[
    ("bind the key to a local first", ("operator_dict", "        keys_out, func = self[mv1.keys(), mv2.keys()]", "        the_key = (mv1.keys(), mv2.keys())\n        keys_out, func = self[the_key]")),
])
def key_provenance(ctx):
    """Every cache lookup key is built from operand key tuples only (DEP)."""
    for q in LOOKUP_FUNCS:
        fn = inline_self_calls(ctx.repo, q.rsplit(".", 1)[0], ctx.func(q))
        defs = single_assignments(fn)
        found = 0
        for n in walk_shallow(fn):
            if not (isinstance(n, ast.Subscript) and isinstance(n.ctx, ast.Load)):
                continue
            basev = inline(n.value, defs)
            base = un(basev)
            is_lookup = base == params(fn)[0] or (isinstance(basev, ast.Call) and (call_name(basev) or "") == "getattr"
                                                  and "algebra" in un(basev))
            if not is_lookup:
                continue
            found += 1
            ctx.call_sites += 1
            key = inline(n.slice, defs)
            if isinstance(key, ast.Name) and key.id not in defs:
                # bound more than once (e.g. also in an earlier branch that returns): the assignment that reaches this use
                stmt = n
                while not isinstance(stmt, ast.stmt) and getattr(stmt, "_parent", None) is not None:
                    stmt = stmt._parent
                host = next((s_ for s_ in ast.walk(fn) if isinstance(s_, ast.stmt) and any(x is n for x in ast.walk(s_))
                             and not any(isinstance(c_, ast.stmt) and any(x is n for x in ast.walk(c_)) for c_ in ast.iter_child_nodes(s_) if isinstance(c_, ast.stmt))), None)
                reach = reaching_assignment(fn, host, key.id) if host is not None else None
                if reach is not None:
                    key = inline(reach, defs)
            ok, bad, recognised = _key_expr_ok(key)
            c = f"{q}#lookup{found}"
            if ok:
                ctx.ok(c, n, key=un(key))
            elif recognised:
                ctx.violation(c, f"the cache key {un(key)!r} depends on {un(bad)!r}: the same key pattern with other "
                                 f"coefficient values/types misses the cache and regenerates code", n)
            else:
                raise Unknown(c, f"cache key {un(key)!r} contains {un(bad)!r}, which is not an operand key tuple", n)
        if found == 0:
            raise Unknown(q, "no cache lookup found", fn)


# --------------------------------------------------------------------------- no eviction
CACHES = ("operator_dict", "numspace")
EVICTING_METHODS = {"pop", "popitem", "clear", "__delitem__"}


def eviction_sites(repo):
    out = []
    for mname, mod in repo.modules.items():
        for n in ast.walk(mod.tree):
            if isinstance(n, ast.Delete):
                for t in n.targets:
                    if any(isinstance(x, ast.Attribute) and x.attr in CACHES for x in ast.walk(t)):
                        out.append((mname, n, f"del {un(t)}"))
            elif isinstance(n, ast.Call) and isinstance(n.func, ast.Attribute) and n.func.attr in EVICTING_METHODS:
                c = chain(n.func.value)
                if c and c.split(".")[-1] in CACHES:
                    out.append((mname, n, un(n)))
            elif isinstance(n, (ast.Assign, ast.AugAssign)):
                tg = n.targets if isinstance(n, ast.Assign) else [n.target]
                for t in tg:
                    if isinstance(t, ast.Attribute) and t.attr in CACHES:
                        out.append((mname, n, f"rebinding {un(t)}"))
    return out


@rule("C10.value-blind-operands", props=["C10", "C16"], min_instances=20, mutants=[
    ("a plain 0 on the left of + is replaced by the empty multivector", ("multivector", "    __radd__ = __add__ = add", "    __add__ = add\n\n    def __radd__(self, other):\n        if isinstance(other, (int, float)) and other == 0:\n            other = self.fromkeysvalues(self.algebra, keys=(), values=[])\n        return self.algebra.add(other, self)")),
    ("subtracting a plain 0 returns the multivector itself", ("multivector", "    def sub(self, other):\n        return self.algebra.sub(self, other)", "    def sub(self, other):\n        if isinstance(other, (int, float)) and not other:\n            return self\n        return self.algebra.sub(self, other)")),
])
def value_blind_operands(ctx):
    """The binary operator methods of MultiVector hand a foreign operand to the algebra's operator as it is: which
    key pattern is looked up (and hence whether code is generated) depends on the KIND of the operand only.  Every
    binary forwarding method is classified with a multivector operand and with the plain numbers 5, 0, 0.0, -1, 1; it
    must make the same single operator call with the same operand roles each time."""
    from ..surface import class_surface
    repo = ctx.repo
    for cq in ("multivector.MultiVector",):
        table = class_surface(repo, cq)
        anomalies = repo.__dict__.get("_surface_anomalies", {})
        cls = ctx.cls(cq)
        seen = set()
        for name, e in sorted(table.items()):
            q = f"{cq}.{name}"
            if q in anomalies:
                continue
            if e.kind == "op" and len(e.order) == 2:
                seen.add(name)
                ctx.ok(f"{q}#value-blind", e.node, operator=e.op, order=e.order)
        for q, why in sorted(anomalies.items()):
            if q.startswith(cq + "."):
                node = next((st for st in cls.body if isinstance(st, ast.FunctionDef) and st.name == q.split(".")[-1]), None)
                ctx.violation(f"{q}#value-blind", f"{q.split('.')[-1]}: {why}", node)


@rule("C10.no-eviction", props=["C10", "C09"], min_instances=1, mutants=[
    ("bounded cache", ("operator_dict", "            self.operator_dict[keys_in] = (keys_out, func)\n        return self.operator_dict[keys_in]\n\n    def __contains__",
                       "            if len(self.operator_dict) > 64:\n                self.operator_dict.clear()\n            self.operator_dict[keys_in] = (keys_out, func)\n        return self.operator_dict[keys_in]\n\n    def __contains__")),
])
def no_eviction(ctx):
    """Nothing deletes, clears or rebinds operator_dict / numspace; both are per-instance default_factory fields."""
    repo = ctx.repo
    sites = eviction_sites(repo)
    for mname, node, what in sites:
        fn = enclosing(node, (ast.FunctionDef,))
        ctx.violation(f"{mname}.{fn.name if fn else '<module>'}#evict", f"{what}: cache entries do not survive, so code "
                      f"for a known key pattern is generated again (and by-name lookups can dangle)", node, module=mname)
    # per-instance state
    n_ok = 0
    for qual, names in (("operator_dict.OperatorDict", ("operator_dict",)), ("algebra.Algebra", ("registry", "numspace"))):
        cls = ctx.cls(qual)
        for st in cls.body:
            if isinstance(st, ast.AnnAssign) and isinstance(st.target, ast.Name) and st.target.id in names:
                v = st.value
                if isinstance(v, ast.Call) and any(k.arg == "default_factory" for k in v.keywords):
                    ctx.ok(f"{qual}.{st.target.id}#per-instance", st, field=un(v)[:80])
                    n_ok += 1
                else:
                    ctx.violation(f"{qual}.{st.target.id}#per-instance",
                                  f"{st.target.id} is not a default_factory field: the cache object is shared between "
                                  f"instances", st)
    if not sites:
        ctx.ok("package#no-eviction", None, module="operator_dict", scanned_modules=len(repo.modules))
