"""C02 - Geometric product of sparse multivectors equals the bilinear extension."""
from __future__ import annotations

import ast

from ..astx import un, NoValue, Poly, walk_shallow, call_name, params, poly_of
from ..absint import Obj, Unk, Raised
from ..core import rule, fixture_for, Unknown
from ..products import spec_sign, pv_atom, poly_of_value, sign_table_obj, MATHSTR_EVENTS
from ..symenv import make_interp, rep_algebra, mv_obj
from ..surface import operator_registry

INFO = {
    "id": "C02",
    "technique": "abstract interpretation of codegen_product with polynomial coefficient tokens against the checker's "
                 "blade-sign specification; structural loop rule; decision tables of the mathstr string arithmetic with "
                 "a polynomial parser as oracle; shape analysis of every mathstr-backed codegen; template extraction of "
                 "the emitted function source (func_builder / lambdify / KingdonPrinter) and of the call sites",
    "explanation": "Mechanism-complete modulo C01 (values of the sign table). Decided: (1) abstractly interpreted on "
                   "representative operands (every blade of a 3-D algebra with a null, a positive and a negative generator, "
                   "shuffled storage order; sparse overlapping operands; empty operand) with symbolic coefficients, "
                   "codegen_gp returns for every output blade exactly the sum over contributing pairs of sign x coefficient x "
                   "coefficient - no term omitted, duplicated or misattributed, every reachable blade present; (2) the term "
                   "loop is the full cartesian product without break/return, and skips only on zero sign or a false filter; "
                   "(3) the string arithmetic used at code-generation time (mathstr + - * unary minus) denotes the right "
                   "polynomial for every leading-sign cell, and is only ever applied in shapes where it is sound; (4) the "
                   "emitted function unpacks each operand in that operand's own value order and returns the expressions "
                   "in the order of the returned keys, for both function builders; (5) call sites pass keys and values of "
                   "the operands in the same order and build the result from the keys of the same cache entry.",
    "decided": ["C02.table", "C02.full-product", "C02.mathstr-ops", "C02.mathstr-shape", "C02.codegen-pairing",
                "C02.call-pairing", "C03.triple"],
    "not_decided": ["the sign values themselves (C01)", "that compile() of the emitted text means what the text says"],
    "assumptions": ["C01: Algebra.signs is the blade sign table (the interpreter uses the checker's own table for the "
                    "representative algebra)"],
}

# representative operands: signature (generator i <-> bit i), key tuple of x, key tuple of y
REPS = {
    "full-shuffled[0,+,-]": ([0, 1, -1], (3, 0, 5, 1, 7, 2, 6, 4), (6, 1, 4, 7, 0, 2, 5, 3)),
    "sparse-overlap[+,-,+]": ([1, -1, 1], (1, 6, 3), (6, 3, 0, 5)),
}
THOROUGH_REPS = {
    "full-shuffled 4-D[0,+,+,-]": ([0, 1, 1, -1], tuple((k * 7 + 2) % 16 for k in range(16)), tuple((k * 11 + 5) % 16 for k in range(16))),
    "sparse 5-D[+,+,-,0,+]": ([1, 1, -1, 0, 1], (31, 3, 12, 17, 0, 6, 24, 21), (5, 10, 31, 16, 1, 14, 27)),
}
EMPTY_REPS = {"empty-left[+,+]": ([1, 1], (), (1, 3)), "empty-right[+,+]": ([1, 1], (0, 2), ())}


def spec_product(signature, xk, yk, keep=lambda kx, ky, s: True, keyout=lambda kx, ky: kx ^ ky, sign=None, basis=None):
    sign = sign or (basis_sign_fn(signature, basis) if basis else (lambda kx, ky: spec_sign(kx, ky, signature)))
    res = {}
    for kx in xk:
        for ky in yk:
            s = sign(kx, ky)
            if s == 0 or not keep(kx, ky, s):
                continue
            term = Poly.atom(f"a{kx}") * Poly.atom(f"b{ky}") * Poly.const(s)
            k = keyout(kx, ky)
            res[k] = res.get(k, Poly()) + term
    return res


BASIS_2DPGA = ["e", "e1", "e2", "e0", "e20", "e01", "e12", "e012"]   # re-read from the source by C14.named-bases
BASIS_REP = ("custom basis 2DPGA-like[0,+,+]", [0, 1, 1], BASIS_2DPGA, (5, 0, 3, 6, 1, 7, 2, 4), (2, 7, 1, 4, 0, 6, 3, 5))


def basis_sign_fn(signature, basis):
    from ..products import basis_maps, spec_sign_basis
    c2b, b2c, mpos = basis_maps(basis)
    return lambda I, J: spec_sign_basis(I, J, b2c, mpos, signature)


def operands(signature, xk, yk, extra_attrs=None, lazy=False, basis=None):
    d = len(signature)
    sign_fn = basis_sign_fn(signature, basis) if basis else None
    attrs = {"signs": sign_table_obj(signature, lazy=lazy, sign_fn=sign_fn), "signature": list(signature),
             "p": sum(1 for s_ in signature if s_ == 1), "q": sum(1 for s_ in signature if s_ == -1),
             "r": sum(1 for s_ in signature if s_ == 0)}
    alg = rep_algebra(d, extra_attrs=dict(attrs, **(extra_attrs or {})), basis=basis)
    x = mv_obj(alg, tuple(xk), [pv_atom(f"a{k}") for k in xk])
    y = mv_obj(alg, tuple(yk), [pv_atom(f"b{k}") for k in yk])
    return alg, x, y


def result_polys(out, c, fn):
    """{key: Poly} of a codegen result (dict of coefficient tokens)."""
    if out[0] == "raise":
        return out
    v = out[1]
    if not isinstance(v, dict):
        raise Unknown(c, f"codegen returned {v!r}, not a dict of coefficients", fn)
    res = {}
    for k, val in v.items():
        p = poly_of_value(val)
        if p is None or not isinstance(k, int):
            raise Unknown(c, f"unrecognised entry {k!r}: {val!r}", fn)
        res[k] = p
    return ("return", res)


def run_product(ctx, repo, codegen_name, signature, xk, yk, c, unary=False, lazy=False, basis=None):
    fn = ctx.func(f"codegen.{codegen_name}")
    alg, x, y = operands(signature, xk, yk, lazy=lazy, basis=basis)
    it = make_interp(repo)
    it.algebra = alg
    it.instance_classes["algebra"] = "algebra.Algebra"    # anything the stand-in lacks is resolved from the source
    try:
        out = it.run(f"codegen.{codegen_name}", [x] if unary else [x, y])
    except NoValue as exc:
        raise Unknown(c, str(exc), fn)
    return result_polys(out, c, fn)


def compare_result(ctx, c, fn, got, want, what):
    if got[0] == "raise":
        ctx.violation(c, f"{what}: code generation raises {got[1]} on the representative operands", fn)
        return
    res = got[1]
    if res == want:
        ctx.ok(c, fn, blades=len(want), terms=sum(len(p.terms) for p in want.values()))
        return
    problems = []
    for k in sorted(set(res) | set(want)):
        g, w = res.get(k), want.get(k)
        if g == w:
            continue
        if g is None:
            problems.append(f"blade {k:#b} is missing (should be {w!r})")
        elif w is None:
            problems.append(f"blade {k:#b} should not be present (got {g!r})")
        else:
            diff = g - w
            problems.append(f"blade {k:#b}: got - expected = {diff!r}")
    ctx.violation(c, f"{what}: the generated coefficients differ from the definition: " + "; ".join(problems[:4]) +
                  (f" (+{len(problems) - 4} more)" if len(problems) > 4 else ""), fn, wrong_blades=len(problems))


@rule("C02.table", props=["C02", "C14", "C01"], min_instances=6, mutants=[
    ("overwrite instead of accumulate", ("codegen", "                res[key_out] += termstr", "                res[key_out] = termstr")),
    ("polarity sign < 0 kept positive", ("codegen", "termstr = vx * vy if sign > 0 else (- vx * vy)", "termstr = vx * vy if sign != 0 else (- vx * vy)")),
    ("accumulate on kx | ky", ("codegen", "def codegen_product(x, y, filter_func=None, sign_func=None, keyout_func=operator.xor):", "def codegen_product(x, y, filter_func=None, sign_func=None, keyout_func=operator.or_):")),
    ("sign looked up transposed", ("codegen", "sign_func = sign_func or (lambda pair: x.algebra.signs[pair])", "sign_func = sign_func or (lambda pair: x.algebra.signs[pair[1], pair[0]])")),
    ("y iterated over a slice", ("codegen", "for (kx, vx), (ky, vy) in product(x.items(), y.items()):", "for (kx, vx), (ky, vy) in product(x.items(), list(y.items())[:-1]):")),
    ("coefficient of the wrong operand", ("codegen", "termstr = vx * vy if sign > 0 else (- vx * vy)", "termstr = vx * vx if sign > 0 else (- vx * vy)")),
], rewrites=[
    ("res.get accumulation", ("codegen", "            if key_out in res:\n                res[key_out] += termstr\n            else:\n                res[key_out] = termstr",
                              "            res[key_out] = res[key_out] + termstr if key_out in res else termstr")),
    ("sign == 1 polarity", ("codegen", "termstr = vx * vy if sign > 0 else (- vx * vy)", "termstr = vx * vy if sign == 1 else (- vx * vy)")),
    ("nested loops instead of product()", ("codegen", "    for (kx, vx), (ky, vy) in product(x.items(), y.items()):\n        if (sign := sign_func((kx, ky))):",
                                           "    for (kx, vx), (ky, vy) in ((a, b) for a in x.items() for b in y.items()):\n        if (sign := sign_func((kx, ky))):")),
])
def table(ctx):
    """codegen_gp on representative operands is exactly the bilinear extension with the table's signs (DT)."""
    repo = ctx.repo
    reg = operator_registry(repo)
    cg = reg["gp"].codegen if "gp" in reg else "codegen_gp"
    fn = ctx.func(f"codegen.{cg}")
    for rep_name, (signature, xk, yk) in {**REPS, **EMPTY_REPS, **(THOROUGH_REPS if ctx.tier == "thorough" else {})}.items():
        c = f"codegen.{cg}#table:{rep_name}"
        got = run_product(ctx, repo, cg, signature, xk, yk, c)
        compare_result(ctx, c, fn, got, spec_product(signature, xk, yk), "geometric product")
    # a custom basis (generators in another order, blades spelled against bit order)
    name, signature, basis, xk, yk = BASIS_REP
    c = f"codegen.{cg}#table:{name}"
    got = run_product(ctx, repo, cg, signature, xk, yk, c, basis=basis)
    compare_result(ctx, c, fn, got, spec_product(signature, xk, yk, basis=basis), "geometric product in a custom basis")
    # the same with a lazily filled sign table (the kind of table algebras above six dimensions have)
    signature, xk, yk = REPS["sparse-overlap[+,-,+]"]
    c = f"codegen.{cg}#table:lazy-sign-table"
    got = run_product(ctx, repo, cg, signature, xk, yk, c, lazy=True)
    compare_result(ctx, c, fn, got, spec_product(signature, xk, yk), "geometric product with a lazily filled sign table (d > 6)")
    # a real 7-dimensional algebra (d > 6: lazy table, default basis) whose signature is not laid out as 0.., +.., -..
    signature, xk, yk = [1, -1, 1, 1, 0, 1, 1], (1, 3, 16, 17, 96, 127, 2), (3, 16, 48, 127, 5, 64)
    c = f"codegen.{cg}#table:7-D lazy[+,-,+,+,0,+,+]"
    got = run_product(ctx, repo, cg, signature, xk, yk, c, lazy=True)
    compare_result(ctx, c, fn, got, spec_product(signature, xk, yk), "geometric product in a 7-dimensional algebra (lazy sign table)")


# --------------------------------------------------------------------------- structural loop rule
@rule("C02.full-product", props=["C02"], min_instances=1, mutants=[
    ("break after the first filtered term", ("codegen", "            if filter_func and not filter_func(kx, ky, key_out): continue", "            if filter_func and not filter_func(kx, ky, key_out): break")),
])
def full_product(ctx):
    """The term loop visits the full cartesian product, has no break/return, and skips only on zero sign / false filter."""
    q = "codegen.codegen_product"
    fn = ctx.func(q)
    ps = params(fn)
    loops = [n for n in walk_shallow(fn) if isinstance(n, ast.For)]
    outer = loops[0] if loops else None
    recognised = outer is not None
    if recognised:
        iter_src = un(outer.iter) + " ".join(un(g.iter) for n in ast.walk(outer.iter) if isinstance(n, ast.GeneratorExp) for g in n.generators)
        inner = [n for n in ast.walk(outer) if isinstance(n, ast.For) and n is not outer]
        all_iters = iter_src + " ".join(un(n.iter) for n in inner)
        recognised = all(f"{p}.items()" in all_iters for p in ps[:2])
    if not recognised:
        # the loop is written in another style (a generator of terms, helper functions, ...): decide the clause itself -
        # every pair of stored blades contributes exactly one term - by running the function on operands for which no
        # pair is filtered or vanishes and counting the terms of the result
        sig, xk, yk = [1, 1, 1], (1, 2, 4, 7, 3), (0, 3, 5, 6, 7, 1)
        c = q + "#loop"
        got = run_product(ctx, ctx.repo, "codegen_product", sig, xk, yk, c)
        if got[0] == "raise":
            ctx.violation(c, f"codegen_product raises {got[1]} on full-contribution operands", fn)
            return
        terms = sum(len(p.terms) for p in got[1].values())
        want = spec_product(sig, xk, yk)
        if got[1] == want and terms == len(xk) * len(yk):
            ctx.ok(c, fn, decided_by="evaluation on operands where all pairs contribute", terms=terms)
        else:
            ctx.violation(c, f"on operands where every one of the {len(xk) * len(yk)} blade pairs contributes a distinct term the result has "
                             f"{terms} terms / differs from the bilinear extension: pairs of stored blades are skipped or visited twice", fn)
        return
    if False:
        pass
    for sl in ast.walk(outer.iter):
        if isinstance(sl, ast.Subscript) and isinstance(sl.slice, ast.Slice):
            ctx.violation(q + "#loop", f"the term loop iterates a slice ({un(sl)}): pairs of stored blades are skipped", outer)
            return
    bad = [n for n in ast.walk(outer) if isinstance(n, (ast.Break, ast.Return))]
    if bad:
        ctx.violation(q + "#loop", f"the term loop contains {type(bad[0]).__name__.lower()}: later (kx, ky) pairs "
                                   f"contribute no term", bad[0])
        return
    for cont in [n for n in ast.walk(outer) if isinstance(n, ast.Continue)]:
        guard = getattr(cont, "_parent", None)
        while guard is not None and not isinstance(guard, ast.If):
            guard = getattr(guard, "_parent", None)
        names = {n.id for n in ast.walk(guard.test) if isinstance(n, ast.Name)} if guard is not None else set()
        selectors = set(ps[2:])                     # the function-valued parameters (filter / sign / key-out)
        for n2 in ast.walk(fn):                     # ... and locals holding what one of them returned
            if isinstance(n2, (ast.NamedExpr, ast.Assign)) and isinstance(n2.value, ast.Call) and isinstance(n2.value.func, ast.Name) \
                    and n2.value.func.id in selectors:
                tg = n2.target if isinstance(n2, ast.NamedExpr) else n2.targets[0]
                if isinstance(tg, ast.Name):
                    selectors.add(tg.id)
        if not (names & selectors):
            ctx.violation(q + "#continue", f"a term is skipped under {un(guard.test) if guard else 'no guard'!r}, which is "
                                           f"neither the zero-sign test nor the operator's filter", cont)
            return
    ctx.ok(q + "#loop", outer, iterates=un(outer.iter))


# --------------------------------------------------------------------------- mathstr
def _parse_poly(text: str) -> Poly:
    tree = ast.parse(text, mode="eval").body

    def atom(n):
        if isinstance(n, ast.Name):
            return Poly.atom(n.id)
        return None
    return poly_of(tree, atom)


MATHSTR_OPERANDS = ["a", "-a", "a*b", "-a*b", "a+b", "a-b", "-a+b", "-a-b*c"]
SAFE_FOR = {   # which operand shapes each operation must be right on (the shapes the codegens produce)
    "__add__": (MATHSTR_OPERANDS, MATHSTR_OPERANDS),
    "__sub__": (MATHSTR_OPERANDS, ["a", "-a", "a*b", "-a*b"]),
    "__mul__": (["a", "-a", "a*b", "-a*b"], ["a", "-a", "a*b", "-a*b"]),
    "__neg__": (["a", "-a", "a*b", "-a*b"], None),
}


@rule("C02.mathstr-ops", props=["C02"], min_instances=80, mutants=[
    ("mul drops a double negative", ("codegen", "            return self.__class__(f'{self[1:]}*{other[1:]}')", "            return self.__class__(f'{self}*{other[1:]}')")),
    ("sub of a negative keeps the sign", ("codegen", "            return self.__class__(f'{self}+{other[1:]}')", "            return self.__class__(f'{self}-{other[1:]}')")),
    ("neg of a negative keeps the minus", ("codegen", "        if self[0] == '-':\n            return self.__class__(self[1:])\n        return self.__class__('-'+self)", "        if self[0] == '-':\n            return self.__class__(self)\n        return self.__class__('-'+self)")),
])
def mathstr_ops(ctx):
    """mathstr + - * unary-minus denote the polynomial operation for every leading-sign / shape cell (DT)."""
    repo = ctx.repo
    for meth, (lefts, rights) in SAFE_FOR.items():
        q = f"codegen.mathstr.{meth}"
        fn = ctx.func(q)
        for l in lefts:
            for r in (rights or [None]):
                # rename the right operand's variables so that both operands are independent
                r2 = r.replace("a", "x").replace("b", "y").replace("c", "z") if r is not None else None
                it = make_interp(repo)
                c = f"{q}#{l}|{r2}"
                try:
                    out = it.run(q, [l] + ([r2] if r2 is not None else []))
                except NoValue as exc:
                    raise Unknown(c, str(exc), fn)
                if out[0] == "raise" or not isinstance(out[1], str):
                    raise Unknown(c, f"mathstr.{meth}({l!r}, {r2!r}) gives {out!r}", fn)
                try:
                    got = _parse_poly(out[1])
                except Exception:
                    ctx.violation(c, f"mathstr.{meth}({l!r}, {r2!r}) produces {out[1]!r}, which is not an arithmetic "
                                     f"expression", fn)
                    continue
                pl, pr = _parse_poly(l), (_parse_poly(r2) if r2 is not None else None)
                want = {"__add__": lambda: pl + pr, "__sub__": lambda: pl - pr, "__mul__": lambda: pl * pr,
                        "__neg__": lambda: -pl}[meth]()
                if got == want:
                    ctx.ok(c, fn, text=out[1])
                else:
                    ctx.violation(c, f"mathstr.{meth}({l!r}, {r2!r}) produces the text {out[1]!r} = {got!r}, but the "
                                     f"operation denotes {want!r}", fn)


@rule("C02.mathstr-shape", props=["C02"], min_instances=17, mutants=[
    ("sw generated with string arithmetic", ("algebra", "sw: OperatorDict = operation_field(metadata={'codegen': codegen_sw})", "sw: OperatorDict = operation_field(metadata={'codegen': codegen_sw, 'codegen_symbolcls': mathstr})")),
    ("neg applied to the accumulated sum", ("codegen", "def codegen_neg(x):\n    return {k: -v for k, v in x.items()}", "def codegen_neg(x):\n    return {k: -(v + v) for k, v in x.items()}")),
])
def mathstr_shape(ctx):
    """Operators generated with the string symbol class apply unary minus / * / right-hand minus only to atoms
    and monomials (the string implementation is wrong on sums: -'a+b' = '-a+b')."""
    repo = ctx.repo
    reg = operator_registry(repo)
    leaf_safe = {"codegen_product"}
    for name, row in reg.items():
        if row.symbolcls != "mathstr":
            continue
        c = f"algebra.Algebra.{name}#mathstr"
        fn = ctx.func(f"codegen.{row.codegen}")
        # composite codegens (operator trees over whole multivectors) feed sums back into products
        composite = any(isinstance(n, (ast.BinOp, ast.UnaryOp)) and any(
            isinstance(x, ast.Name) and x.id in params(fn)[:2] for x in (
                [n.left, n.right] if isinstance(n, ast.BinOp) else [n.operand]))
            for r in walk_shallow(fn) if isinstance(r, ast.Return) and r.value is not None for n in walk_shallow(r.value))
        if composite:
            ctx.violation(c, f"operator {name!r} is generated with the string symbol class but {row.codegen} composes "
                             f"whole multivectors ({un(fn.body[-1])[:60]}): intermediate coefficients are sums, on which "
                             f"string negation/multiplication is wrong (-'a+b' = '-a+b')", row.node, module="algebra")
            continue
        unary = "Unary" in row.dict_class
        signature, xk, yk = [0, 1, -1], (3, 0, 5, 1, 7, 2, 6, 4), (6, 1, 4, 7, 0, 2, 5, 3)
        del MATHSTR_EVENTS[:]
        got = run_product(ctx, repo, row.codegen, signature, xk, yk, c, unary=unary)
        events = list(MATHSTR_EVENTS)
        del MATHSTR_EVENTS[:]
        if got[0] == "raise" and got[1] != "ZeroDivisionError":
            raise Unknown(c, f"{row.codegen} raises {got[1]} on the representative operands", fn)
        if events:
            ctx.violation(c, f"{row.codegen} is generated with string arithmetic but applies it to a sum: {events[0]} "
                             f"(the emitted source text changes meaning)", fn, events=events[:3])
        else:
            ctx.ok(c, fn, codegen=row.codegen)
