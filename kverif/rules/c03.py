"""C03 - Outer, inner, contraction, scalar, (anti)commutator products match their definitions."""
from __future__ import annotations

import ast

from ..astx import un, NoValue, ceval
from ..absint import Obj
from ..core import rule, fixture_for, Unknown
from .. import bitauto
from ..bitauto import KX, KY, P, equivalent, int_equal, Unsupported
from ..products import resolve_product, filter_ir, keyout_ir, spec_sign, grade
from ..surface import operator_registry
from .c02 import run_product, REPS, THOROUGH_REPS, BASIS_REP, spec_product, compare_result

INFO = {
    "id": "C03",
    "technique": "bit-serial automaton decision of each term filter against its grade-selection predicate for ALL bit "
                 "widths; wrapper-chain resolution to codegen_product; decision table of the (anti)commutator filters; "
                 "abstract interpretation of each codegen with polynomial coefficient tokens against the checker's own "
                 "blade-sign specification",
    "explanation": "Decided for all inputs modulo C01 (content of the sign table) and C02 (bilinear skeleton): each of op, "
                   "ip, lc, rc, sp resolves through its wrappers to codegen_product with the default sign function and "
                   "key-out kx^ky, and its filter predicate is EQUIVALENT FOR EVERY BIT WIDTH to the grade-selection "
                   "predicate of the definition (op: kx&ky=0; ip: kx subset ky or ky subset kx; lc: kx subset ky; rc: ky "
                   "subset kx; sp: kx=ky) - an exact finite-state decision, not a bounded sweep; cp/acp keep exactly the "
                   "anticommuting/commuting blade pairs (decision table over the sign values). Additionally each codegen is "
                   "abstractly interpreted on representative operands (all 8 blades of a 3-D algebra with a null, a "
                   "positive and a negative generator, in shuffled storage order, symbolic coefficients) and must return "
                   "exactly the grade-selected bilinear extension.",
    "decided": ["C03.triple", "C03.filter-equiv", "C03.commutator", "C03.table"],
    "not_decided": ["values of the sign table (C01)"],
    "assumptions": ["M1: the product of blades e_I e_J has grade |I|+|J|-2|I&J|", "C01 (sign table), C02 (skeleton)"],
}

PRODUCTS = {
    # operator -> specification predicate over (kx, ky) as Python source in the BIT fragment
    "gp": "True",
    "op": "kx & ky == 0",
    "ip": "(kx & ky == kx) or (kx & ky == ky)",
    "lc": "kx & ky == kx",
    "rc": "kx & ky == ky",
    "sp": "kx == ky",
}


def _spec_ir(src):
    return bitauto.bool_ir(ast.parse(src, mode="eval").body, {"kx": KX, "ky": KY, "P": P})


def triple_of(ctx, repo, opname):
    reg = operator_registry(repo)
    if opname not in reg:
        raise Unknown(f"algebra.Algebra.{opname}", "operator missing from the registry")
    return reg[opname], resolve_product(repo, reg[opname].codegen)


@rule("C03.triple", props=["C03", "C02"], min_instances=8, mutants=[
    ("op called with swapped operands", ("codegen", "    filter_func = lambda kx, ky, k_out: k_out == kx + ky\n    return codegen_product(x, y, filter_func=filter_func)",
                                         "    filter_func = lambda kx, ky, k_out: k_out == kx + ky\n    return codegen_product(y, x, filter_func=filter_func)")),
    ("ip accumulates on kx | ky", ("codegen", "    filter_func = lambda kx, ky, k_out: k_out == diff_func(kx - ky)\n    return codegen_product(x, y, filter_func=filter_func)",
                                   "    filter_func = lambda kx, ky, k_out: k_out == diff_func(kx - ky)\n    return codegen_product(x, y, filter_func=filter_func, keyout_func=operator.or_)")),
])
def triple(ctx):
    """Each product operator reaches codegen_product with operands in order, default signs and key-out kx^ky."""
    repo = ctx.repo
    for opname in list(PRODUCTS) + ["cp", "acp"]:
        row, t = triple_of(ctx, repo, opname)
        c = f"codegen.{row.codegen}#triple"
        if t.operands != (0, 1):
            ctx.violation(c, f"{row.codegen} passes its operands to codegen_product as {t.operands} (positions of x, y): "
                             f"the product is computed with left and right exchanged", t.node, chain=t.chain)
            continue
        if t.sign is not None:
            ctx.violation(c, f"{row.codegen} overrides the sign function ({un(t.sign)[:60]}): the terms no longer carry "
                             f"the sign of the blade table", t.node)
            continue
        try:
            ok, n, wit = int_equal(keyout_ir(t), ("xor", KX, KY))
        except Unsupported as exc:
            raise Unknown(c, f"key-out function outside the decidable fragment: {exc}", t.node)
        if not ok:
            ctx.violation(c, f"{row.codegen} accumulates the term of (kx, ky) on blade {un(t.keyout)} instead of kx ^ ky; "
                             f"witness kx={wit['kx']:#b}, ky={wit['ky']:#b}", t.node, witness=wit)
        else:
            ctx.ok(c, t.node, chain=t.chain, keyout="kx ^ ky", states=n)


@rule("C03.filter-equiv", props=["C03"], min_instances=6, mutants=[
    ("op filter k_out == kx - ky", ("codegen", "filter_func = lambda kx, ky, k_out: k_out == kx + ky", "filter_func = lambda kx, ky, k_out: k_out == kx - ky")),
    ("lc and rc exchanged", [("codegen", "return codegen_ip(x, y, diff_func=lambda x: -x)", "return codegen_ip(x, y, diff_func=lambda x: +x)")]),
    ("ip without abs", ("codegen", "def codegen_ip(x, y, diff_func=abs):", "def codegen_ip(x, y, diff_func=lambda d: d):")),
    ("sp keeps k_out == kx", ("codegen", "return codegen_ip(x, y, diff_func=lambda x: 0)", "return codegen_ip(x, y, diff_func=lambda x: 1)")),
    ("ip filter with >=", ("codegen", "filter_func = lambda kx, ky, k_out: k_out == diff_func(kx - ky)", "filter_func = lambda kx, ky, k_out: k_out >= diff_func(kx - ky)")),
    ("ip filter compares integer objects by identity", ("codegen", "filter_func = lambda kx, ky, k_out: k_out == diff_func(kx - ky)", "filter_func = lambda kx, ky, k_out: k_out is diff_func(kx - ky)")),
], rewrites=[
    ("sp via a doubled difference (equivalent for every width)", ("codegen", "return codegen_ip(x, y, diff_func=lambda x: 0)", "return codegen_ip(x, y, diff_func=lambda x: x + x)")),
    ("op filter via |", ("codegen", "filter_func = lambda kx, ky, k_out: k_out == kx + ky", "filter_func = lambda kx, ky, k_out: k_out == kx | ky")),
    ("op filter via not (kx & ky)", ("codegen", "filter_func = lambda kx, ky, k_out: k_out == kx + ky", "filter_func = lambda kx, ky, k_out: not (kx & ky)")),
    ("ip filter commuted", ("codegen", "filter_func = lambda kx, ky, k_out: k_out == diff_func(kx - ky)", "filter_func = lambda kx, ky, k_out: diff_func(kx - ky) == (ky ^ kx)")),
])
def filter_equiv(ctx):
    """Every term filter is equivalent, for all bit widths, to the grade-selection predicate of its definition (BIT)."""
    repo = ctx.repo
    for opname, spec_src in PRODUCTS.items():
        row, t = triple_of(ctx, repo, opname)
        c = f"codegen.{row.codegen}#filter"
        try:
            f_ir = filter_ir(t)
            ok, n, wit = equivalent(f_ir, _spec_ir(spec_src))
        except Unsupported as exc:
            # not in the finite-state fragment (e.g. written with popcounts or as a method of a helper object): decide it
            # for ALL blade pairs up to width 5 by applying the filter function itself
            from ..products import bounded_filter_table
            try:
                table, _ = bounded_filter_table(repo, row.codegen, [1, -1, 1, 0, 1])
            except (ValueError, NoValue) as exc2:
                raise Unknown(c, f"filter outside the decidable fragment (+ - ^ & | abs, comparisons): {exc}; not evaluable either: {exc2}", t.node)
            spec = eval("lambda kx, ky: " + spec_src)
            bad = [(kx, ky) for (kx, ky), (keep, ko) in table.items() if keep != bool(spec(kx, ky)) or ko != kx ^ ky]
            if bad:
                kx, ky = bad[0]
                ctx.violation(c, f"the {opname} filter is not the grade selection '{spec_src}': for blades kx={kx:#b}, ky={ky:#b} the filter "
                                 f"says {table[kx, ky][0]} (key-out {table[kx, ky][1]:#b}) but the definition says {bool(spec(kx, ky))} "
                                 f"({len(bad)} of {len(table)} blade pairs of a 5-dimensional algebra differ)", t.node, spec=spec_src)
            else:
                ctx.ok(c, t.node, spec=spec_src, all_widths=False, decided_for="all 1024 blade pairs of a 5-dimensional algebra "
                       "(the filter is not in the finite-state fragment)")
            continue
        if ok:
            ctx.ok(c, t.node, predicate=un(t.filter) if t.filter is not None else "None", spec=spec_src,
                   automaton_states=n, all_widths=True)
        else:
            kx, ky = wit["kx"], wit["ky"]
            ctx.violation(c,
                          f"the {opname} filter {un(t.filter) if t.filter is not None else 'None'} is not the grade selection "
                          f"'{spec_src}': for blades kx={kx:#b}, ky={ky:#b} (width {wit['w']}) the filter says "
                          f"{wit['first']} but the definition says {wit['second']} - a term is "
                          f"{'kept that does not belong to' if wit['first'] else 'dropped from'} the {opname} product",
                          t.node, witness=wit, spec=spec_src)


def check_commutator(ctx, repo, opname, want_equal_signs):
    row, t = triple_of(ctx, repo, opname)
    c = f"codegen.{row.codegen}#filter"
    f = t.filter
    if not isinstance(f, ast.Lambda) or len(f.args.args) != 3:
        # not a lambda (a nested def with statements, a method of a helper object, ...): apply the function itself to
        # every blade pair of two representative algebras with their real sign tables
        from ..products import bounded_filter_table, spec_sign
        bad, total = [], 0
        for sig in ([1, -1, 1], [0, 1, -1, 1]):
            try:
                table, _ = bounded_filter_table(repo, row.codegen, sig)
            except (ValueError, NoValue) as exc:
                raise Unknown(c, f"filter is not a three-argument lambda and cannot be applied: {exc}", t.node)
            for (kx, ky), (keep, ko) in table.items():
                s1, s2 = spec_sign(kx, ky, sig), spec_sign(ky, kx, sig)
                if s1 == 0 or s2 == 0:
                    continue
                total += 1
                if keep != ((s1 == s2) == want_equal_signs) or ko != kx ^ ky:
                    bad.append((sig, kx, ky, keep))
        if bad:
            sig, kx, ky, keep = bad[0]
            ctx.violation(c, f"the {opname} filter {'keeps' if keep else 'drops'} the pair kx={kx:#b}, ky={ky:#b} in signature {sig}, whose blades "
                             f"{'commute' if spec_sign(kx, ky, sig) == spec_sign(ky, kx, sig) else 'anticommute'} ({len(bad)} of {total} pairs wrong)", t.node)
        else:
            ctx.ok(c, t.node, decided_for=f"all {total} blade pairs with non-zero product of two representative algebras")
        return
    p0, p1 = f.args.args[0].arg, f.args.args[1].arg
    table = {}
    for s1 in (1, -1):
        for s2 in (1, -1):
            def hook(node, env, s1=s1, s2=s2):
                if isinstance(node, ast.Subscript) and un(node.value).endswith("signs"):
                    idx = node.slice
                    if isinstance(idx, ast.Tuple) and len(idx.elts) == 2:
                        a, b = un(idx.elts[0]), un(idx.elts[1])
                        if (a, b) == (p0, p1):
                            return s1
                        if (a, b) == (p1, p0):
                            return s2
                    raise NoValue(f"sign-table index {un(node)} is not (kx, ky) or (ky, kx)")
                return NotImplemented
            try:
                table[(s1, s2)] = bool(ceval(f.body, {}, hook))
            except NoValue as exc:
                raise Unknown(c, f"commutator filter not evaluable on the sign cells: {exc}", t.node)
    want = {(s1, s2): ((s1 == s2) == want_equal_signs) for s1 in (1, -1) for s2 in (1, -1)}
    if table == want:
        ctx.ok(c, t.node, table={str(k): v for k, v in table.items()}, predicate=un(f))
    else:
        ctx.violation(c, f"the {opname} filter {un(f)} keeps the blade pairs with (sign(kx,ky), sign(ky,kx)) in "
                         f"{[k for k, v in table.items() if v]}, the definition "
                         f"{'(ab+ba)/2' if want_equal_signs else '(ab-ba)/2'} keeps {[k for k, v in want.items() if v]}",
                      t.node, table={str(k): v for k, v in table.items()})


@rule("C03.commutator", props=["C03"], min_instances=2, mutants=[
    ("cp uses a sum", ("codegen", "filter_func = lambda kx, ky, k_out: (algebra.signs[kx, ky] - algebra.signs[ky, kx])", "filter_func = lambda kx, ky, k_out: (algebra.signs[kx, ky] + algebra.signs[ky, kx])")),
    ("acp compares a pair with itself", ("codegen", "filter_func = lambda kx, ky, k_out: (algebra.signs[kx, ky] + algebra.signs[ky, kx])", "filter_func = lambda kx, ky, k_out: (algebra.signs[kx, ky] + algebra.signs[kx, ky])")),
], rewrites=[
    ("cp with the subtraction swapped", ("codegen", "filter_func = lambda kx, ky, k_out: (algebra.signs[kx, ky] - algebra.signs[ky, kx])", "filter_func = lambda kx, ky, k_out: (algebra.signs[ky, kx] - algebra.signs[kx, ky])")),
    ("acp by equality", ("codegen", "filter_func = lambda kx, ky, k_out: (algebra.signs[kx, ky] + algebra.signs[ky, kx])", "filter_func = lambda kx, ky, k_out: algebra.signs[kx, ky] == algebra.signs[ky, kx]")),
])
def commutator(ctx):
    """cp keeps exactly the anticommuting blade pairs, acp exactly the commuting ones (DT on the sign values)."""
    check_commutator(ctx, ctx.repo, "cp", False)
    check_commutator(ctx, ctx.repo, "acp", True)


GRADE_SELECT = {
    "op": lambda kx, ky: grade(kx ^ ky) == grade(kx) + grade(ky),
    "ip": lambda kx, ky: grade(kx ^ ky) == abs(grade(kx) - grade(ky)),
    "lc": lambda kx, ky: grade(kx ^ ky) == grade(ky) - grade(kx),
    "rc": lambda kx, ky: grade(kx ^ ky) == grade(kx) - grade(ky),
    "sp": lambda kx, ky: grade(kx ^ ky) == 0,
}


@rule("C03.table", props=["C03", "C14", "C01", "C07"], min_instances=63, mutants=[
    ("cp filter reads the transposed sign with dict.get (bypasses the lazy table)", ("codegen", "filter_func = lambda kx, ky, k_out: (algebra.signs[kx, ky] - algebra.signs[ky, kx])", "filter_func = lambda kx, ky, k_out: algebra.signs[kx, ky] != algebra.signs.get((ky, kx))")),
    ("cp halves nothing but drops the sign", ("codegen", "            termstr = vx * vy if sign > 0 else (- vx * vy)", "            termstr = vx * vy if sign > 0 or filter_func else (- vx * vy)")),
])
def table(ctx):
    """Abstract interpretation of each product codegen on representative operands equals the grade-selected /
    (anti)commuting part of the bilinear extension (DT with polynomial coefficient tokens)."""
    repo = ctx.repo
    reg = operator_registry(repo)
    for opname in ("op", "ip", "lc", "rc", "sp", "cp", "acp"):
        row = reg[opname]
        reps = {k: v + (None, False) for k, v in {**REPS, **(THOROUGH_REPS if ctx.tier == "thorough" else {})}.items()}
        reps[BASIS_REP[0]] = (BASIS_REP[1], BASIS_REP[3], BASIS_REP[4], BASIS_REP[2], False)
        reps["lazily filled sign table (d > 6)"] = REPS["sparse-overlap[+,-,+]"] + (None, True)
        # operands of different grade profiles: the top grade of one exceeds the top grade of the other
        reps["rotor x vector[+,+,-]"] = ([1, 1, -1], (0, 3, 5), (1, 2, 4), None, False)
        reps["vector x rotor[+,+,-]"] = ([1, 1, -1], (4, 1), (6, 0, 3), None, False)
        # an operand stored as a pure scalar (key pattern (0,)) on either side
        reps["scalar x mixed[+,+,-]"] = ([1, 1, -1], (0,), (1, 3, 6, 0), None, False)
        reps["mixed x scalar[+,+,-]"] = ([1, 1, -1], (2, 5, 7), (0,), None, False)
        # a real 7-dimensional algebra (d > 6), signature not laid out 0.., +.., -..
        reps["7-D lazy[+,-,+,+,0,+,+]"] = ([1, -1, 1, 1, 0, 1, 1], (1, 3, 16, 17, 96, 127, 2), (3, 16, 48, 127, 5, 64, 1), None, True)
        for rep_name, (signature, xk, yk, basis, lazy) in reps.items():
            c = f"codegen.{row.codegen}#table:{rep_name}"
            got = run_product(ctx, repo, row.codegen, signature, xk, yk, c, basis=basis, lazy=lazy)
            from .c02 import basis_sign_fn
            sgn = basis_sign_fn(signature, basis) if basis else (lambda a, b, sig=signature: spec_sign(a, b, sig))
            if opname in GRADE_SELECT:
                keep = lambda kx, ky, s, f=GRADE_SELECT[opname]: f(kx, ky)
            elif opname == "cp":
                keep = lambda kx, ky, s, sgn=sgn: s != sgn(ky, kx)
            else:
                keep = lambda kx, ky, s, sgn=sgn: s == sgn(ky, kx)
            want = spec_product(signature, xk, yk, keep, basis=basis)
            compare_result(ctx, c, ctx.func(f"codegen.{row.codegen}"), got, want, opname)
