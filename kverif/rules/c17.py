"""C17 - The built-in polynomial arithmetic is exact rational-function arithmetic."""
from __future__ import annotations

import ast
from fractions import Fraction

from ..astx import un, NoValue, Poly
from ..absint import Obj, Unk, PyFunc, ClassRef, Raised
from ..core import rule, fixture_for, Unknown
from ..symenv import make_interp

INFO = {
    "id": "C17",
    "technique": "path-wise rational-function identities: abstract interpretation of RationalPolynomial's operators over "
                 "abstract polynomials (commutative normal forms), every comparison decided by a guard oracle that "
                 "enumerates the cells, each return checked by cross-multiplication modulo the cell's assumed equalities; "
                 "decision tables of the zero tests; abstract interpretation of Polynomial's merge/product on "
                 "representative term lists covering every transition of the merge loop",
    "explanation": "Clause-level. Decided: for every path through RationalPolynomial.__add__, __sub__, __mul__, "
                   "__truediv__, __rtruediv__, __neg__, __rsub__, inv and __pow__ (general branch, equal-denominator "
                   "shortcut, early returns for operands equal to 0 or 1, -> 0 and -> 1 shortcuts) the returned "
                   "numerator/denominator denote the stated rational function of na/da and nb/db - as a polynomial "
                   "identity over arbitrary polynomials, modulo the equalities the path assumed; the single-monomial "
                   "common-factor branch removes a factor from both sides (representative monomials); Polynomial + - * "
                   "neg and scalar forms on representative term lists that exercise every transition of the merge loop "
                   "(less / greater / equal with cancellation / exhausted side) return the sorted, duplicate-free, "
                   "zero-free term list of the right polynomial; ==0, ==1 and truthiness agree with the representation "
                   "invariant (zero iff args in {[], [[0]]}) and == between different polynomials is False. NOT decided: "
                   "that compare is a total order for arbitrary monomials (only the representative merges), tosympy.",
    "decided": ["C17.rational-identities", "C17.monomial-cancel", "C17.polynomial-arith", "C17.operands-intact", "C17.sequences", "C17.zero-test"],
    "not_decided": ["loop invariants of Polynomial for arbitrary term lists (sortedness is checked on representatives only)",
                    "tosympy / sympy evaluation", "float coefficient rounding"],
    "assumptions": ["term lists given to the constructor are sorted and duplicate free (the invariant the operators keep)"],
}

P, RP = "polynomial.Polynomial", "polynomial.RationalPolynomial"


# --------------------------------------------------------------------------- concrete polynomials
def poly_from_args(args) -> Poly:
    out = Poly()
    for mono in args:
        term = Poly.const(Fraction(mono[0]))
        for v in mono[1:]:
            if isinstance(v, str):
                term = term * Poly.atom(v)
            else:
                term = term * Poly.const(Fraction(v))
        out = out + term
    return out


def as_poly(v):
    """Poly denoted by a Polynomial stand-in (abstract or concrete), a number, or None."""
    if isinstance(v, Obj) and v.kind == "Polynomial":
        if "poly" in v.attrs:
            return v.attrs["poly"]
        a = v.attrs.get("args")
        if isinstance(a, (list, tuple)):
            try:
                return poly_from_args(a)
            except Exception:
                return None
        return None
    if isinstance(v, (int, Fraction)) and not isinstance(v, bool):
        return Poly.const(v)
    if isinstance(v, float):
        return Poly.const(Fraction(v).limit_denominator(10 ** 9))
    return None


def malformed_terms(v):
    """A concrete term list with a factor that is neither a number nor a variable name (e.g. None), or None."""
    if isinstance(v, Obj) and v.kind == "RationalPolynomial":
        return malformed_terms(v.attrs.get("numer")) or malformed_terms(v.attrs.get("denom"))
    if isinstance(v, Obj) and v.kind == "Polynomial" and "poly" not in v.attrs:
        a = v.attrs.get("args")
        if isinstance(a, (list, tuple)):
            for mono in a:
                if not isinstance(mono, (list, tuple)):
                    continue
                for f in mono:
                    if f is None or isinstance(f, (bool, list, tuple, dict)):
                        return f"term {list(mono)!r} has the factor {f!r}"
    return None


def as_rational(v):
    if isinstance(v, Obj) and v.kind == "RationalPolynomial":
        n, d = as_poly(v.attrs.get("numer")), as_poly(v.attrs.get("denom"))
        if n is None or d is None:
            return None
        return n, d
    p = as_poly(v)
    if p is not None:
        return p, Poly.const(1)
    return None


def well_formed(args):
    """Sorted by kingdon's monomial order, no duplicate monomials, no zero coefficients (unless the lone [[0]])."""
    if args == [[0]] or args == []:
        return True
    monos = [tuple(m[1:]) for m in args]
    if len(set(monos)) != len(monos):
        return False
    if any(m[0] == 0 for m in args):
        return False
    if any(any(not isinstance(v, str) for v in m[1:]) for m in args):
        return False
    if any(list(m[1:]) != sorted(m[1:]) for m in args):
        return False
    if monos != sorted(monos):      # kingdon's monomial order: variables left to right, a proper prefix first
        return False
    return True


# --------------------------------------------------------------------------- guard oracle + abstract polynomials
class Oracle:
    def __init__(self, script):
        self.script = list(script)
        self.used = []
        self.atoms = {}

    def decide(self, key, describe):
        if key in self.atoms:
            return self.atoms[key][0]
        i = len(self.used)
        val = self.script[i] if i < len(self.script) else True
        self.used.append(val)
        self.atoms[key] = (val, describe)
        return val


def abs_poly(poly: Poly, oracle: Oracle) -> Obj:
    o = Obj("Polynomial", {"poly": poly, "fmt": f"<{poly!r}>"})

    def lift(x):
        if isinstance(x, Obj) and x.kind == "RationalPolynomial":
            return None
        return as_poly(x)

    def binop(op, other, refl):
        q = lift(other)
        if q is None:
            return NotImplemented
        a, b = (q, poly) if refl else (poly, q)
        if op == "Add":
            return abs_poly(a + b, oracle)
        if op == "Sub":
            return abs_poly(a - b, oracle)
        if op == "Mult":
            return abs_poly(a * b, oracle)
        if op == "Div" and not b.atoms() and not b.is_zero():
            return abs_poly(a * Poly.const(1 / list(b.terms.values())[0]), oracle)
        return Unk("poly arith")

    def eq(q):
        diff = poly - q
        if diff.is_zero():
            return True
        if not diff.atoms():
            return False
        return False   # the atoms are algebraically independent indeterminates: distinct normal forms differ

    def compare(op, other):
        q = lift(other)
        if q is None:
            if isinstance(other, Obj) and other.kind == "RationalPolynomial":
                return NotImplemented
            return False if op == "Eq" else True if op == "NotEq" else Unk("compare")
        if op == "Eq":
            return eq(q)
        if op == "NotEq":
            return not eq(q)
        return Unk("poly order")
    o.methods.update({"binop": binop, "compare": compare,
                      "unop": lambda op: abs_poly(-poly, oracle) if op == "USub" else o,
                      "truth": lambda: not eq(Poly()),
                      "__bool__": lambda: not eq(Poly()),
                      "__len__": lambda: len_token(poly, oracle)})
    o.getitem = lambda idx: Unk("term of an abstract polynomial")
    return o


def len_token(poly: Poly, oracle: Oracle) -> Obj:
    t = Obj("len", {"poly": poly, "fmt": f"len<{poly!r}>"})

    def compare(op, other):
        if isinstance(other, Obj) and other.kind == "len":
            if other.attrs["poly"] == poly:
                same = True
            else:
                same = oracle.decide(("leneq",) + tuple(sorted((repr(poly), repr(other.attrs["poly"])))), ("leneq", poly, other.attrs["poly"]))
            return same if op == "Eq" else (not same) if op == "NotEq" else Unk("len order")
        if isinstance(other, int):
            if not poly.atoms():
                n = 0 if poly.is_zero() else 1
                res = {"Eq": n == other, "NotEq": n != other, "Gt": n > other, "Lt": n < other, "GtE": n >= other, "LtE": n <= other}
                return res.get(op, Unk("len"))
            if op in ("Eq", "NotEq") and other == 1:
                v = oracle.decide(("len1", repr(poly)), ("len1", poly))
                return v if op == "Eq" else not v
            if op == "Gt" and other == 1:
                return not oracle.decide(("len1", repr(poly)), ("len1", poly))
        return Unk("len compare")
    t.methods["compare"] = compare
    return t


# --------------------------------------------------------------------------- polynomial division by one generator
def _lead(p: Poly):
    return max(p.terms.items(), key=lambda kv: (sum(e for _, e in kv[0]), kv[0]))


def reduce_mod(D: Poly, gens):
    """Remainder of D after repeated reduction by the generators (lead-term division; enough for the
    single-generator ideals that occur here)."""
    gens = [g for g in gens if not g.is_zero()]
    rem = Poly()
    work = D
    guard = 0
    while not work.is_zero() and guard < 500:
        guard += 1
        (lm, lc) = _lead(work)
        reduced = False
        for g in gens:
            (gm, gc) = _lead(g)
            gd = dict(gm)
            ld = dict(lm)
            if all(ld.get(a, 0) >= e for a, e in gd.items()):
                q = {a: ld.get(a, 0) - gd.get(a, 0) for a in ld}
                mono = tuple(sorted((a, e) for a, e in q.items() if e))
                factor = Poly({mono: lc / gc})
                work = work - factor * g
                reduced = True
                break
        if not reduced:
            rem = rem + Poly({lm: lc})
            work = work - Poly({lm: lc})
    return rem + work


def substitute_equalities(eqs):
    """Turn assumed equalities p == 0 whose p is `x - q` with a lone variable x into substitutions."""
    subs = {}
    rest = []
    for g in eqs:
        done = False
        for mono, c in g.terms.items():
            if len(mono) == 1 and mono[0][1] == 1 and c in (1, -1):
                x = mono[0][0]
                others = g - Poly({mono: c})
                if x not in others.atoms() and x not in subs:
                    subs[x] = others * Poly.const(-1 / c)
                    done = True
                    break
        if not done:
            rest.append(g)
    return subs, rest


# --------------------------------------------------------------------------- rational identities
def rational_cases():
    na, da, nb, db = (Poly.atom(x) for x in ("na", "da", "nb", "db"))
    c = Fraction(5)
    C = Poly.const(c)
    return {
        "__add__": (("rp",), lambda: (na * db + nb * da, da * db)),
        "__sub__": (("rp",), lambda: (na * db - nb * da, da * db)),
        "__mul__": (("rp",), lambda: (na * nb, da * db)),
        "__truediv__": (("rp",), lambda: (na * db, da * nb)),
        "__neg__": ((), lambda: (-na, da)),
        "inv": ((), lambda: (da, na)),
        "__radd__": (("num",), lambda: (na + C * da, da)),
        "__rsub__": (("num",), lambda: (C * da - na, da)),
        "__rmul__": (("num",), lambda: (C * na, da)),
        "__rtruediv__": (("num",), lambda: (C * da, na)),
        "__truediv__#number": (("num",), lambda: (na, C * da)),
        "__mul__#number": (("num",), lambda: (C * na, da)),
        "__add__#number": (("num",), lambda: (na + C * da, da)),
        "__pow__#3": (("int3",), lambda: (na * na * na, da * da * da)),
        "__pow__#2": (("int2",), lambda: (na * na, da * da)),
        "__pow__#1": (("int1",), lambda: (na, da)),
        "__pow__#-2": (("int-2",), lambda: (da * da, na * na)),
        "__pow__#-1": (("int-1",), lambda: (da, na)),
    }


def instantiations():
    na, da, nb, db = (Poly.atom(x) for x in ("na", "da", "nb", "db"))
    one, zero = Poly.const(1), Poly()
    return {
        "generic": {},
        "equal denominators": {"db": da},
        "other = 0": {"nb": zero},
        "self = 0": {"na": zero},
        "other = 1": {"nb": one, "db": one},
        "self = 1": {"na": one, "da": one},
        "sum = 0": {"nb": -na, "db": da},
        "sum = 1": {"nb": da - na, "db": da},
        "product = 1": {"nb": da, "db": na},
        "quotient = 1": {"nb": na, "db": da},
        "polynomial operands (denominators 1)": {"da": one, "db": one},
    }


def run_rational(repo, meth, argkinds, script, inst=None):
    oracle = Oracle(script)
    it = make_interp(repo)
    it.instance_classes.update({"Polynomial": P, "RationalPolynomial": RP})
    inst = inst or {}
    na, da, nb, db = (abs_poly(inst.get(x, Poly.atom(x)), oracle) for x in ("na", "da", "nb", "db"))
    me = it.call(ClassRef("RationalPolynomial"), [na, da], {})
    args = []
    for k in argkinds:
        if k == "rp":
            args.append(it.call(ClassRef("RationalPolynomial"), [nb, db], {}))
        elif k == "num":
            args.append(5)
        elif k.startswith("int"):
            args.append(int(k[3:]))
    out = _invoke(it, meth, me, args)
    return out, oracle


BINOPS = {"__add__": ast.Add(), "__sub__": ast.Sub(), "__mul__": ast.Mult(), "__truediv__": ast.Div(), "__pow__": ast.Pow()}


def _invoke(it, label, me, args):
    meth = label.split("#")[0]
    try:
        if meth.startswith("__r") and meth != "__rshift__":
            fwd = "__" + meth[3:]
            return ("return", it.binop(BINOPS[fwd], args[0], me))
        if meth in BINOPS and args:
            if meth == "__pow__":
                fn = it._class_def("RationalPolynomial", "__pow__")
                return ("return", it.call_function(fn, [me, args[0]], {}, {}, "polynomial"))
            return ("return", it.binop(BINOPS[meth], me, args[0]))
        fn = it._class_def("RationalPolynomial", meth)
        return ("return", it.call_function(fn, [me] + args, {}, {}, "polynomial"))
    except Raised as r:
        return ("raise", r.name)


@rule("C17.rational-identities", props=["C17", "C02", "C03", "C04", "C05", "C06", "C07", "C11", "C16", "C13", "C08", "C12"], min_instances=30, mutants=[
    ("sum numerator na*da + nb*db", ("polynomial", "            nn, nd = na * db + nb * da, da * db", "            nn, nd = na * da + nb * db, da * db")),
    ("equal-denominator shortcut keeps the product denominator", ("polynomial", "            nn = na + nb\n            nd = da", "            nn = na + nb\n            nd = da * db")),
    ("product shortcut returns self when other == 0", ("polynomial", "        if other == 0: return other\n        if other == 1: return self", "        if other == 0: return self\n        if other == 1: return self")),
    ("inverse keeps the fraction", ("polynomial", "        return self.__class__(self.denom, self.numer)", "        return self.__class__(self.numer, self.denom)")),
    ("negation negates the denominator too", ("polynomial", "        return self.__class__(-self.numer, self.denom)", "        return self.__class__(-self.numer, -self.denom)")),
    ("rtruediv multiplies the numerator", ("polynomial", "        return self.__class__(other * self.denom, self.numer)", "        return self.__class__(other * self.numer, self.denom)")),
    ("negative power is not inverted", ("polynomial", "            *_, last = power_supply(self, -power)\n            return 1 / last", "            *_, last = power_supply(self, -power)\n            return last")),
    ("sum shortcut to 1 compares only lengths", ("polynomial", "        if len(nn) == len(nd) and nn == nd: return RationalPolynomial([[1]])\n        return RationalPolynomial(nn, nd)", "        if len(nn) == len(nd): return RationalPolynomial([[1]])\n        return RationalPolynomial(nn, nd)")),
], rewrites=[
    ("sum numerator commuted", ("polynomial", "            nn, nd = na * db + nb * da, da * db", "            nn, nd = nb * da + db * na, db * da")),
])
def rational_identities(ctx):
    """Every return of RationalPolynomial's operators denotes the stated rational function, path by path (RAT + DT)."""
    repo = ctx.repo
    for label, (argkinds, spec) in rational_cases().items():
        meth = label.split("#")[0]
        q = f"{RP}.{meth}"
        fn = ctx.func(q) if ctx.repo.has(q) and isinstance(ctx.repo.lookup(q), ast.FunctionDef) else ctx.cls(RP)
        Ns0, Ds0 = spec()
        for iname, inst in instantiations().items():
            if not argkinds or argkinds[0] != "rp":
                if any(k in inst for k in ("nb", "db")):
                    continue
            Ns, Ds = Ns0.subs(inst), Ds0.subs(inst)
            if Ds.is_zero():
                continue   # the stated value is undefined here (division by zero)
            script = []
            n_paths = 0
            skipped = 0
            while True:
                n_paths += 1
                if n_paths > 64:
                    raise Unknown(f"{q}#{label}", "more than 64 guard cells", fn)
                c = f"{q}#{label}|{iname}|{n_paths}"
                aborted = None
                try:
                    out, oracle = run_rational(repo, label, argkinds, script, inst)
                except NoValue as exc:
                    aborted = str(exc)
                    oracle = None
                if aborted is None:
                    cell = iname + "".join(f", {'' if v else 'not '}{d[0]}({', '.join(repr(x) for x in d[1:])})"
                                           for k, (v, d) in oracle.atoms.items())
                    if out[0] == "raise":
                        ctx.violation(c, f"{label} raises {out[1]} in the cell [{cell}]", fn)
                    else:
                        r = as_rational(out[1])
                        if r is None:
                            raise Unknown(c, f"returns {out[1]!r} in the cell [{cell}]", fn)
                        Nr, Dr = r
                        D = Nr * Ds - Ns * Dr
                        if D.is_zero() and not Dr.is_zero():
                            ctx.ok(c, fn, cell=cell, result=f"({Nr!r}) / ({Dr!r})")
                        else:
                            ctx.violation(c, f"RationalPolynomial.{label} in the cell [{cell}] returns ({Nr!r}) / ({Dr!r}), "
                                             f"which is not ({Ns!r}) / ({Ds!r}) (cross-multiplied difference {D!r})", fn, cell=cell)
                    used = oracle.used
                else:
                    if "abstract polynomial" in aborted or "unknown value" in aborted or "unknown iterable" in aborted:
                        skipped += 1
                        used = _last_oracle_used(repo, label, argkinds, script, inst)
                    else:
                        raise Unknown(c, aborted, fn)
                used = list(used)
                while used and used[-1] is False:
                    used.pop()
                if not used:
                    break
                used[-1] = False
                script = used
            if skipped:
                ctx.note(f"{q}#{label}|{iname}", f"{skipped} cell(s) enter the single-monomial common-factor branch "
                                                 f"(decided on representative monomials by C17.monomial-cancel)", fn)


def _last_oracle_used(repo, label, argkinds, script, inst=None):
    """Re-run to recover the decisions taken before the abort."""
    oracle = Oracle(script)
    it = make_interp(repo)
    it.instance_classes.update({"Polynomial": P, "RationalPolynomial": RP})
    inst = inst or {}
    na, da, nb, db = (abs_poly(inst.get(x, Poly.atom(x)), oracle) for x in ("na", "da", "nb", "db"))
    me = it.call(ClassRef("RationalPolynomial"), [na, da], {})
    args = []
    for k in argkinds:
        if k == "rp":
            args.append(it.call(ClassRef("RationalPolynomial"), [nb, db], {}))
        elif k == "num":
            args.append(5)
        elif k.startswith("int"):
            args.append(int(k[3:]))
    try:
        _invoke(it, label, me, args)
    except NoValue:
        pass
    return oracle.used


# --------------------------------------------------------------------------- concrete representatives
def mk(it, kind, *a):
    return it.call(ClassRef(kind), list(a), {})


def new_interp(repo):
    it = make_interp(repo)
    it.instance_classes.update({"Polynomial": P, "RationalPolynomial": RP})
    return it


MONO_CASES = [
    # numerator monomial, denominator monomial of self; of other
    ("common factor in the middle", ([[6, "a", "b"]], [[1, "c"]]), ([[1, "c", "d"]], [[3, "b"]])),
    ("no common factor", ([[2, "a"]], [[1, "b"]]), ([[3, "c"]], [[1, "d"]])),
    ("everything cancels but the coefficient", ([[4, "a", "b"]], [[1, "c"]]), ([[1, "c"]], [[2, "a", "b"]])),
    ("common factor at the ends", ([[1, "a", "z"]], [[1, "b"]]), ([[1, "b", "c"]], [[1, "a", "y"]])),
    ("repeated variable", ([[1, "a", "a"]], [[1, "b"]]), ([[1, "b"]], [[1, "a"]])),
]


@rule("C17.monomial-cancel", props=["C17", "C02", "C03", "C04", "C05", "C06", "C07", "C08", "C11", "C12", "C13"], min_instances=5, mutants=[
    ("cancelled factor skipped on the numerator only", ("polynomial", "                if f1 == f2:\n                    p1 += 1; p2 += 1; continue;", "                if f1 == f2:\n                    p1 += 1; continue;")),
    ("leftover denominator factors appended to the numerator", ("polynomial", "                    nnd.append(f2); p2 += 1;", "                    nnn.append(f2); p2 += 1;")),
    ("the numerator's factor kept in the denominator", ("polynomial", "                    nnd.append(f2); p2 += 1;", "                    nnd.append(f1); p2 += 1;")),
])
def monomial_cancel(ctx):
    """Product of single-monomial fractions: the common-factor loop removes a factor from both sides only."""
    repo = ctx.repo
    q = f"{RP}.__mul__"
    fn = ctx.func(q)
    for label, (n1, d1), (n2, d2) in MONO_CASES:
        c = f"{q}#{label}"
        it = new_interp(repo)
        try:
            a = mk(it, "RationalPolynomial", [list(m) for m in n1], [list(m) for m in d1])
            b = mk(it, "RationalPolynomial", [list(m) for m in n2], [list(m) for m in d2])
            out = it.run(q, [a, b])
        except NoValue as exc:
            raise Unknown(c, str(exc), fn)
        if out[0] == "raise":
            ctx.violation(c, f"raises {out[1]}", fn)
            continue
        r = as_rational(out[1])
        if r is None:
            bad = malformed_terms(out[1])
            if bad:
                ctx.violation(c, f"returns a fraction that is not a polynomial over the variables: {bad}", fn)
                continue
            raise Unknown(c, f"returns {out[1]!r}", fn)
        Nr, Dr = r
        Ns = poly_from_args(n1) * poly_from_args(n2)
        Ds = poly_from_args(d1) * poly_from_args(d2)
        if (Nr * Ds - Ns * Dr).is_zero() and not Dr.is_zero():
            ctx.ok(c, fn, result=f"({Nr!r}) / ({Dr!r})")
        else:
            ctx.violation(c, f"({poly_from_args(n1)!r})/({poly_from_args(d1)!r}) * ({poly_from_args(n2)!r})/({poly_from_args(d2)!r}) "
                             f"returns ({Nr!r}) / ({Dr!r}), expected a fraction equal to ({Ns!r}) / ({Ds!r})", fn)


POLY_REPS = {
    "a": [[1, "a"]], "b": [[1, "b"]], "2a+3b": [[2, "a"], [3, "b"]], "-2a+c": [[-2, "a"], [1, "c"]],
    "ab": [[1, "a", "b"]], "1": [[1]], "0": [], "zero": [[0]], "3": [[3]], "a^2": [[1, "a", "a"]],
    "a+ab+b": [[1, "a"], [1, "a", "b"], [1, "b"]], "-a-ab": [[-1, "a"], [-1, "a", "b"]], "5+a": [[5], [1, "a"]],
    "c+d": [[1, "c"], [1, "d"]], "-3b": [[-3, "b"]], "c": [[1, "c"]],
    "tiny a + b": [[2.0 ** -44, "a"], [1, "b"]], "tiny 2a + b": [[2.0 ** -43, "a"], [1, "b"]], "0.5a": [[0.5, "a"]], "-0.25a+b": [[-0.25, "a"], [1, "b"]],
}
POLY_PAIRS = [("a", "b"), ("b", "a"), ("2a+3b", "-2a+c"), ("a+ab+b", "-a-ab"), ("a", "a"), ("2a+3b", "-3b"), ("ab", "a^2"),
              ("5+a", "3"), ("a", "0"), ("0", "a"), ("zero", "b"), ("1", "a+ab+b"), ("c+d", "a+ab+b"), ("a+ab+b", "c+d"),
              ("-2a+c", "2a+3b"), ("a^2", "a^2"), ("5+a", "5+a"), ("-a-ab", "a+ab+b"), ("c", "5+a"), ("5+a", "c"), ("b", "a+ab+b"),
              ("c+d", "5+a"), ("tiny a + b", "tiny 2a + b"), ("0.5a", "-0.25a+b"), ("tiny a + b", "0.5a")]


@rule("C17.polynomial-arith", props=["C17", "C02", "C03", "C04", "C05", "C06", "C07", "C11", "C19"], min_instances=71, mutants=[
    ("power of a single monomial repeats its variable list (unsorted)", ("polynomial", "            return RationalPolynomial([[1]], self ** -power)\n        *_, last = power_supply(self, power)\n        return last", "            return RationalPolynomial([[1]], self ** -power)\n        if len(self.args) == 1 and power > 0:\n            coeff, *variables = self.args[0]\n            return self.__class__([[coeff ** power, *variables * power]])\n        *_, last = power_supply(self, power)\n        return last")),
    ("division by an integer floors the coefficients", ("polynomial", "        # Assume scalar\n        return self * (1 / other)", "        # Assume scalar\n        if isinstance(other, int):\n            return self.__class__([[monomial[0] // other, *monomial[1:]] for monomial in self.args])\n        return self * (1 / other)")),
    ("merged coefficient appended unconditionally", ("polynomial", "                if ea[0] != 0:\n                    res.append(ea)", "                res.append(ea)")),
    ("merge advances only one cursor on equal monomials", ("polynomial", "                ai += 1\n                bi += 1\n        return self.__class__(res)", "                ai += 1\n        return self.__class__(res)")),
    ("product drops a factor of the right monomial", ("polynomial", "                    if isinstance(eb, str): C.append(eb)\n                    else: C[0] *= eb\n                    j += 1", "                    if isinstance(eb, str) and eb not in C: C.append(eb)\n                    else: C[0] *= eb if not isinstance(eb, str) else 1\n                    j += 1")),
    ("negation keeps the sign of later terms", ("polynomial", "return self.__class__([[-monomial[0], *monomial[1:]] for monomial in self.args])", "return self.__class__([[-monomial[0], *monomial[1:]] for monomial in self.args[:1]] + self.args[1:])")),
    ("single-monomial fast path appends terms unsorted", ("polynomial", "        res = Polynomial([])\n        al = len(self)", "        if len(self) == 1 and len(other) > 1:\n            A = self[0]\n            return Polynomial([[A[0] * B[0], *sorted([*A[1:], *B[1:]])] for B in other.args])\n        res = Polynomial([])\n        al = len(self)")),
    ("merged coefficients below a tolerance are dropped", ("polynomial", "                if ea[0] != 0:\n                    res.append(ea)", "                if abs(ea[0]) > 1e-12:\n                    res.append(ea)")),
    ("monomial order ignores length", ("polynomial", "    return la - lb", "    return 0")),
])
def polynomial_arith(ctx):
    """Polynomial + - * neg (and scalar forms) on representative term lists: right polynomial, well-formed result."""
    repo = ctx.repo
    ops = {"__add__": lambda x, y: x + y, "__sub__": lambda x, y: x - y, "__mul__": lambda x, y: x * y}
    for meth, spec in ops.items():
        q = f"{P}.{meth}"
        fn = ctx.func(q)
        for l, r in POLY_PAIRS:
            c = f"{q}#({l}),({r})"
            it = new_interp(repo)
            try:
                a = mk(it, "Polynomial", [list(m) for m in POLY_REPS[l]])
                b = mk(it, "Polynomial", [list(m) for m in POLY_REPS[r]])
                out = it.run(q, [a, b])
            except NoValue as exc:
                raise Unknown(c, str(exc), fn)
            _check_poly(ctx, c, fn, out, spec(poly_from_args(POLY_REPS[l]), poly_from_args(POLY_REPS[r])), f"({l}) {meth} ({r})")
    # neg and scalar forms
    q = f"{P}.__neg__"
    fn = ctx.func(q)
    for l in ("2a+3b", "a+ab+b", "0", "5+a"):
        c = f"{q}#({l})"
        it = new_interp(repo)
        try:
            out = it.run(q, [mk(it, "Polynomial", [list(m) for m in POLY_REPS[l]])])
        except NoValue as exc:
            raise Unknown(c, str(exc), fn)
        _check_poly(ctx, c, fn, out, -poly_from_args(POLY_REPS[l]), f"-({l})")
    for meth, num, spec in (("__radd__", 4, lambda p: p + Poly.const(4)), ("__rmul__", 3, lambda p: p * Poly.const(3)),
                            ("__rsub__", 2, lambda p: Poly.const(2) - p), ("__add__", 0, lambda p: p), ("__mul__", 0, lambda p: Poly()),
                            ("__radd__", 0, lambda p: p)):
        q = f"{P}.{meth}"
        fn = ctx.func(q) if ctx.repo.has(q) else ctx.func(f"{P}.__mul__")
        for l in ("2a+3b", "5+a"):
            c = f"{q}#({l}),{num}"
            it = new_interp(repo)
            try:
                me = mk(it, "Polynomial", [list(m) for m in POLY_REPS[l]])
                name = {"__radd__": "Add", "__rmul__": "Mult", "__rsub__": "Sub"}.get(meth)
                if name:
                    opnode = {"Add": ast.Add(), "Mult": ast.Mult(), "Sub": ast.Sub()}[name]
                    try:
                        out = ("return", it.binop(opnode, num, me))
                    except Raised as rz:
                        out = ("raise", rz.name)
                else:
                    out = it.run(q, [me, num])
            except NoValue as exc:
                raise Unknown(c, str(exc), fn)
            _check_poly(ctx, c, fn, out, spec(poly_from_args(POLY_REPS[l])), f"{num} {meth} ({l})")
    # integer powers (repeated products): value and well-formedness of the result
    q = f"{P}.__pow__"
    fn = ctx.func(q)
    for l, k in (("ab", 2), ("-3b", 3), ("2a+3b", 2), ("5+a", 3), ("a", 1), ("a^2", 2)):
        c = f"{q}#({l}),{k}"
        it = new_interp(repo)
        try:
            out = it.run(q, [mk(it, "Polynomial", [list(m) for m in POLY_REPS[l]]), k])
        except NoValue as exc:
            raise Unknown(c, str(exc), fn)
        want = Poly.const(1)
        for _ in range(k):
            want = want * poly_from_args(POLY_REPS[l])
        _check_poly(ctx, c, fn, out, want, f"({l}) ** {k}")
    # division by a plain number (the 1/k! of the outer exponential, the n/i of the iterative inverse): exact for the
    # representatives (odd coefficients divided by 2, 4 and 0.5)
    q = f"{P}.__truediv__"
    fn = ctx.func(q)
    for l, k in (("2a+3b", 2), ("5+a", 4), ("a+ab+b", 2), ("-3b", 0.5), ("3", 2)):
        c = f"{q}#({l}),{k}"
        it = new_interp(repo)
        try:
            out = it.run(q, [mk(it, "Polynomial", [list(m) for m in POLY_REPS[l]]), k])
        except NoValue as exc:
            raise Unknown(c, str(exc), fn)
        _check_poly(ctx, c, fn, out, poly_from_args(POLY_REPS[l]) * Poly.const(Fraction(1) / Fraction(k)), f"({l}) / {k}")


def _terms_snapshot(v):
    """Deep copy of the term lists a Polynomial / RationalPolynomial stand-in holds (None if not concrete)."""
    import copy
    if isinstance(v, Obj) and v.kind == "RationalPolynomial":
        return (_terms_snapshot(v.attrs.get("numer")), _terms_snapshot(v.attrs.get("denom")))
    if isinstance(v, Obj) and v.kind == "Polynomial" and isinstance(v.attrs.get("args"), list):
        return copy.deepcopy(v.attrs["args"])
    return None


@rule("C17.operands-intact", props=["C17", "C09"], min_instances=40, mutants=[
    ("like terms are merged into the left operand's own monomial", ("polynomial", "                ea = ea.copy()\n                ea[0] += eb[0]\n                if ea[0] != 0:\n                    res.append(ea)", "                coeff = ea[0] + eb[0]\n                if coeff != 0:\n                    ea[0] = coeff\n                    res.append(ea)")),
    ("negation flips the coefficients in place", ("polynomial", "        return self.__class__([[-monomial[0], *monomial[1:]] for monomial in self.args])", "        for monomial in self.args:\n            monomial[0] = -monomial[0]\n        return self")),
])
def operands_intact(ctx):
    """Polynomial / RationalPolynomial arithmetic never writes into the term lists of its operands: the coefficients of
    symbolic multivectors are such objects, shared between operands, earlier results and the codegen symbols, so an
    operator that merged a term in place would change multivectors that were returned before."""
    repo = ctx.repo
    pairs = [("2a+3b", "-2a+c"), ("a", "a"), ("a+ab+b", "c+d"), ("5+a", "5+a"), ("2a+3b", "-3b"), ("ab", "a^2"), ("-a-ab", "a+ab+b"), ("5+a", "3")]
    for meth in ("__add__", "__sub__", "__mul__"):
        q = f"{P}.{meth}"
        fn = ctx.func(q)
        for l, r in pairs:
            c = f"{q}#intact:({l}),({r})"
            it = new_interp(repo)
            try:
                a = mk(it, "Polynomial", [list(m) for m in POLY_REPS[l]])
                b = mk(it, "Polynomial", [list(m) for m in POLY_REPS[r]])
                before = (_terms_snapshot(a), _terms_snapshot(b))
                it.run(q, [a, b])
            except NoValue as exc:
                raise Unknown(c, str(exc), fn)
            after = (_terms_snapshot(a), _terms_snapshot(b))
            if None in before or None in after:
                raise Unknown(c, "term lists of the operands are not concrete", fn)
            if before == after:
                ctx.ok(c, fn)
            else:
                which = "left" if before[0] != after[0] else "right"
                i = 0 if which == "left" else 1
                ctx.violation(c, f"({l}) {meth} ({r}) changes its {which} operand from {before[i]} to {after[i]}: every multivector, "
                                 f"earlier result and symbol sharing that term list changes with it", fn)
    for meth in ("__neg__",):
        q = f"{P}.{meth}"
        fn = ctx.func(q)
        for l in ("2a+3b", "5+a", "a"):
            c = f"{q}#intact:({l})"
            it = new_interp(repo)
            try:
                a = mk(it, "Polynomial", [list(m) for m in POLY_REPS[l]])
                before = _terms_snapshot(a)
                it.run(q, [a])
            except NoValue as exc:
                raise Unknown(c, str(exc), fn)
            if before == _terms_snapshot(a):
                ctx.ok(c, fn)
            else:
                ctx.violation(c, f"-({l}) changes its operand from {before} to {_terms_snapshot(a)}", fn)
    rats = [("(2a+3b)/c", "x/2"), ("x/2", "x/2"), ("a/1", "(5+a)/(3b)"), ("(2a+3b)/c", "(2a+3b)/c"), ("2xz/(3z)", "a/1")]
    for meth in ("__add__", "__sub__", "__mul__", "__truediv__"):
        q = f"{RP}.{meth}"
        if not repo.has(q):
            continue
        fn = ctx.func(q)
        for l, r in rats:
            c = f"{q}#intact:[{l}],[{r}]"
            it = new_interp(repo)
            try:
                a = mk(it, "RationalPolynomial", *[[list(m) for m in part] for part in TOSYMPY_RATIONALS[l]])
                b = mk(it, "RationalPolynomial", *[[list(m) for m in part] for part in TOSYMPY_RATIONALS[r]])
                before = (_terms_snapshot(a), _terms_snapshot(b))
                it.run(q, [a, b])
            except NoValue as exc:
                raise Unknown(c, str(exc), fn)
            after = (_terms_snapshot(a), _terms_snapshot(b))
            if any(x is None or None in x for x in before + after):
                raise Unknown(c, "term lists of the operands are not concrete", fn)
            if before == after:
                ctx.ok(c, fn)
            else:
                which = "left" if before[0] != after[0] else "right"
                i = 0 if which == "left" else 1
                ctx.violation(c, f"[{l}] {meth} [{r}] changes its {which} operand from {before[i]} to {after[i]}", fn)


def _rat(num: Poly, den: Poly = None):
    """Stand-in for a sympy expression: the rational function num/den, closed under + - * / with its kind and numbers."""
    den = den if den is not None else Poly.const(1)
    o = Obj("sympy-expr", {"num": num, "den": den, "fmt": f"({num!r})/({den!r})"})

    def lift(v):
        if isinstance(v, Obj) and v.kind == "sympy-expr":
            return v.attrs["num"], v.attrs["den"]
        if isinstance(v, (int, float, Fraction)) and not isinstance(v, bool):
            return Poly.const(Fraction(v)), Poly.const(1)
        return None

    def binop(op, other, refl):
        r = lift(other)
        if r is None:
            return Unk("sympy arithmetic")
        (an, ad), (bn, bd) = ((r, (num, den)) if refl else ((num, den), r))
        if op == "Add":
            return _rat(an * bd + bn * ad, ad * bd)
        if op == "Sub":
            return _rat(an * bd - bn * ad, ad * bd)
        if op == "Mult":
            return _rat(an * bn, ad * bd)
        if op == "Div":
            if bn.is_zero():
                raise Raised("ZeroDivisionError")
            return _rat(an * bd, ad * bn)
        return Unk("sympy arithmetic")
    o.methods["binop"] = binop
    o.methods["unop"] = lambda op: _rat(-num, den) if op == "USub" else o
    return o


def _sympy_standins(it):
    def mul(*factors, **kw):
        acc = _rat(Poly.const(1))
        for f in factors:
            acc = acc.methods["binop"]("Mult", f, False)
            if isinstance(acc, Unk):
                raise NoValue("Mul of a non-expression")
        return acc

    def add(*terms, **kw):
        acc = _rat(Poly())
        for t in terms:
            acc = acc.methods["binop"]("Add", t, False)
            if isinstance(acc, Unk):
                raise NoValue("Add of a non-expression")
        return acc
    table = {"Symbol": PyFunc(lambda name, *a, **k: _rat(Poly.atom(str(name))), "Symbol", True),
             "Mul": PyFunc(mul, "Mul", True), "Add": PyFunc(add, "Add", True),
             "Integer": PyFunc(lambda v: _rat(Poly.const(Fraction(v))), "Integer", True),
             "sympify": PyFunc(lambda v: v if isinstance(v, Obj) else _rat(Poly.const(Fraction(v))), "sympify", True)}
    it.standins["sympy"] = Obj("module:sympy", dict(table))
    for k, v in table.items():
        it.standins[f"sympy.{k}"] = v


TOSYMPY_POLYS = ["2a+3b", "a+ab+b", "5+a", "3", "0", "a^2", "-a-ab", "1", "0.5a"]
TOSYMPY_RATIONALS = {
    "(2a+3b)/c": ([[2, "a"], [3, "b"]], [[1, "c"]]), "x/2": ([[1, "x"]], [[2]]), "1/4": ([[1]], [[4]]),
    "a/1": ([[1, "a"]], [[1]]), "(5+a)/(3b)": ([[5], [1, "a"]], [[3, "b"]]), "2xz/(3z)": ([[2, "x", "z"]], [[3, "z"]]),
    "(a+b)/(-1)": ([[1, "a"], [1, "b"]], [[-1]]),
}


@rule("C17.tosympy", props=["C17", "C11", "C12"], min_instances=14, mutants=[
    ("a constant denominator is taken for 1", ("polynomial", "        return self.numer.tosympy() / self.denom.tosympy()", "        if len(self.denom) == 1 and len(self.denom[0]) == 1:\n            return self.numer.tosympy()\n        return self.numer.tosympy() / self.denom.tosympy()")),
    ("coefficients dropped in the conversion", ("polynomial", "        preprocessed = (monomial if len(monomial) == 1 else monomial[1:] if monomial[0] == 1 else monomial\n                        for monomial in self.args)\n        sympified", "        preprocessed = (monomial if len(monomial) == 1 else monomial[1:]\n                        for monomial in self.args)\n        sympified")),
    ("the fraction is converted upside down", ("polynomial", "        return self.numer.tosympy() / self.denom.tosympy()", "        return self.denom.tosympy() / self.numer.tosympy()")),
], rewrites=[
    ("unit coefficients stripped from constants too (the empty product is 1)", ("polynomial", "        preprocessed = (monomial if len(monomial) == 1 else monomial[1:] if monomial[0] == 1 else monomial\n                        for monomial in self.args)\n        sympified", "        preprocessed = (monomial[1:] if monomial[0] == 1 else monomial\n                        for monomial in self.args)\n        sympified")),
])
def tosympy_rule(ctx):
    """Conversion to sympy preserves the function: Polynomial.tosympy / RationalPolynomial.tosympy are interpreted with
    Symbol / Mul / Add standing for exact rational-function arithmetic, and the result is compared with the function the
    term lists denote."""
    repo = ctx.repo
    q = f"{P}.tosympy"
    fn = ctx.func(q)
    for l in TOSYMPY_POLYS:
        c = f"{q}#({l})"
        it = new_interp(repo)
        _sympy_standins(it)
        try:
            out = it.run(q, [mk(it, "Polynomial", [list(m) for m in POLY_REPS[l]])])
        except NoValue as exc:
            raise Unknown(c, str(exc), fn)
        want = poly_from_args(POLY_REPS[l])
        _check_rat(ctx, c, fn, out, want, Poly.const(1), f"({l}).tosympy()")
    q = f"{RP}.tosympy"
    fn = ctx.func(q)
    for l, (n, d) in TOSYMPY_RATIONALS.items():
        c = f"{q}#{l}"
        it = new_interp(repo)
        _sympy_standins(it)
        try:
            out = it.run(q, [mk(it, "RationalPolynomial", [list(m) for m in n], [list(m) for m in d])])
        except NoValue as exc:
            raise Unknown(c, str(exc), fn)
        _check_rat(ctx, c, fn, out, poly_from_args(n), poly_from_args(d), f"({l}).tosympy()")


def _check_rat(ctx, c, fn, out, wn: Poly, wd: Poly, what):
    if out[0] == "raise":
        ctx.violation(c, f"{what} raises {out[1]}", fn)
        return
    v = out[1]
    if isinstance(v, (int, float, Fraction)) and not isinstance(v, bool):
        v = _rat(Poly.const(Fraction(v)))
    if not (isinstance(v, Obj) and v.kind == "sympy-expr"):
        raise Unknown(c, f"{what} returns {v!r}", fn)
    gn, gd = v.attrs["num"], v.attrs["den"]
    if gd.is_zero() or not (gn * wd - wn * gd).is_zero():
        ctx.violation(c, f"{what} denotes ({gn!r}) / ({gd!r}), but the object denotes ({wn!r}) / ({wd!r}): conversion to sympy "
                         f"changes the function", fn)
    else:
        ctx.ok(c, fn, value=f"({gn!r}) / ({gd!r})")


def _check_poly(ctx, c, fn, out, want: Poly, what):
    if out[0] == "raise":
        ctx.violation(c, f"{what} raises {out[1]}", fn)
        return
    v = out[1]
    if not (isinstance(v, Obj) and v.kind == "Polynomial" and isinstance(v.attrs.get("args"), (list, tuple))):
        raise Unknown(c, f"{what} returns {v!r}", fn)
    args = [list(m) for m in v.attrs["args"]]
    try:
        got = poly_from_args(args)
    except Exception:
        ctx.violation(c, f"{what} returns the malformed term list {args}", fn)
        return
    if got != want:
        ctx.violation(c, f"{what} returns {args} = {got!r}, expected {want!r}", fn, got=repr(got), expected=repr(want))
    elif not well_formed(args):
        ctx.violation(c, f"{what} returns {args}: the right polynomial, but the term list is not sorted / duplicate free / "
                         f"zero free, which the zero tests and the next merge rely on", fn, args=args)
    else:
        ctx.ok(c, fn, args=args)


ZERO_REPS = {"[]": [], "[[0]]": [[0]], "[[1]]": [[1]], "[[2,a]]": [[2, "a"]], "[[1,a],[1,b]]": [[1, "a"], [1, "b"]], "[[3]]": [[3]],
             "[[-1,a,b]]": [[-1, "a", "b"]]}


@rule("C17.zero-test", props=["C17", "C06"], min_instances=20, mutants=[
    ("truthiness of a one-term polynomial ignores the coefficient", ("polynomial", "        if len(self.args) == 1:\n            return bool(self.args[0][0])\n        return bool(self.args)", "        return bool(self.args)")),
    ("== 0 also true for the constant 1", ("polynomial", "        if other == 0 and (not self.args or self.args == [[0]]): return True", "        if other == 0 and (not self.args or len(self.args[0]) == 1): return True")),
    ("rational == 0 looks at the denominator", ("polynomial", "        if other == 0 and (self.numer == 0): return True", "        if other == 0 and (self.denom == 0): return True")),
    ("rational truthiness from the denominator", ("polynomial", "        return self.numer.__bool__()", "        return self.denom.__bool__()")),
])
def zero_test(ctx):
    """==0, ==1, truthiness agree with the representation invariant; == never equates different polynomials (DT)."""
    repo = ctx.repo
    for label, args in ZERO_REPS.items():
        want_zero = poly_from_args(args).is_zero()
        want_one = poly_from_args(args) == Poly.const(1)
        for kind in ("Polynomial", "RationalPolynomial"):
            qual = P if kind == "Polynomial" else RP
            fn = ctx.func(f"{qual}.__eq__")
            it = new_interp(repo)
            try:
                obj = mk(it, kind, [list(m) for m in args])
                eq0 = it.compare(ast.Eq(), obj, 0, None)
                eq1 = it.compare(ast.Eq(), obj, 1, None)
                tr = it.truth(obj)
            except NoValue as exc:
                raise Unknown(f"{qual}.__eq__#{label}", str(exc), fn)
            except Raised as rz:
                ctx.violation(f"{qual}.__eq__#{label}", f"zero test of {kind}({args}) raises {rz.name}", fn)
                continue
            c = f"{qual}#zero-test:{label}"
            problems = []
            if bool(eq0) != want_zero:
                problems.append(f"== 0 is {eq0}")
            if bool(tr) != (not want_zero):
                problems.append(f"truthiness is {tr}")
            if bool(eq1) != want_one:
                problems.append(f"== 1 is {eq1}")
            if problems:
                ctx.violation(c, f"{kind}({args}) denotes {'zero' if want_zero else 'a non-zero function'} but " + ", ".join(problems) +
                              ": simplification during code generation can discard a non-zero coefficient (or keep a zero one)", fn)
            else:
                ctx.ok(c, fn)
    # == between polynomials is structural
    fn = ctx.func(f"{P}.__eq__")
    for l, r in (("a", "b"), ("a", "a"), ("2a+3b", "2a+3b"), ("2a+3b", "-2a+c"), ("ab", "a"), ("3", "1")):
        c = f"{P}.__eq__#({l})==({r})"
        it = new_interp(repo)
        try:
            a = mk(it, "Polynomial", [list(m) for m in POLY_REPS[l]])
            b = mk(it, "Polynomial", [list(m) for m in POLY_REPS[r]])
            res = it.compare(ast.Eq(), a, b, None)
        except NoValue as exc:
            raise Unknown(c, str(exc), fn)
        want = poly_from_args(POLY_REPS[l]) == poly_from_args(POLY_REPS[r])
        if bool(res) == want:
            ctx.ok(c, fn)
        else:
            ctx.violation(c, f"({l}) == ({r}) is {res}, but they denote {'the same' if want else 'different'} polynomials", fn)


def _ratfun(node):
    """(numerator, denominator) polynomials of an arithmetic expression tree (names are variables)."""
    from fractions import Fraction as F
    if isinstance(node, ast.Expression):
        return _ratfun(node.body)
    if isinstance(node, ast.Constant) and isinstance(node.value, (int, float)) and not isinstance(node.value, bool):
        return Poly.const(F(node.value)), Poly.const(1)
    if isinstance(node, ast.Name):
        return Poly.atom(node.id), Poly.const(1)
    if isinstance(node, ast.UnaryOp) and isinstance(node.op, (ast.USub, ast.UAdd)):
        n, d = _ratfun(node.operand)
        return (-n if isinstance(node.op, ast.USub) else n), d
    if isinstance(node, ast.BinOp):
        (an, ad), (bn, bd) = _ratfun(node.left), _ratfun(node.right)
        if isinstance(node.op, ast.Add):
            return an * bd + bn * ad, ad * bd
        if isinstance(node.op, ast.Sub):
            return an * bd - bn * ad, ad * bd
        if isinstance(node.op, ast.Mult):
            return an * bn, ad * bd
        if isinstance(node.op, ast.Div):
            return an * bd, ad * bn
    raise ValueError(f"not an arithmetic expression: {ast.dump(node)[:60]}")


# --------------------------------------------------------------------------- numbers, both classes, operation sequences
def _denotes(v):
    """(numerator, denominator) Poly pair denoted by a result: RationalPolynomial / Polynomial stand-in or a number."""
    r = as_rational(v)
    return r


SEQUENCE_CELLS = [
    # label, expression over a, b (RationalPolynomial symbols), pa, pb (Polynomial symbols); expected (numerator, denominator) as text
    ("a number added to the zero fraction", "(a - a) + 2", "2", "1"),
    ("the zero fraction added to a number", "2 + (a - a)", "2", "1"),
    ("a number subtracted from the zero fraction", "(a - a) - 2", "-2", "1"),
    ("then used again: reciprocal", "1 / ((a - a) + 2)", "1", "2"),
    ("then used again: power", "((a - a) + 2) ** 2", "4", "1"),
    ("then used again: product", "((a - a) + 2) * b", "2*b", "1"),
    ("fraction times polynomial", "b * pa", "a*b", "1"),
    ("polynomial times fraction", "pa * b", "a*b", "1"),
    ("difference of equal products of the two classes", "b * pa - b * a", "0", "1"),
    ("polynomial plus fraction", "pa + b", "a+b", "1"),
    ("polynomial over fraction", "pa / b", "a", "b"),
    ("fraction over polynomial", "b / pa", "b", "a"),
    ("fraction minus polynomial", "(a / b) - pa", "a-a*b", "b"),
    ("copy of a fraction", "RationalPolynomial(a / b)", "a", "b"),
    ("zeroth power of a fraction", "(a / b) ** 0", "1", "1"),
    ("zeroth power of a polynomial", "(pa + pb) ** 0", "1", "1"),
    ("negative power of a polynomial", "(pa + pb) ** -1", "1", "a+b"),
    ("negative power of a fraction", "(a / b) ** -2", "b*b", "a*a"),
]


def _poly_of_text(text):
    n, d = _ratfun(ast.parse(text.replace("^", "**"), mode="eval"))
    return n, d


@rule("C17.sequences", props=["C17", "C11", "C12"], min_instances=21, mutants=[
    ("a plain number becomes the numerator as it is", ("polynomial", "        elif not isinstance(numer, Polynomial):\n            numer = Polynomial([[numer]])  # A plain number.\n", "")),
    ("a polynomial operand is wrapped as a coefficient", ("polynomial", "        if not isinstance(other, self.__class__):\n            other = self.__class__(other)\n\n        if self == 0: return self", "        if not isinstance(other, self.__class__):\n            other = self.__class__([[other]])\n\n        if self == 0: return self")),
    ("the zeroth power asks the addition chain for 0", ("polynomial", "        if power == 0:\n            return self.__class__([[1]])\n        if power < 0:\n            *_, last", "        if power < 0:\n            *_, last")),
    ("a root of a fraction goes to the integer addition chains", ("polynomial", "        if power != int(power):\n            return self.tosympy() ** power  # Roots are not rational functions: hand over to sympy.\n", "")),
    ("a root of a polynomial goes to the integer addition chains", ("polynomial", "        if power != int(power):\n            return self.tosympy() ** power  # Roots are not polynomials: hand over to sympy.\n", "")),
    ("a root is rounded to an integer power", ("polynomial", "        if power != int(power):\n            return self.tosympy() ** power  # Roots are not polynomials: hand over to sympy.\n", "        power = round(power)\n")),
    ("the copy constructor reads the denominator of the numerator", ("polynomial", "            numer, denom = numer.numer, numer.denom", "            numer = numer.numer\n            denom = numer.denom")),
])
def sequences(ctx):
    """Operation SEQUENCES over both classes and plain numbers: whatever an operator returns can be used again - as an
    operand of every other operator, with either class or a number on either side - and still denotes the right rational
    function, in a form on which the zero tests are exact (an int standing where a Polynomial belongs, a Polynomial
    wrapped as a coefficient, are wrong even when the printed value looks right)."""
    repo = ctx.repo
    fn = ctx.func(f"{RP}.__init__")
    from ..absint import Env
    # roots: the generated square root (norm, normalized, sqrt, ** 0.5 inside a symbolic=True registered function) is applied to
    # these classes.  A root is no rational function, so the only right answers leave the two classes (sympy, not followed here);
    # raising, or answering with a polynomial / fraction, are both wrong.
    for label, text in (("half power of a polynomial", "(pa + pb) ** 0.5"), ("half power of a fraction", "(a / b) ** 0.5"),
                        ("half power of a fraction, reflected use", "1 / ((a / b) ** 0.5)")):
        c = f"{RP}#sequence:{label}"
        it = new_interp(repo)
        env_vals = {"a": mk(it, "RationalPolynomial", [[1, "a"]]), "b": mk(it, "RationalPolynomial", [[1, "b"]]),
                    "pa": mk(it, "Polynomial", [[1, "a"]]), "pb": mk(it, "Polynomial", [[1, "b"]])}
        try:
            v = it.eval(ast.parse(text, mode="eval").body, Env(dict(env_vals), {}, "polynomial", it))
        except NoValue as exc:
            ctx.ok(c, fn, outcome=f"leaves the interpreted classes ({exc})")
            continue
        except Raised as r:
            ctx.violation(c, f"`{text}` raises {r.name}: norm(), normalized(), sqrt() and ** 0.5 cannot be used inside a function registered "
                             f"with symbolic=True (the generated root is applied to these coefficients)", fn)
            continue
        if isinstance(v, Obj) and v.kind in ("RationalPolynomial", "Polynomial") or isinstance(v, (int, float)):
            ctx.violation(c, f"`{text}` is answered with {v!r}: the root of a + b / of a / b is no polynomial or fraction, so the value is wrong", fn)
        else:
            ctx.ok(c, fn, outcome=f"handed over ({v!r})")
    for label, text, wn, wd in SEQUENCE_CELLS:
        c = f"{RP}#sequence:{label}"
        it = new_interp(repo)
        env_vals = {"a": mk(it, "RationalPolynomial", [[1, "a"]]), "b": mk(it, "RationalPolynomial", [[1, "b"]]),
                    "pa": mk(it, "Polynomial", [[1, "a"]]), "pb": mk(it, "Polynomial", [[1, "b"]])}
        from ..absint import Env
        try:
            v = it.eval(ast.parse(text, mode="eval").body, Env(dict(env_vals), {}, "polynomial", it))
        except NoValue as exc:
            ctx.unknown(c, str(exc), fn)
            continue
        except Raised as r:
            ctx.violation(c, f"`{text}` raises {r.name}: the result of one operator cannot be used as the operand of the next", fn)
            continue
        shape = None
        if isinstance(v, Obj) and v.kind == "RationalPolynomial":
            n_, d_ = v.attrs.get("numer"), v.attrs.get("denom")
            if not (isinstance(n_, Obj) and n_.kind == "Polynomial") or not (isinstance(d_, Obj) and d_.kind == "Polynomial"):
                shape = f"numerator {n_!r} / denominator {d_!r} are not both Polynomials"
            else:
                for part in (n_, d_):
                    if any(isinstance(f, Obj) for m in (part.attrs.get("args") or []) if isinstance(m, (list, tuple)) for f in m):
                        shape = "a Polynomial is stored as the coefficient of a monomial"
        if shape or malformed_terms(v):
            ctx.violation(c, f"`{text}` returns a malformed fraction ({shape or malformed_terms(v)}): the next operator, str() or tosympy() fails on "
                             f"it, or the zero tests are wrong", fn)
            continue
        r = _denotes(v)
        if r is None:
            ctx.unknown(c, f"`{text}` evaluates to {v!r}", fn)
            continue
        gn, gd = r
        en, ed = _poly_of_text(wn), _poly_of_text(wd)
        want_n, want_d = en[0] * ed[1], en[1] * ed[0]
        if (gn * want_d - want_n * gd).is_zero() and not gd.is_zero():
            # the zero tests on the result must be exact
            zero = (gn.is_zero())
            try:
                truth = it.truth(v)
            except NoValue:
                truth = not zero
            if truth == (not zero):
                ctx.ok(c, fn, value=f"({gn!r}) / ({gd!r})")
            else:
                ctx.violation(c, f"`{text}` denotes {'zero' if zero else 'a non-zero function'} but its truth value is {truth}", fn)
        else:
            ctx.violation(c, f"`{text}` returns ({gn!r}) / ({gd!r}), expected ({want_n!r}) / ({want_d!r})", fn)
