"""C05 - Duality maps invert each other and define the regressive product."""
from __future__ import annotations

import ast

from ..astx import un, NoValue, Poly
from ..absint import Unk
from ..core import rule, fixture_for, Unknown
from ..optree import T
from .. import bitauto
from ..bitauto import KX, KY, P, equivalent, int_equal, Unsupported
from ..products import resolve_product, filter_ir, keyout_ir, spec_sign
from ..surface import operator_registry
from ..symenv import tree_interp
from .c02 import run_product, compare_result, REPS
from .c11 import dual_tables

INFO = {
    "id": "C05",
    "technique": "decision tables of dual/undual and of the polarity branch by abstract interpretation (operator trees); "
                 "abstract interpretation of hodge/unhodge/rp with polynomial tokens against compositions of the "
                 "checker's sign specification; bit-serial automaton decision of the regressive filter and key-out for "
                 "all widths",
    "explanation": "Decided modulo C01 (values of the sign table): dual()/undual() select polarity for ('polarity', any r) "
                   "and ('auto', r=0), Hodge for ('hodge', any r) and ('auto', r=1), the un-map of the same family in "
                   "every cell, on MultiVector and on the recorder; polarity branches on the sign of pss*pss into "
                   "-x*pss / x*pss / ZeroDivisionError and unpolarity is x*pss; hodge maps the coefficient of blade E to "
                   "the complement blade with the sign of E*complement and unhodge with the sign of complement*E (so the "
                   "round trip multiplies by the square of one table entry between disjoint blades, and E ^ hodge(E) is "
                   "the pseudoscalar); the regressive filter is equivalent for every bit width to kx|ky = pss with "
                   "key-out kx&ky; and codegen_rp equals unhodge(hodge(a) ^ hodge(b)) term by term on representative "
                   "operands, including a degenerate metric.",
    "decided": ["C05.dual-table", "C05.counts-follow-signature", "C05.polarity", "C05.hodge", "C05.rp-filter", "C05.rp-table"],
    "not_decided": ["values of the sign table (C01)"],
    "assumptions": ["pss^-1 = pss / (pss*pss) when pss*pss is +-1", "C01, C02, C03"],
}


@rule("C05.dual-table", props=["C05", "C11", "C10"], min_instances=48, mutants=[
    ("auto with r == 1 selects polarity", ("multivector", "        elif kind == 'hodge' or kind == 'auto' and self.algebra.r == 1:\n            return self.hodge()", "        elif kind == 'hodge' or kind == 'auto' and self.algebra.r == 2:\n            return self.hodge()")),
    ("undual('hodge') applies hodge", ("multivector", "            return self.unhodge()", "            return self.hodge()")),
    ("recorder undual auto r==1 -> unpolarity", ("taperecorder", "            return self.unhodge()", "            return self.unpolarity()")),
    ("auto with r == 0 test uses p", ("multivector", "        if kind == 'polarity' or kind == 'auto' and self.algebra.r == 0:\n            return self.polarity()", "        if kind == 'polarity' or kind == 'auto' and self.algebra.p == 0:\n            return self.polarity()")),
])
def dual_table(ctx):
    """dual()/undual() kind selection over kind x r, on both classes (DT)."""
    for which in ("dual", "undual"):
        dual_tables(ctx, ctx.repo, which)


@rule("C05.counts-follow-signature", props=["C05", "C14", "C01", "C18"], min_instances=4, mutants=[
    ("p, q, r given to the constructor win over the signature", ("algebra", "            counts = Counter(self.signature)\n            self.p, self.q, self.r = counts[1], counts[-1], counts[0]", "            if not (self.p or self.q or self.r):\n                counts = Counter(self.signature)\n                self.p, self.q, self.r = counts[1], counts[-1], counts[0]")),
    ("null generators are counted as positive", ("algebra", "self.p, self.q, self.r = counts[1], counts[-1], counts[0]", "self.p, self.q, self.r = counts[1] + counts[0], counts[-1], 0")),
])
def counts_follow_signature(ctx):
    """dual() / undual() choose polarity or Hodge duality by `algebra.r` while every sign follows `algebra.signature`:
    when a signature is given, p, q, r (and d) are the counts of THAT signature - also when stale counts arrive with
    it, as in dataclasses.replace(alg, signature=...), which hands every init field of the old algebra back to the
    constructor."""
    from .c01 import build_algebra
    from ..absint import Raised
    fn = ctx.func("algebra.Algebra.__post_init__")
    cells = [((0, 0, 0), [0, 1, 1]), ((3, 0, 0), [0, 1, 1]), ((2, 0, 1), [1, 1, -1]), ((1, 1, 0), [-1, -1]),
             ((0, 0, 0), [1, -1, 0, 0])]
    for (p, q, r), sig in cells:
        c = f"algebra.Algebra.__post_init__#p,q,r={p},{q},{r} with signature={sig}"
        try:
            it, alg = build_algebra(ctx.repo, p=p, q=q, r=r, signature=list(sig))
        except NoValue as exc:
            raise Unknown(c, str(exc), fn)
        except Raised as exc:
            ctx.violation(c, f"constructing the algebra raises {exc.name}", fn)
            continue
        want = (sig.count(1), sig.count(-1), sig.count(0))
        got = tuple(alg.attrs.get(x) for x in "pqr")
        if any(isinstance(g, Unk) for g in got) or isinstance(alg.attrs.get("d"), Unk):
            raise Unknown(c, f"p, q, r = {got!r}", fn)
        if got != want or alg.attrs.get("d") != len(sig):
            ctx.violation(c, f"the algebra with signature {sig} has p, q, r = {got}, d = {alg.attrs.get('d')!r}; the signature has "
                             f"{want[0]} positive, {want[1]} negative and {want[2]} null generators, and dual() / undual() decide by r", fn)
        else:
            ctx.ok(c, fn, pqr=str(got))


@rule("C05.polarity", props=["C05", "C14"], min_instances=4, mutants=[
    ("pseudoscalar rebuilt as the wedge of the frame (listing order, not the spelled blade)", ("codegen", "def codegen_polarity(x, undual=False):\n    if undual:\n        return x * x.algebra.pss", "def codegen_polarity(x, undual=False):\n    if undual:\n        return x * reduce(operator.xor, x.algebra.frame)")),
    ("missing negation for pss*pss = -1", ("codegen", "    if sign == -1:\n        return - x * x.algebra.pss", "    if sign == -1:\n        return x * x.algebra.pss")),
    ("left multiplication", ("codegen", "    if sign == 1:\n        return x * x.algebra.pss", "    if sign == 1:\n        return x.algebra.pss * x")),
    ("degenerate metric returns x*pss", ("codegen", "    if sign == 0:\n        raise ZeroDivisionError", "    if sign == 0:\n        return x * x.algebra.pss")),
], rewrites=[
    ("-(x * pss)", ("codegen", "        return - x * x.algebra.pss", "        return -(x * x.algebra.pss)")),
])
def polarity(ctx):
    """polarity(x) = x * pss^-1 by the sign of pss*pss; ZeroDivisionError iff degenerate; unpolarity = x * pss (DT + OPT)."""
    repo = ctx.repo
    x, pss = T.var("x"), T.var("pss")
    want = {1: ("return", x.gp(pss)), -1: ("return", x.gp(pss).neg()), 0: ("raise", "ZeroDivisionError")}
    fn = ctx.func("codegen.codegen_polarity")
    for d in (2, 3):
        for s, w in want.items():
            c = f"codegen.codegen_polarity#pss2={s},d={d}"
            if d == 3 and s != -1:
                continue
            it = tree_interp(repo, d, pss_sign=s)
            try:
                out = it.run("codegen.codegen_polarity", [x])
            except NoValue as exc:
                raise Unknown(c, str(exc), fn)
            if out[0] == "return" and isinstance(out[1], Unk):
                raise Unknown(c, f"evaluates to {out[1]!r}", fn)
            if out == w:
                ctx.ok(c, fn, outcome=repr(out[1]))
            else:
                ctx.violation(c, f"with pss*pss = {s} polarity(x) gives {out[0]} [{out[1]!r}], expected {w[0]} [{w[1]!r}] "
                                 f"(x * pss^-1, pss^-1 = pss/(pss*pss))", fn)
    fn2 = ctx.func("codegen.codegen_unpolarity")
    for s in (1, -1, 0):
        c = f"codegen.codegen_unpolarity#pss2={s}"
        it = tree_interp(repo, 3, pss_sign=s)
        try:
            out = it.run("codegen.codegen_unpolarity", [x])
        except NoValue as exc:
            raise Unknown(c, str(exc), fn2)
        if out == ("return", x.gp(pss)):
            ctx.ok(c, fn2)
        else:
            ctx.violation(c, f"unpolarity(x) gives {out[0]} [{out[1]!r}], expected x * pss", fn2)


def hodge_spec(signature, xk, undual=False, basis=None):
    from .c02 import basis_sign_fn
    sgn = basis_sign_fn(signature, basis) if basis else (lambda a, b: spec_sign(a, b, signature))
    Pk = (1 << len(signature)) - 1
    res = {}
    for k in xk:
        comp = Pk - k
        s = sgn(comp, k) if undual else sgn(k, comp)
        res[comp] = Poly.atom(f"a{k}") * Poly.const(s)
    return res


@rule("C05.hodge", props=["C05", "C14"], min_instances=6, mutants=[
    ("hodge uses the transposed table entry", ("codegen", "-v if x.algebra.signs[eI, key_dual] < 0 else v", "-v if x.algebra.signs[key_dual, eI] < 0 else v")),
    ("unhodge uses the hodge entry", ("codegen", "-v if x.algebra.signs[key_dual, eI] < 0 else v", "-v if x.algebra.signs[eI, key_dual] < 0 else v")),
    ("sign from the bit-twiddling helper (assumes blades are spelled in bit order)", ("codegen", "-v if x.algebra.signs[eI, key_dual] < 0 else v", "-v if x.algebra._swap_blades_bin(eI, key_dual)[1] < 0 else v")),
    ("complement of the wrong key", ("codegen", "    return {(key_dual := len(x.algebra) - 1 - eI): -v if x.algebra.signs[eI, key_dual] < 0 else v", "    return {(key_dual := len(x.algebra) - eI): -v if x.algebra.signs[eI, key_dual - 1] < 0 else v")),
])
def hodge(ctx):
    """hodge / unhodge: complement key, sign of E*comp resp. comp*E (round trip by construction)."""
    repo = ctx.repo
    reps = {"[0,+,-] shuffled": ([0, 1, -1], (3, 0, 5, 1, 7, 2, 6, 4)), "[+,+,+,-] sparse": ([1, 1, 1, -1], (9, 2, 15, 0, 6))}
    for cg, undual in (("codegen_hodge", False), ("codegen_unhodge", True)):
        fn = ctx.func(f"codegen.{cg}")
        for name, (sig, xk) in reps.items():
            c = f"codegen.{cg}#{name}"
            got = run_product(ctx, repo, cg, sig, xk, (), c, unary=True)
            compare_result(ctx, c, fn, got, hodge_spec(sig, xk, undual), "unhodge" if undual else "hodge")
        from .c02 import BASIS_REP
        name, sig, basis, xk, _ = BASIS_REP
        c = f"codegen.{cg}#{name}"
        got = run_product(ctx, repo, cg, sig, xk, (), c, unary=True, basis=basis)
        compare_result(ctx, c, fn, got, hodge_spec(sig, xk, undual, basis), ("unhodge" if undual else "hodge") + " in a custom basis")


@rule("C05.rp-filter", props=["C05"], min_instances=2, mutants=[
    ("rp filter with + k_out", ("codegen", "filter_func = lambda kx, ky, k_out: key_pss == kx + ky - k_out", "filter_func = lambda kx, ky, k_out: key_pss == kx + ky + k_out")),
    ("rp key-out without complement", ("codegen", "keyout_func = lambda kx, ky: key_pss - (kx ^ ky)", "keyout_func = lambda kx, ky: kx ^ ky")),
], rewrites=[
    ("rp filter via |", ("codegen", "filter_func = lambda kx, ky, k_out: key_pss == kx + ky - k_out", "filter_func = lambda kx, ky, k_out: key_pss == kx | ky")),
])
def rp_filter(ctx):
    """Regressive product: filter <=> kx | ky == pss and then key-out == kx & ky, for all widths (BIT)."""
    repo = ctx.repo
    reg = operator_registry(repo)
    t = resolve_product(repo, reg["rp"].codegen)
    c = f"codegen.{reg['rp'].codegen}#filter"
    env = {"kx": KX, "ky": KY, "P": P}
    union = bitauto.bool_ir(ast.parse("kx | ky == P", mode="eval").body, env)
    try:
        ok, n, wit = equivalent(filter_ir(t), union)
    except Unsupported as exc:
        # not a finite-state expression (a method of a helper object, ...): apply the functions themselves to all blade
        # pairs of a 4- and a 3-dimensional algebra
        from ..products import bounded_filter_table
        bad, total = [], 0
        for sig in ([0, 1, 1, -1], [1, 1, 1]):
            try:
                table, order = bounded_filter_table(repo, reg["rp"].codegen, sig)
            except (ValueError, NoValue) as exc2:
                raise Unknown(c, f"outside the decidable fragment: {exc}; not evaluable either: {exc2}", t.node)
            Pk = 2 ** len(sig) - 1
            for (kx, ky), (keep, ko) in table.items():
                total += 1
                if keep != ((kx | ky) == Pk) or (keep and ko != (kx & ky)):
                    bad.append((sig, kx, ky, keep, ko))
            if order != (0, 1):
                bad.append((sig, "operands", order, None, None))
        if bad:
            ctx.violation(c, f"the regressive filter / key-out is not 'kx | ky == pss, then kx & ky': e.g. {bad[0]} ({len(bad)} of {total} blade "
                             f"pairs of two representative algebras)", t.node)
        else:
            ctx.ok(c, t.node, spec="kx | ky == P, key-out kx & ky", all_widths=False, decided_for=f"all {total} blade pairs of a 4- and a 3-dimensional algebra")
            ctx.ok(f"codegen.{reg['rp'].codegen}#keyout", t.node, decided_for="as the filter")
        return
    if ok:
        ctx.ok(c, t.node, predicate=un(t.filter), spec="kx | ky == P", automaton_states=n, all_widths=True)
    else:
        ctx.violation(c, f"the regressive filter {un(t.filter)} is not 'the two blades together span the pseudoscalar': "
                         f"kx={wit['kx']:#b}, ky={wit['ky']:#b}, width {wit['w']}: filter {wit['first']}, definition "
                         f"{wit['second']}", t.node, witness=wit)
    c = f"codegen.{reg['rp'].codegen}#keyout"
    try:
        ok, n, wit = int_equal(keyout_ir(t), ("and", KX, KY), assume=union)
    except Unsupported as exc:
        raise Unknown(c, f"outside the decidable fragment: {exc}", t.node)
    if ok:
        ctx.ok(c, t.node, keyout=un(t.keyout), spec="kx & ky (under kx | ky == P)", automaton_states=n)
    else:
        ctx.violation(c, f"the regressive key-out {un(t.keyout)} is not the meet kx & ky: kx={wit['kx']:#b}, "
                         f"ky={wit['ky']:#b}, width {wit['w']}", t.node, witness=wit)
    if t.operands != (0, 1):
        ctx.violation(c, f"codegen_rp passes its operands as {t.operands}", t.node)


def rp_spec(signature, xk, yk, basis=None):
    from .c02 import basis_sign_fn
    spec_sign = basis_sign_fn(signature, basis) if basis else (lambda a, b, s_=None: __import__("kverif.products", fromlist=["spec_sign"]).spec_sign(a, b, signature))
    Pk = (1 << len(signature)) - 1
    res = {}
    for kx in xk:
        for ky in yk:
            A, B = Pk - kx, Pk - ky
            s = spec_sign(kx, A) * spec_sign(ky, B)     # hodge of each blade
            if A & B:
                continue
            s *= spec_sign(A, B)                                    # outer product of the duals
            K = A | B
            s *= spec_sign(Pk - K, K)                               # unhodge
            if s == 0:
                continue
            k = Pk - K
            res[k] = res.get(k, Poly()) + Poly.atom(f"a{kx}") * Poly.atom(f"b{ky}") * Poly.const(s)
    return res


@rule("C05.rp-table", props=["C05", "C14"], min_instances=10, mutants=[
    ("transposed index pair in the unhodge factor", ("codegen", "algebra.signs[key_pss - (pair[0] ^ pair[1]), pair[0] ^ pair[1]]", "algebra.signs[pair[0] ^ pair[1], key_pss - (pair[0] ^ pair[1])]")),
    ("early exit when the grades add up to at most d", ("codegen", "    algebra = x.algebra\n    key_pss = len(algebra) - 1\n    keyout_func = lambda kx, ky: key_pss - (kx ^ ky)", "    algebra = x.algebra\n    if x.keys() and y.keys() and max(bin(k).count('1') for k in x.keys()) + max(bin(k).count('1') for k in y.keys()) <= algebra.d:\n        return {}\n    key_pss = len(algebra) - 1\n    keyout_func = lambda kx, ky: key_pss - (kx ^ ky)")),
    ("one hodge factor missing", ("codegen", "        algebra.signs[pair[1], key_pss - pair[1]] *\n", "")),
    ("outer factor transposed", ("codegen", "algebra.signs[key_pss - pair[0], key_pss - pair[1]] *", "algebra.signs[key_pss - pair[1], key_pss - pair[0]] *")),
])
def rp_table(ctx):
    """a & b = unhodge(hodge(a) ^ hodge(b)) term by term on representative operands (DT with polynomial tokens)."""
    repo = ctx.repo
    reg = operator_registry(repo)
    cg = reg["rp"].codegen
    fn = ctx.func(f"codegen.{cg}")
    reps = dict(REPS)
    reps["2DPGA-like[0,+,+] full"] = ([0, 1, 1], tuple(range(8)), tuple(range(8)))
    reps["4D[0,+,+,-] full-shuffled"] = ([0, 1, 1, -1], tuple((k * 7) % 16 for k in range(16)), tuple((k * 11 + 3) % 16 for k in range(16)))
    reps["2D[+,-] full"] = ([1, -1], (2, 0, 3, 1), (1, 3, 0, 2))
    reps["3D vector & bivector (grades add up to d: scalar result)"] = ([1, 1, 1], (4, 1, 2), (6, 3, 5))
    reps["3D pseudoscalar & scalar"] = ([0, 1, 1], (7,), (0,))
    reps["4D bivector & bivector (scalar result)"] = ([0, 1, 1, -1], (3, 12, 5, 10, 6, 9), (9, 6, 10, 5, 12, 3))
    reps["3D plane & point & line, mixed"] = ([0, 1, 1], (1, 2, 4, 7), (3, 5, 6, 0))
    if ctx.tier == "thorough":
        reps["5D[+,+,-,0,+] sparse"] = ([1, 1, -1, 0, 1], (31, 3, 12, 17, 0, 6, 24, 21, 30, 15), (5, 10, 31, 16, 1, 14, 27, 28, 7))
    for name, (sig, xk, yk) in reps.items():
        c = f"codegen.{cg}#table:{name}"
        got = run_product(ctx, repo, cg, sig, xk, yk, c)
        compare_result(ctx, c, fn, got, rp_spec(sig, xk, yk), "regressive product vs unhodge(hodge(a) ^ hodge(b))")
    from .c02 import BASIS_REP
    name, sig, basis, xk, yk = BASIS_REP
    c = f"codegen.{cg}#table:{name}"
    got = run_product(ctx, repo, cg, sig, xk, yk, c, basis=basis)
    compare_result(ctx, c, fn, got, rp_spec(sig, xk, yk, basis), "regressive product vs unhodge(hodge(a) ^ hodge(b)) in a custom basis")
