"""C07 - Inverse and division are exact two-sided inverses wherever they return."""
from __future__ import annotations

import ast

from ..astx import un, NoValue, walk_shallow, call_name, enclosing, kwarg, Poly
from ..absint import Obj, Unk, PyFunc
from ..core import rule, fixture_for, Unknown
from ..optree import T
from fractions import Fraction
from ..symenv import tree_interp, make_interp
from .c11 import pow_table

INFO = {
    "id": "C07",
    "technique": "decision table of the dimension dispatch by abstract interpretation; operator-tree normal forms of the "
                 "closed-form numerators against the published Hitzer-Sangwine forms; structural denominator rule; "
                 "operand-order trees of division; raise-site scan for ZeroDivisionError",
    "explanation": "Clause-level. Decided: the dimension selector sends exactly d in {0..5} to the closed-form routine, "
                   "which handles each of them, and every d >= 6 to the iterative routine (no dimension reaches "
                   "NotImplementedError); in the closed-form routine the numerator is the Hitzer-Sangwine form for that "
                   "dimension (as a free-algebra normal form) and the denominator is the scalar coefficient of sp(x, num) "
                   "for that same numerator; a / b is gp(a, NUM(b)) times 1/denominator of b (left multiplication, same "
                   "pair); x ** n for negative n starts from the inverse; ZeroDivisionError is raised only under an "
                   "identically-zero denominator or a degenerate pseudoscalar. NOT decided: that the Hitzer forms make "
                   "x*num scalar (a published theorem, trusted), and anything about the arithmetic of Shirokov's "
                   "recursion beyond its dispatch.",
    "decided": ["C07.semantic", "C07.dispatch", "C07.closed-forms", "C07.shirokov-degree", "C07.div-order", "C07.pow", "C07.zero-division"],
    "not_decided": ["x * num is a scalar for the closed forms (Hitzer & Sangwine 2017, trusted)",
                    "correctness of the Shirokov iteration and of power_supply/AdditionChains for d >= 6"],
    "assumptions": ["Hitzer & Sangwine, 'Multivector and multivector matrix inverses in real Clifford algebras' (2017)"],
}


def hitzer_spec(d):
    x = T.var("x")
    if d == 0:
        return T.num(1)
    if d == 1:
        return x.involute()
    if d == 2:
        return x.conjugate()
    xc = x.conjugate()
    if d == 3:
        return xc.gp(x.gp(xc).reverse())
    if d == 4:
        xxc = x.gp(xc)
        return xc.gp(xxc.sub(T.opaque("grade", (xxc, 3, 4)).scale(2)))
    if d == 5:
        xxc = x.gp(xc)
        combo = xc.gp(xxc.reverse())
        xcombo = x.gp(combo)
        return combo.gp(xcombo.sub(T.opaque("grade", (xcombo, 1, 4)).scale(2)))
    return None


@rule("C07.dispatch", props=["C07"], min_instances=9, mutants=[
    ("selector sends d = 6 to the closed forms", ("codegen", "    if alg.d < 6:\n        num, denom = codegen_hitzer_inv(y, symbolic=True)", "    if alg.d < 7:\n        num, denom = codegen_hitzer_inv(y, symbolic=True)")),
    ("closed form for d = 5 dropped", ("codegen", "    elif d == 5:\n        xconj = x.conjugate()", "    elif d == 55:\n        xconj = x.conjugate()")),
    ("selector sends d = 5 to the iterative scheme", ("codegen", "    if alg.d < 6:\n        num, denom = codegen_hitzer_inv(y, symbolic=True)", "    if alg.d < 5:\n        num, denom = codegen_hitzer_inv(y, symbolic=True)")),
], rewrites=[
    ("selector as d <= 5", ("codegen", "    if alg.d < 6:\n        num, denom = codegen_hitzer_inv(y, symbolic=True)", "    if alg.d <= 5:\n        num, denom = codegen_hitzer_inv(y, symbolic=True)")),
])
def dispatch(ctx):
    """Every dimension reaches a routine that handles it (DT on d = 0..8)."""
    repo = ctx.repo
    q = "codegen.codegen_inv"
    fn = ctx.func(q)
    # does the iterative routine perform a true division (n * s / i)?  then its results are exact only to rounding
    divides = any(isinstance(n, ast.BinOp) and isinstance(n.op, ast.Div) for n in ast.walk(ctx.func("codegen.codegen_shirokov_inv")))
    for d in range(0, 9):
        c = f"{q}#d={d}"
        it = tree_interp(repo, d)
        called = []
        it.overrides["codegen.codegen_shirokov_inv"] = PyFunc(
            lambda *a, **k: (called.append("shirokov"), (T.var("ADJ"), T.scalar("DET")))[1], "shirokov", True)
        try:
            out = it.run(q, [T.var("x")], {"symbolic": True})
        except NoValue as exc:
            raise Unknown(c, str(exc), fn)
        if out[0] == "raise":
            ctx.violation(c, f"x.inv() in {d} dimensions raises {out[1]}: the selector sends this dimension to a routine "
                             f"that does not handle it", fn)
        elif d <= 5 and called and divides:
            ctx.violation(c, f"x.inv() in {d} dimensions is sent to the iterative scheme, which divides by its step number (float constants in "
                             f"the generated code): over exact coefficient types x*x.inv() is then 1 only to rounding - the property asks for the "
                             f"closed forms, and exactness, in up to five dimensions", fn)
        elif d <= 5 and called:
            ctx.ok(c, fn, routine="iterative (Shirokov), which performs no true division")
        else:
            ctx.ok(c, fn, routine="iterative (Shirokov)" if called else "closed form (Hitzer)")


@rule("C07.closed-forms", props=["C07", "C19"], min_instances=18, mutants=[
    ("d=4 selects grades (3,) only", ("codegen", "num = xconj * (x_xconj - 2 * x_xconj.grade(3, 4))", "num = xconj * (x_xconj - 2 * x_xconj.grade(3))")),
    ("d=3 without the reversion", ("codegen", "        num = xconj * ~(x * xconj)", "        num = xconj * (x * xconj)")),
    ("d=2 uses the reverse", ("codegen", "    elif d == 2:\n        num = x.conjugate()", "    elif d == 2:\n        num = x.reverse()")),
    ("single-grade fast path num = ~y", ("codegen", "    alg = y.algebra\n    if alg.d < 6:\n        num, denom = codegen_hitzer_inv(y, symbolic=True)", "    alg = y.algebra\n    if len(y.grades) == 1:\n        num = ~y\n        denom = (y.sp(num)).e\n    elif alg.d < 6:\n        num, denom = codegen_hitzer_inv(y, symbolic=True)")),
    ("d=5 grade set (1, 3)", ("codegen", "num = combo * (x_combo - 2 * x_combo.grade(1, 4))", "num = combo * (x_combo - 2 * x_combo.grade(1, 3))")),
])
def closed_forms(ctx):
    """The closed-form numerators are the Hitzer-Sangwine forms for d = 0..5 (OPT normal forms)."""
    repo = ctx.repo
    q = "codegen.codegen_hitzer_inv"
    fn = ctx.func(q)
    x = T.var("x")
    for d in range(0, 6):
        c = f"{q}#d={d}"
        it = tree_interp(repo, d)
        try:
            out = it.run(q, [x], {"symbolic": True})
        except NoValue as exc:
            raise Unknown(c, str(exc), fn)
        if out[0] == "raise":
            ctx.violation(c, f"closed-form inverse raises {out[1]} in {d} dimensions", fn)
            continue
        try:
            num, denom = out[1]
        except Exception:
            raise Unknown(c, f"returns {out[1]!r}", fn)
        if isinstance(num, (int, float)):
            num = T.num(num)
        if not isinstance(num, T):
            raise Unknown(c, f"numerator evaluates to {num!r}", fn)
        want = hitzer_spec(d)
        if num == want:
            ctx.ok(c, fn, numerator=repr(num))
        else:
            ctx.violation(c, f"the closed-form numerator in {d} dimensions denotes [{num!r}], the Hitzer-Sangwine form is "
                             f"[{want!r}]", fn, got=repr(num), expected=repr(want))
        # the same through the dispatcher, in both grade cells (a shortcut keyed on the operand's grades must
        # still produce an inverse: compare with the closed form)
        for cell in ((2,), (0, 2)):
            cq = f"codegen.codegen_inv#numerator,d={d},grades={cell}"
            it2 = tree_interp(repo, d)
            it2.tvar_facts = {"grades": {"x": cell}}
            try:
                out2 = it2.run("codegen.codegen_inv", [x], {"symbolic": True})
            except NoValue as exc:
                raise Unknown(cq, str(exc), fn)
            if out2[0] == "raise":
                ctx.violation(cq, f"x.inv() raises {out2[1]} in {d} dimensions for an operand of grades {cell}", fn)
                continue
            n2 = out2[1][0] if isinstance(out2[1], tuple) else None
            if isinstance(n2, (int, float)):
                n2 = T.num(n2)
            if not isinstance(n2, T):
                raise Unknown(cq, f"numerator evaluates to {n2!r}", fn)
            if n2 == want:
                ctx.ok(cq, fn)
            else:
                ctx.violation(cq, f"in {d} dimensions, for an operand of grades {cell}, x.inv() uses the numerator [{n2!r}] "
                                  f"instead of the closed form [{want!r}]: for a non-blade operand of that grade pattern "
                                  f"x * num is not a scalar, so the result is not an inverse", fn)
        # denominator: scalar coefficient of sp(x, num) for the same num
        want_den = T.scalar(("coef", T.opaque("sp", (x, num)).key(), "e"))
        c2 = f"{q}#denominator,d={d}"
        if isinstance(denom, T) and denom == want_den:
            ctx.ok(c2, fn, denominator="<x . num>_0 for the returned numerator")
        elif isinstance(denom, Unk):
            raise Unknown(c2, f"denominator evaluates to {denom!r}", fn)
        else:
            ctx.violation(c2, f"the denominator [{denom!r}] is not the scalar part of sp(x, num) for the returned numerator: "
                              f"num/denom is then not an inverse even when x*num is scalar", fn)


@rule("C07.shirokov-degree", props=["C07"], min_instances=6, mutants=[
    ("matrix size from the non-degenerate part only", ("codegen", "    n = 2 ** ((alg.d + 1) // 2)", "    n = 2 ** ((alg.p + alg.q + 1) // 2)")),
    ("matrix size rounds down", ("codegen", "    n = 2 ** ((alg.d + 1) // 2)", "    n = 2 ** (alg.d // 2)")),
])
def shirokov_degree(ctx):
    """The iterative inverse runs N = 2^ceil(d/2) steps (Shirokov: the degree of the characteristic polynomial in
    every Clifford algebra of dimension d, degenerate or not)."""
    import ast as _ast
    from ..astx import ceval, walk_shallow as _ws
    q = "codegen.codegen_shirokov_inv"
    fn = ctx.func(q)
    assigns = [n for n in _ws(fn) if isinstance(n, _ast.Assign) and len(n.targets) == 1 and isinstance(n.value, _ast.BinOp)
               and isinstance(n.value.op, _ast.Pow) and isinstance(n.value.left, _ast.Constant) and n.value.left.value == 2]
    if len(assigns) != 1:
        raise Unknown(q, "cannot find the single assignment of the iteration count n", fn)
    expr = assigns[0].value
    for (p_, q_, r_) in ((6, 0, 0), (4, 1, 1), (4, 0, 2), (3, 0, 3), (2, 0, 5), (4, 4, 0), (3, 3, 3)):
        d = p_ + q_ + r_
        c = f"{q}#n,signature=({p_},{q_},{r_})"
        env = {}
        for base in {un(a.value) for a in _ast.walk(expr) if isinstance(a, _ast.Attribute)}:
            env.update({f"{base}.d": d, f"{base}.p": p_, f"{base}.q": q_, f"{base}.r": r_})
        try:
            got = ceval(expr, env)
        except NoValue as exc:
            raise Unknown(c, f"iteration count {un(expr)} is not an arithmetic function of the dimensions: {exc}", assigns[0])
        want = 2 ** ((d + 1) // 2)
        if got == want:
            ctx.ok(c, assigns[0], n=got)
        else:
            ctx.violation(c, f"in R({p_},{q_},{r_}) the iteration runs n = {got} steps ({un(expr)}), but the characteristic "
                             f"polynomial has degree 2^ceil(d/2) = {want}: the recursion stops before the determinant is "
                             f"reached and the result is not an inverse", assigns[0])


@rule("C07.shirokov-recursion", props=["C07", "C13", "C19"], min_instances=5, mutants=[
    ("the last step is recognised by the stored grades only", ("codegen", "        if i == n or xi.grades == (0,):", "        if xi.grades == (0,):")),
    ("coefficient c_k without the factor n/k", ("codegen", "        cs.append(s if (s := xi.e) == 0 else n * s / i)", "        cs.append(s if (s := xi.e) == 0 else n * s)")),
    ("correction uses the wrong power", ("codegen", "            power_idx = i - j - 2", "            power_idx = i - j - 1 if i - j - 1 < len(powers) - 1 else i - j - 2")),
    ("adjugate with the sign of c flipped", ("codegen", "        adj = xs[-1] - cs[-1]", "        adj = xs[-1] + cs[-1]")),
    ("denominator is the previous scalar part", ("codegen", "    if symbolic:\n        return Fraction(adj, xi.e)\n    return alg.multivector({k: v / xi.e for k, v in adj.items()})", "    if symbolic:\n        return Fraction(adj, xs[-1].e)\n    return alg.multivector({k: v / xs[-1].e for k, v in adj.items()})")),
])
def shirokov_recursion(ctx):
    """The iterative inverse is the Faddeev-LeVerrier / Shirokov recursion U_1 = x, c_k = (n/k) <U_k>_0,
    U_{k+1} = x (U_k - c_k), result (U_{n-1} - c_{n-1}) / <U_n>_0 with n = 2^ceil(d/2): codegen_shirokov_inv is interpreted
    on an opaque operand (free-algebra normal forms, scalar parts as opaque scalars) and compared with the recursion.
    Trusted: U_n is a scalar (Cayley-Hamilton in the matrix representation) - the interpreter is told that the n-th U
    is of grade 0 and no earlier one is; in the "nothing filtered" cells every intermediate result reports all grades,
    as it does with simp_func=None (finding F15: the loop then ran one step too far and the inverse was 0)."""
    repo = ctx.repo
    q = "codegen.codegen_shirokov_inv"
    fn = ctx.func(q)
    x = T.var("x")
    for d, filtered in ((2, True), (3, True), (6, True), (3, False), (6, False)):
        # filtered: vanishing coefficients are removed from intermediate results (the default simp_func), so the n-th U
        # stores grade 0 only; not filtered (simp_func=None): every intermediate keeps all its grades
        c = f"{q}#recursion,d={d}" + ("" if filtered else ",nothing filtered (simp_func=None)")
        n = 2 ** ((d + 1) // 2)
        it = tree_interp(repo, d)
        seen = {"grades": 0}

        def hook(v, name, seen=seen, n=n, d=d, filtered=filtered):
            if isinstance(v, T) and name == "grades":
                seen["grades"] += 1
                return (0,) if (filtered and seen["grades"] == n) else tuple(range(d + 1))
            return NotImplemented
        it.attr_hook = hook
        it.t_truth = lambda t: bool(t.terms)
        it.t_generic = True
        try:
            out = it.run(q, [x], {"symbolic": True})
        except NoValue as exc:
            raise Unknown(c, str(exc), fn)
        if out[0] == "raise":
            ctx.violation(c, f"the iterative inverse raises {out[1]} in {d} dimensions", fn)
            continue
        try:
            num, denom = out[1]
        except Exception:
            raise Unknown(c, f"returns {out[1]!r}", fn)
        if not isinstance(num, T) or not isinstance(denom, T):
            raise Unknown(c, f"returns numerator {num!r}, denominator {denom!r}", fn)

        def S(t):
            return T.scalar(("coef", t.key(), "e"))
        powers = [x]
        for _ in range(n - 1):
            powers.append(powers[-1].gp(x))
        U, cs = [], []
        for k in range(1, n + 1):
            u = powers[k - 1]
            for j in range(1, k):
                u = u.sub(powers[k - j - 1].gp(cs[j - 1]))
            U.append(u)
            cs.append(S(u).scale(Fraction(n, k)))
        want_num = U[n - 2].sub(cs[n - 2]) if n > 1 else T.num(1)
        want_den = S(U[n - 1])
        problems = []
        if num != want_num:
            problems.append(f"numerator [{repr(num)[:160]}] is not U_{n - 1} - c_{n - 1} = [{repr(want_num)[:160]}]")
        if denom != want_den:
            problems.append(f"denominator [{repr(denom)[:120]}] is not the scalar part of U_{n}")
        if problems:
            ctx.violation(c, f"d={d}, n={n}: " + "; ".join(problems) + " (Shirokov: U_1 = x, c_k = n/k <U_k>_0, U_{k+1} = x (U_k - c_k))", fn)
        else:
            ctx.ok(c, fn, steps=n)


SEMANTIC_INV_REPS = [
    # signature (non-degenerate), stored blades
    ("scalar in 0-D", [], (0,)),
    ("full multivector in 1-D", [-1], (0, 1)),
    ("full multivector in 2-D", [1, -1], (0, 1, 2, 3)),
    ("vector in 3-D", [1, -1, 1], (1, 2, 4)),
    ("rotor-like in 3-D", [1, -1, 1], (0, 3, 5, 6)),
    ("full multivector in 3-D", [1, -1, 1], (5, 0, 3, 6, 1, 7, 2, 4)),
    ("non-simple bivector in 4-D (two blades)", [1, -1, 1, 1], (3, 12)),
    ("general bivector in 4-D", [1, -1, 1, 1], (3, 5, 6, 9, 10, 12)),
    ("scalar + pseudoscalar in 4-D", [1, -1, 1, 1], (0, 15)),
    ("vector + trivector in 4-D", [1, -1, 1, 1], (1, 8, 7, 14)),
    ("non-simple bivector in 5-D", [1, 1, -1, 1, 1], (3, 12, 17)),
    ("non-simple trivector in 5-D", [1, 1, -1, 1, 1], (7, 25)),
    ("scalar + quadvector in 5-D", [1, 1, -1, 1, 1], (0, 15, 30)),
    ("vector in 6-D", [1, 1, -1, 1, 1, 1], (1, 2, 32)),
    ("non-simple bivector in 6-D", [1, 1, -1, 1, 1, 1], (3, 12)),
    ("scalar + non-simple bivector in 6-D", [1, 1, -1, 1, 1, 1], (0, 3, 12, 48)),
]


@rule("C07.semantic", props=["C07", "C08", "C19"], min_instances=30, mutants=[
    ("a homogeneous operand is taken for a blade (numerator ~x)", ("codegen", "    if d == 0:\n        num = alg.blades.e\n    elif d == 1:", "    if d == 0:\n        num = alg.blades.e\n    elif len(x.grades) == 1:\n        num = ~x\n    elif d == 1:")),
    ("scalar + pseudoscalar shortcut (a - bI)/a**2", ("codegen", "    alg = y.algebra\n    if alg.d < 6:\n        num, denom = codegen_hitzer_inv(y, symbolic=True)", "    alg = y.algebra\n    if alg.d >= 4 and y.grades == (0, alg.d):\n        num = y.grade(0) - y.grade(alg.d)\n        denom = (y.grade(0) * y.grade(0)).e\n    elif alg.d < 6:\n        num, denom = codegen_hitzer_inv(y, symbolic=True)")),
    ("Faddeev-LeVerrier coefficient with integer division", ("codegen", "        cs.append(s if (s := xi.e) == 0 else n * s / i)", "        cs.append(s if (s := xi.e) == 0 else n // i * s)")),
])
def semantic_inverse(ctx):
    """The inverse generators interpreted from the source on representative operands with symbolic coefficients (operands of
    one grade that are NOT blades, mixed ones, full ones; non-degenerate signatures of dimension 0..6), every elementary
    operator answered by the specification: for the returned (numerator, denominator), x * numerator and numerator * x
    are the scalar `denominator` and nothing else, and the denominator is not identically zero - whatever shortcut the
    generator takes for operands of a special shape."""
    from ..specmv import attach_spec_operators, as_spec
    from ..products import PV, poly_of_value
    from ..symenv import mv_obj
    from .c02 import operands
    repo = ctx.repo
    for q in ("codegen.codegen_inv", "codegen.codegen_hitzer_inv", "codegen.codegen_shirokov_inv"):
        fn = ctx.func(q)
        for label, sig, xk in SEMANTIC_INV_REPS:
            d = len(sig)
            if q.endswith("hitzer_inv") and d > 5:
                continue                              # the closed forms exist up to five dimensions
            if q.endswith("shirokov_inv") and d in (4, 5) and len(xk) > 3:
                continue                              # keep the polynomial sizes of the iteration small
            c = f"{q}#semantic:{label}"
            alg, x, _ = operands(sig, xk, ())
            spec = attach_spec_operators(alg, sig)
            alg.attrs["blades"] = Obj("blades", {"e": mv_obj(alg, (0,), [PV(Poly.const(1), "atom")])})
            it = make_interp(repo)
            it.max_steps = 20_000_000
            it.algebra = alg
            it.instance_classes["algebra"] = "algebra.Algebra"
            try:
                out = it.run(q, [x], {"symbolic": True})
            except NoValue as exc:
                raise Unknown(c, str(exc), fn)
            if out[0] == "raise":
                ctx.violation(c, f"raises {out[1]} for an invertible operand ({label}, signature {sig})", fn)
                continue
            try:
                num, den = out[1]
            except (TypeError, ValueError):
                raise Unknown(c, f"returns {out[1]!r}", fn)
            n_, dp = as_spec(num), poly_of_value(den)
            if n_ is None or dp is None:
                raise Unknown(c, f"numerator {num!r} / denominator {den!r}", fn)
            xs = as_spec(x)
            problems = []
            if dp.is_zero():
                problems.append("the denominator is identically zero")
            for side, prod in (("x * numerator", spec.gp(xs, n_)), ("numerator * x", spec.gp(n_, xs))):
                rest = sorted(k for k in prod if k != 0)
                if rest:
                    problems.append(f"{side} has non-scalar parts on blades {[bin(k) for k in rest[:3]]}")
                elif prod.get(0, Poly()) != dp:
                    problems.append(f"{side} = {prod.get(0, Poly())!r} is not the denominator {dp!r}")
            if problems:
                ctx.violation(c, f"{label} (signature {sig}): " + "; ".join(problems[:2]) + ": numerator / denominator is not the inverse", fn)
            else:
                ctx.ok(c, fn)


@rule("C07.div-order", props=["C07", "C12", "C16"], min_instances=3, mutants=[
    ("division multiplies on the wrong side", ("codegen", "    num = num if x is None else x * num", "    num = num if x is None else num * x")),
    ("division inverts the left operand", ("codegen", "    num, denom = codegen_inv(y, x, symbolic=True)\n    if not denom:", "    num, denom = codegen_inv(x, y, symbolic=True)\n    if not denom:")),
    ("an empty left operand counts as no left operand", ("codegen", "    num = num if x is None else x * num", "    num = x * num if x else num")),
], rewrites=[
    ("an empty left operand is returned as it is", ("codegen", "    num = num if x is None else x * num", "    num = num if x is None else (x * num if x else x)")),
])
def div_order(ctx):
    """a / b = a * b.inv(): numerator gp(a, NUM(b)), denominator that of b (OPT + structure)."""
    repo = ctx.repo
    q = "codegen.codegen_inv"
    fn = ctx.func(q)
    x, y = T.var("x"), T.var("y")
    def mentions(t, name):
        return any(l[0] == "v" and l[1] == name or (l[0] == "o" and any(isinstance(a, T) and mentions(a, name) for a in l[2]))
                   for w in t.terms for l in w)

    def without(t, name):
        """The value of the tree when the variable is the empty multivector (= 0): every word it occurs in vanishes."""
        if any(l[0] == "o" and any(isinstance(a, T) and mentions(a, name) for a in l[2]) for w in t.terms for l in w):
            raise NoValue(f"{name} inside an opaque operator")
        return T({w: c for w, c in t.terms.items() if not any(l[0] == "v" and l[1] == name for l in w)}, t.cls)

    for d in (2, 3):
        it = tree_interp(repo, d)
        try:
            plain = it.run(q, [y], {"symbolic": True})
        except NoValue as exc:
            raise Unknown(q, str(exc), fn)
        # bool(x) of a multivector is "has stored blades": a branch on the truth value of the left operand is followed
        # both ways - non-empty x, and the empty multivector (whose quotient is 0)
        for nonempty in (True, False):
            c = f"{q}#with-left-operand,d={d}" + ("" if nonempty else ",empty left operand")
            it2 = tree_interp(repo, d)
            asked = []

            def t_truth(t, nonempty=nonempty, asked=asked):
                if t == x:
                    asked.append(1)
                    return nonempty
                raise NoValue("truth value of a multivector-typed value")
            it2.t_truth = t_truth
            try:
                withx = it2.run(q, [y, x], {"symbolic": True})
            except NoValue as exc:
                raise Unknown(c, str(exc), fn)
            if not nonempty and not asked:
                continue            # the function never looks at the truth value of x: covered by the first run
            if plain[0] != "return" or withx[0] != "return":
                raise Unknown(c, f"{plain} / {withx}", fn)
            (n0, d0), (n1, d1) = plain[1], withx[1]
            if not (isinstance(n0, T) and isinstance(n1, T)):
                raise Unknown(c, f"numerators {n0!r} / {n1!r}", fn)
            want = x.gp(n0)
            try:
                same = (n1 == want) if nonempty else (without(n1, "x") == without(want, "x"))
            except NoValue as exc:
                raise Unknown(c, str(exc), fn)
            if same and d0 == d1:
                ctx.ok(c, fn, numerator=repr(n1))
            else:
                ctx.violation(c, f"codegen_inv(y, x) has numerator [{n1!r}], expected x * NUM(y) = [{want!r}] with the "
                                 f"denominator of y" + ("" if nonempty else " (x the empty multivector, i.e. 0)") + ": a / b is not a * b.inv()", fn)
    # codegen_div passes (y, x) to codegen_inv and lists its arguments in operand order
    q2 = "codegen.codegen_div"
    fn2 = ctx.func(q2)
    calls = [c2 for c2 in walk_shallow(fn2) if isinstance(c2, ast.Call) and call_name(c2) == "codegen_inv"]
    ps = [a.arg for a in fn2.args.args]
    if len(calls) != 1 or len(calls[0].args) < 2:
        raise Unknown(q2, "does not call codegen_inv(y, x, ...)", fn2)
    a0, a1 = un(calls[0].args[0]), un(calls[0].args[1])
    if (a0, a1) == (ps[1], ps[0]):
        ctx.ok(q2 + "#inv-call", calls[0], call=un(calls[0]))
    else:
        ctx.violation(q2 + "#inv-call", f"codegen_div({ps[0]}, {ps[1]}) calls {un(calls[0])}: it must invert its right operand "
                                        f"{ps[1]} and multiply by its left operand {ps[0]}", calls[0])


@rule("C07.pow", props=["C07", "C19"], min_instances=8, mutants=[
    ("negative power multiplies by x", ("multivector", "        for i in range(1, power):\n            res = res.gp(x)", "        for i in range(1, power):\n            res = res.gp(self)")),
    ("negative power off by one", ("multivector", "            res = x = self.inv()\n            power *= -1", "            res = x = self.inv()\n            power = -power - 1")),
])
def pow_rule(ctx):
    """x ** n: 0 -> 1, n > 0 -> n-fold product, n < 0 -> |n|-fold product of the inverse, 0.5 -> sqrt (DT)."""
    pow_table(ctx, ctx.repo, "MultiVector", "multivector.MultiVector")


ZERO_DIV_SITES = {
    "codegen.codegen_div": "identically-zero denominator polynomial (`not denom`)",
    "codegen.codegen_polarity": "degenerate pseudoscalar (pss*pss = 0)",
}


@rule("C07.zero-division", props=["C07"], min_instances=2, mutants=[
    ("ZeroDivisionError when the denominator is non-zero", ("codegen", "    if not denom:\n        raise ZeroDivisionError", "    if denom:\n        raise ZeroDivisionError")),
    ("extra ZeroDivisionError site", ("codegen", "    alg = y.algebra\n    if alg.d < 6:", "    alg = y.algebra\n    if len(y.keys()) == 1 and alg.r:\n        raise ZeroDivisionError\n    if alg.d < 6:")),
])
def zero_division(ctx):
    """ZeroDivisionError is raised only under an identically-zero denominator or a degenerate pseudoscalar."""
    repo = ctx.repo
    for mname, qual, fn in repo.all_functions():
        for r in [n for n in walk_shallow(fn) if isinstance(n, ast.Raise) and n.exc is not None and "ZeroDivisionError" in un(n.exc)]:
            c = f"{qual}#raise-ZeroDivisionError"
            guard = enclosing(r, (ast.If,))
            if qual == "codegen.codegen_div":
                t = guard.test if guard is not None else None
                # the denominator is the second component of what codegen_inv returns
                denoms = set()
                for a in walk_shallow(fn):
                    if isinstance(a, ast.Assign) and isinstance(a.value, ast.Call) and call_name(a.value) == "codegen_inv":
                        tg = a.targets[0]
                        if isinstance(tg, ast.Tuple) and len(tg.elts) == 2 and isinstance(tg.elts[1], ast.Name):
                            denoms.add(tg.elts[1].id)
                        elif isinstance(tg, ast.Name):
                            denoms |= {f"{tg.id}[1]", f"{tg.id}.denom"}
                if t is not None and isinstance(t, ast.UnaryOp) and isinstance(t.op, ast.Not) and un(t.operand) in denoms and r in guard.body:
                    ctx.ok(c, r, module=mname, guard=un(t))
                elif t is not None and isinstance(t, ast.Compare) and un(t.left) in denoms and isinstance(t.ops[0], ast.Eq) \
                        and un(t.comparators[0]) == "0" and r in guard.body:
                    ctx.ok(c, r, module=mname, guard=un(t))
                elif not denoms:
                    raise Unknown(c, "cannot identify the denominator returned by codegen_inv", r)
                else:
                    ctx.violation(c, f"ZeroDivisionError is raised under {un(t) if t is not None else 'no guard'!r}, not under "
                                     f"'the denominator is identically zero': invertible operands are rejected (or "
                                     f"non-invertible ones accepted)", r, module=mname)
            elif qual == "codegen.codegen_polarity":
                ctx.ok(c, r, module=mname, guard=un(guard.test) if guard is not None else "", see="C05.polarity")
            else:
                ctx.violation(c, f"{qual} raises ZeroDivisionError; the statement allows it only for operands without an "
                                 f"inverse ({sorted(ZERO_DIV_SITES)})", r, module=mname)


@rule("C07.power-supply", props=["C07", "C17", "C11", "C13", "C19"], min_instances=3, mutants=[
    ("addition chain combines the wrong predecessors", ("codegen", "            powers[step] = operation(powers[chain[-2]], powers[step - chain[-2]])", "            powers[step] = operation(powers[chain[-2]], powers[chain[-2]])")),
    ("power table seeded with the square", ("codegen", "    powers = {1: x}\n    for step in exponents:", "    powers = {1: operation(x, x)}\n    for step in exponents:")),
])
def power_supply(ctx):
    """power_supply(x, n) ends in x^n and power_supply(x, (1..n)) yields x^1 .. x^n in order, through addition
    chains (words of the free monoid; the operation is the repository's own product on operator trees)."""
    from ..astx import NoValue as _NV
    repo = ctx.repo
    q = "codegen.power_supply"
    fn = ctx.func(q)
    x = T.var("x")

    def word(n):
        t = x
        for _ in range(n - 1):
            t = t.gp(x)
        return t
    bad = []
    for n in range(1, 25):
        it = tree_interp(repo, 3)
        it.plain_classes["AdditionChains"] = "codegen.AdditionChains"
        try:
            out = it.run(q, [x, n])
        except _NV as exc:
            raise Unknown(f"{q}#single", str(exc), fn)
        if out[0] == "raise" or not isinstance(out[1], list) or not out[1] or out[1][-1] != word(n):
            bad.append((n, out[1][-1] if out[0] == "return" and out[1] else out))
    if bad:
        ctx.violation(f"{q}#single", f"power_supply(x, n) does not end in x^n for n = {[b[0] for b in bad][:6]} (e.g. n = {bad[0][0]}: "
                                     f"{bad[0][1]!r})", fn)
    else:
        ctx.ok(f"{q}#single", fn, exponents="1..24")
    for n in (4, 8, 11):
        c = f"{q}#sequence(1..{n})"
        it = tree_interp(repo, 3)
        try:
            out = it.run(q, [x, tuple(range(1, n + 1))])
        except _NV as exc:
            raise Unknown(c, str(exc), fn)
        want = [word(k) for k in range(1, n + 1)]
        if out[0] == "return" and list(out[1]) == want:
            ctx.ok(c, fn)
        else:
            got = [repr(v) for v in out[1]] if out[0] == "return" else out
            ctx.violation(c, f"power_supply(x, (1, .., {n})) yields {got}, expected x^1 .. x^{n} in order: the iterative "
                             f"inverse subtracts the wrong powers", fn)


@rule("C07.lambdify-input", props=["C07"], min_instances=6, mutants=[
    ("inverse multiplies the numerator by the denominator", ("codegen", "    denom_inv = alg.scalar([1 / denom])\n    yinv = num * d.e", "    denom_inv = alg.scalar([denom])\n    yinv = num * d.e")),
    ("division lists its arguments as (y, x)", ("codegen", "    args = {'x': x.values(), 'y': y.values()}", "    args = {'y': y.values(), 'x': x.values()}")),
    ("division precomputes with the numerator's scalar", ("codegen", "    dependencies = list(zip(d.values(), denom_inv.values()))\n    return LambdifyInput(\n        funcname=f'div_", "    dependencies = list(zip(d.values(), alg.scalar([1 / num.e]).values()))\n    return LambdifyInput(\n        funcname=f'div_")),
])
def lambdify_input(ctx):
    """codegen_inv / codegen_div hand lambdify NUM * d with the single dependency d = 1/denominator of the same
    (numerator, denominator) pair, and list their operands in order."""
    from ..astx import NoValue as _NV
    repo = ctx.repo
    x, y = T.var("x"), T.var("y")
    for q, args, names in (("codegen.codegen_inv", [y], ["y"]), ("codegen.codegen_div", [x, y], ["x", "y"])):
        fn = ctx.func(q)
        for d, ylen in ((2, 3), (3, 3), (3, 1)):
            c = f"{q}#lambdify-input,d={d}" + (",single-blade operand" if ylen == 1 else "")
            it = tree_interp(repo, d, extra_attrs={"div": Obj("OperatorDict", {"codegen_symbolcls": Obj("symbolcls", {"fmt": "SYMBOLCLS"})})})
            it.t_truth = lambda t: bool(t.terms)
            it.tvar_facts = {"__len__": {"x": 4, "y": ylen}}      # how many blades the operands store
            ref = tree_interp(repo, d)
            ref.t_truth = it.t_truth       # the operands of this cell have stored blades; C07.div-order follows the empty one
            ref.tvar_facts = {"__len__": {"x": 4, "y": ylen}}
            try:
                out = it.run(q, list(args))
                pair = ref.run("codegen.codegen_inv", [y] + ([x] if len(args) == 2 else []), {"symbolic": True})
            except _NV as exc:
                raise Unknown(c, str(exc), fn)
            res = out[1] if out[0] == "return" else None
            if not (isinstance(res, Obj) and res.kind == "LambdifyInput") or pair[0] != "return":
                raise Unknown(c, f"returns {out!r}", fn)
            num, denom = pair[1]
            dsym = T.scalar(("sym", "d"))
            problems = []
            ed = res.attrs.get("expr_dict")
            got = list(ed.values())[0].attrs.get("of") if isinstance(ed, dict) and len(ed) == 1 and isinstance(list(ed.values())[0], Obj) else None
            if got != num.gp(dsym):
                problems.append(f"the emitted expression is [{got!r}], expected NUM * d = [{num.gp(dsym)!r}]")
            deps = res.attrs.get("dependencies")
            want_dep = T.opaque("recip", (denom,)) if False else None
            try:
                (lhs, rhs), = deps
            except Exception:
                lhs = rhs = None
                problems.append(f"dependencies {deps!r}, expected exactly one (d, 1/denominator)")
            if lhs is not None:
                if lhs != dsym:
                    problems.append(f"the precomputed symbol is {lhs!r}, expected d")
                if not (isinstance(rhs, Obj) and rhs.kind == "reciprocal" and rhs.attrs.get("of") == denom):
                    problems.append(f"d is bound to {rhs!r}, expected 1 / <x . num>_0 of the same numerator")
            a = res.attrs.get("args")
            if not (isinstance(a, dict) and list(a.keys()) == names):
                problems.append(f"arguments are listed as {list(a.keys()) if isinstance(a, dict) else a}, expected {names}")
            if problems:
                ctx.violation(c, "; ".join(problems), fn)
            else:
                ctx.ok(c, fn)
