"""C08 - Results do not depend on how an operand is stored (key-order provenance through the pipeline)."""
from __future__ import annotations

import ast

from ..astx import un, NoValue, walk_shallow, call_name, params
from ..absint import Raised, Obj, Unk, PyFunc, Closure, ClassRef
from ..core import rule, fixture_for, Unknown
from ..symenv import make_interp, rep_algebra, mv_obj
from ..surface import operator_registry

INFO = {
    "id": "C08",
    "technique": "order/position provenance by template extraction: abstract interpretation of the cache-miss path, "
                 "do_codegen, func_builder, lambdify and KingdonPrinter with opaque tokens, then structural analysis of the "
                 "emitted function source; positional-access scan over every codegen",
    "explanation": "Decided for the pipeline: on a cache miss each symbolic operand is created with exactly the "
                   "corresponding component of the cache key, unmodified and in operand order; do_codegen hands both "
                   "function builders the operands' own value sequences in operand order and the expressions paired with "
                   "the canonically re-sorted keys (a permutation - no key dropped); the source text emitted by "
                   "func_builder and by lambdify/KingdonPrinter unpacks parameter i into the names of operand i's values in "
                   "that operand's own storage order, evaluates dependencies before the return, and returns the "
                   "expressions in the order of the returned keys (with and without CSE, with and without dependencies); "
                   "call sites pass values in the order of the keys they looked up (C02.call-pairing); no codegen indexes "
                   "coefficients by position. The relation across two calls on one algebra object is history (C09).",
    "decided": ["C08.key-provenance", "C08.codegen-pipeline", "C08.emitted-source", "C08.no-positional-codegen",
                "C02.call-pairing", "C15.accessors"],
    "not_decided": ["that CPython's compile() of the emitted text means what the text says", "sympy's cse() itself"],
    "assumptions": ["sympy.cse returns replacements and reduced expressions in the order of its input list"],
}


def tok(name, **extra):
    a = {"fmt": name, "name": name}
    a.update(extra)
    return Obj("token", a)


def tname(v):
    if isinstance(v, Obj) and "name" in v.attrs and v.kind in ("token", "function"):
        return v.attrs["name"]
    if isinstance(v, (tuple, list)):
        return type(v)(tname(x) for x in v)
    if isinstance(v, dict):
        return {tname(k): tname(x) for k, x in v.items()}
    return v


# --------------------------------------------------------------------------- cache-miss path
GETITEMS = {"operator_dict.OperatorDict.__getitem__": ("OperatorDict", 2, "do_codegen"),
            "operator_dict.UnaryOperatorDict.__getitem__": ("UnaryOperatorDict", 1, "do_codegen"),
            "operator_dict.Registry.__getitem__": ("Registry", 2, "do_compile")}


KEY0, KEY1 = (4, 1, 2), (3, 6, 5)


def run_getitem(repo, qual, wrapper=False):
    kind, n, gen = GETITEMS[qual]
    log = {"created": [], "generated": [], "wrapped": []}

    def multivector(*args, **kwargs):
        k = kwargs.get("keys", args[1] if len(args) > 1 else None)
        o = Obj("MultiVector", {"_keys": k, "name": f"SYM{len(log['created'])}"})
        log["created"].append({"name": kwargs.get("name"), "keys": tname(k), "symbolcls": tname(kwargs.get("symbolcls"))})
        return o

    def tape(*args, **kwargs):
        vals = dict(zip(["algebra", "expr", "keys"], args))
        vals.update(kwargs)
        o = Obj("TapeRecorder", {"_keys": vals.get("keys"), "expr": vals.get("expr")})
        log["created"].append({"name": vals.get("expr"), "keys": tname(vals.get("keys")), "symbolcls": None})
        return o

    func = Obj("function", {"__name__": "generated_fn", "name": "FUNC"})

    def generate(codegen, *mvs):
        log["generated"].append({"codegen": tname(codegen), "operand_keys": [tname(m.attrs.get("_keys")) if isinstance(m, Obj) else m for m in mvs]})
        return (tok("KEYS_OUT"), func)
    wrapped = Obj("function", {"__name__": "wrapped", "name": "WRAPPED"})

    def wrap(f):
        log["wrapped"].append(tname(f))
        return wrapped
    numspace = {}
    alg = Obj("algebra", {"wrapper": Obj("wrapper", call=wrap) if wrapper else None, "numspace": numspace},
              {"multivector": multivector})
    cache = {}
    me = Obj(kind, {"algebra": alg, "operator_dict": cache, "codegen": tok("CODEGEN"), "codegen_symbolcls": tok("SYMBOLCLS")})
    it = make_interp(repo)
    it.instance_classes.update({"OperatorDict": "operator_dict.OperatorDict", "UnaryOperatorDict": "operator_dict.UnaryOperatorDict",
                                "Registry": "operator_dict.Registry"})
    it.overrides[f"operator_dict.{gen}"] = PyFunc(generate, gen, True)
    prev = it.class_call_hook

    def cch(name, args, kwargs):
        if name == "TapeRecorder":
            return tape(*args, **kwargs)
        return prev(name, args, kwargs)
    it.class_call_hook = cch
    # concrete key patterns in NON-canonical storage order (so that re-ordering them is visible)
    key = (KEY0, KEY1) if n == 2 else KEY0
    out = it.run(qual, [me, key])
    log.update({"out": out, "cache": cache, "numspace": numspace, "key": key, "func": func, "wrapped_obj": wrapped})
    # second lookup must hit
    log["generated_before_second"] = len(log["generated"])
    out2 = it.run(qual, [me, key])
    log["out2"] = out2
    return log


def run_getitem_sequence(repo, qual):
    """Four look-ups on one dictionary object (generators stubbed): key A (miss), key A again, a key that was put into
    the cache by hand beforehand, key B.  Returns generation counts and what the cache holds."""
    kind, n, gen = GETITEMS[qual]
    count = {"n": 0}

    def generate(codegen, *mvs):
        count["n"] += 1
        return (tok(f"KEYS_OUT{count['n']}"), Obj("function", {"__name__": f"generated_fn{count['n']}", "name": f"FUNC{count['n']}"}))

    def multivector(*args, **kwargs):
        return Obj("MultiVector", {"_keys": kwargs.get("keys")})
    alg = Obj("algebra", {"wrapper": None, "numspace": {}}, {"multivector": multivector})
    keyA = (KEY0, KEY1) if n == 2 else KEY0
    keyB = ((1, 2), (4,)) if n == 2 else (1, 2)
    keyP = ((7,), (0, 7)) if n == 2 else (7, 0)
    pre = (tok("KEYS_PRE"), Obj("function", {"__name__": "pre_fn", "name": "PRE"}))
    cache = {keyP: pre}
    me = Obj(kind, {"algebra": alg, "operator_dict": cache, "codegen": tok("CODEGEN"), "codegen_symbolcls": tok("SYMBOLCLS")})
    it = make_interp(repo)
    it.instance_classes.update({"OperatorDict": "operator_dict.OperatorDict", "UnaryOperatorDict": "operator_dict.UnaryOperatorDict",
                                "Registry": "operator_dict.Registry"})
    it.overrides[f"operator_dict.{gen}"] = PyFunc(generate, gen, True)
    prev = it.class_call_hook
    it.class_call_hook = lambda name, args, kwargs: Obj("TapeRecorder", {"_keys": kwargs.get("keys")}) if name == "TapeRecorder" else prev(name, args, kwargs)
    log = {"key": keyA}
    out1 = it.run(qual, [me, keyA])
    if out1[0] == "raise":
        return {"raised": out1[1]}
    g1 = count["n"]
    log["cache_keys_after_first"] = [k for k in cache if k != keyP]
    log["stored_under_key"] = keyA in cache and cache.get(keyA) is out1[1]
    out2 = it.run(qual, [me, keyA])
    g2 = count["n"]
    log["second_is_entry"] = out2[0] == "return" and out2[1] is cache.get(keyA)
    out3 = it.run(qual, [me, keyP])
    log["prepopulated_generated"] = count["n"] != g2
    log["prepopulated_is_entry"] = out3[0] == "return" and out3[1] is pre
    g3 = count["n"]
    out4 = it.run(qual, [me, keyB])
    if out4[0] == "raise":
        return {"raised": out4[1]}
    log["generations"] = [g1, g2, count["n"] - (g3 - g2)]
    log["both_present"] = keyA in cache and keyB in cache and keyP in cache
    log["cache_size_after_other"] = len(cache) - 1
    # 5: the blades of key A in ANOTHER storage order: a different key pattern (the generated function unpacks its operands by position)
    keyR = (tuple(reversed(KEY0)), KEY1) if n == 2 else tuple(reversed(KEY0))
    g4 = count["n"]
    out5 = it.run(qual, [me, keyR])
    log["reordered_key"] = keyR
    if out5[0] == "raise":
        log["reordered"] = f"raises {out5[1]}"
    elif out5[1] is cache.get(keyA):
        log["reordered"] = "answered with the entry of the other order"
    elif count["n"] != g4 + 1:
        log["reordered"] = f"{count['n'] - g4} generations"
    else:
        log["reordered"] = "ok"
    return log


@rule("C08.key-provenance", props=["C08", "C10", "C13", "C02", "C04", "C11"], min_instances=6, mutants=[
    ("operands created with sorted keys", ("operator_dict", "            mv = self.algebra.multivector(name='a', keys=keys_in, symbolcls=self.codegen_symbolcls)", "            mv = self.algebra.multivector(name='a', keys=tuple(sorted(keys_in)), symbolcls=self.codegen_symbolcls)")),
    ("binary operands created in reversed order", ("operator_dict", "                   for name, keys in zip(string.ascii_lowercase, keys_in)]\n            keys_out, func = do_codegen", "                   for name, keys in zip(string.ascii_lowercase, reversed(keys_in))]\n            keys_out, func = do_codegen")),
    ("both operands share one name", ("operator_dict", "            mvs = [self.algebra.multivector(name=name, keys=keys, symbolcls=self.codegen_symbolcls)", "            mvs = [self.algebra.multivector(name='a', keys=keys, symbolcls=self.codegen_symbolcls)")),
])
def key_provenance(ctx):
    """On a cache miss every symbolic operand gets its own component of the cache key, unmodified, in order (ORD)."""
    repo = ctx.repo
    for qual, (kind, n, gen) in GETITEMS.items():
        fn = ctx.func(qual)
        for wrapper in (False, True):
            c = f"{qual}#miss,wrapper={'set' if wrapper else 'None'}"
            try:
                log = run_getitem(repo, qual, wrapper)
            except NoValue as exc:
                raise Unknown(c, str(exc), fn)
            if log["out"][0] == "raise":
                ctx.violation(c, f"the cache-miss path raises {log['out'][1]}", fn)
                continue
            want_keys = [KEY0, KEY1][:n]
            problems = []
            got_keys = [cr["keys"] for cr in log["created"]]
            if got_keys != want_keys:
                problems.append(f"symbolic operands are created with keys {got_keys}, the cache key is {want_keys}")
            names = [cr["name"] for cr in log["created"]]
            if len(set(names)) != len(names):
                problems.append(f"operands share a symbol name {names}: their coefficients are the same symbols")
            if kind != "Registry" and any(cr["symbolcls"] != "SYMBOLCLS" for cr in log["created"]):
                problems.append("operands are not created with the operator's codegen_symbolcls")
            if len(log["generated"]) < 1 or log["generated"][0]["operand_keys"] != want_keys:
                problems.append(f"{gen} receives operands with keys {log['generated'][0]['operand_keys'] if log['generated'] else None}")
            elif log["generated"][0]["codegen"] != "CODEGEN":
                problems.append(f"{gen} is not given this operator's codegen")
            entry = log["cache"].get(log["key"])
            if not (isinstance(entry, tuple) and len(entry) == 2 and tname(entry[0]) == "KEYS_OUT" and entry[1] is log["func"]):
                problems.append(f"the cache entry under the looked-up key is {tname(entry)!r}, expected (keys_out, func) of this generation")
            fname = log["func"].attrs.get("__name__")
            stored = log["numspace"].get(fname)
            if wrapper and stored is not log["wrapped_obj"]:
                problems.append("with a wrapper set, the name space does not hold wrapper(func) under func.__name__")
            if wrapper and log["wrapped"] != ["FUNC"]:
                problems.append(f"the wrapper is applied to {log['wrapped']}, expected exactly once to the generated function")
            if not wrapper and stored is not log["func"]:
                problems.append("without a wrapper, the name space does not hold the generated function under func.__name__")
            if log["out"][1] is not entry:
                problems.append("the lookup does not return the stored cache entry")
            if len(log["generated"]) != log["generated_before_second"] or log["out2"][1] is not entry:
                problems.append("a second lookup with the same key generates again or returns another entry")
            if problems:
                ctx.violation(c, "; ".join(problems), fn)
            else:
                ctx.ok(c, fn, created=log["created"])


@rule("C08.symbolic-operand-order", props=["C08", "C02", "C03", "C04", "C05", "C06", "C07"], min_instances=5, mutants=[
    ("symbolic operands always canonical", ("multivector", "            keys = algebra.indices_for_grades[grades] if not keys else keys\n            values = list(symbolcls", "            keys = tuple(k for k in algebra.indices_for_grades[grades] if not keys or k in keys)\n            values = list(symbolcls")),
])
def symbolic_operand_order(ctx):
    """The symbolic operand created for a cache miss stores its keys in exactly the order of the key pattern, and
    names each symbol after the blade of its own key (real constructor, not a stub)."""
    from ..absint import ClassRef
    from ..symenv import Val, val_repr
    repo = ctx.repo
    q = "multivector.MultiVector.__new__"
    fn = ctx.func(q)
    for label, keys, want in (("3-D shuffled", (6, 1, 7, 3), ["a23", "a1", "a123", "a12"]), ("binary-order full 2-D", (0, 1, 2, 3), ["a", "a1", "a2", "a12"]),
                              ("complete grade, permuted", (4, 1, 2), ["a3", "a1", "a2"]),
                              ("binary-order full 3-D", tuple(range(8)), ["a", "a1", "a2", "a12", "a3", "a13", "a23", "a123"]),
                              ("two complete grades, reversed", (6, 5, 3, 4, 2, 1), ["a23", "a13", "a12", "a3", "a2", "a1"])):
        c = f"{q}#symbolic:{label}"
        alg = rep_algebra(3 if max(keys) > 3 else 2)
        it = make_interp(repo)
        it.algebra = alg
        symcls = Obj("symbolcls", call=lambda name, *a, **k: Val(str(name)))
        try:
            out = it.run(q, [ClassRef("MultiVector"), alg], {"name": "a", "keys": keys, "symbolcls": symcls})
        except NoValue as exc:
            raise Unknown(c, str(exc), fn)
        if out[0] == "raise" or not isinstance(out[1], Obj):
            ctx.violation(c, f"creating the symbolic operand for key pattern {keys} gives {out[0]} {out[1]!r}", fn)
            continue
        got_keys = tuple(out[1].attrs.get("_keys", ()))
        got_vals = [val_repr(v) if isinstance(v, Obj) else v for v in out[1].attrs.get("_values", [])]
        if got_keys == keys and got_vals == want:
            ctx.ok(c, fn, keys=keys, symbols=want)
        else:
            ctx.violation(c, f"the symbolic operand created for key pattern {keys} stores keys {got_keys} with symbols "
                             f"{got_vals} (expected {keys} / {want}): the function generated for this pattern unpacks its "
                             f"argument in another order than the operand's values are passed, so coefficients land on "
                             f"the wrong blades for non-canonically stored operands", fn)


# --------------------------------------------------------------------------- do_codegen pipeline
def run_do_codegen(repo, res_kind, cse):
    alg = rep_algebra(3, extra_attrs={"cse": cse})
    x = mv_obj(alg, (4, 1, 7), [tok("x3"), tok("x1"), tok("x123")])
    y = mv_obj(alg, (2, 0), [tok("y2"), tok("y")])
    captured = {}

    def lambdify(args, exprs, **kw):
        captured["lambdify"] = {"args": args, "exprs": exprs, **kw}
        return Obj("function", {"__name__": kw.get("funcname"), "name": "LAMBDIFIED"})

    def func_builder(res_vals, *mvs, **kw):
        captured["func_builder"] = {"res": res_vals, "mvs": mvs, **kw}
        return (tuple(res_vals.keys()), Obj("function", {"__name__": kw.get("funcname"), "name": "BUILT"}))
    if res_kind == "dict-str":
        result = {5: "E13", 0: "E", 3: "E12", 4: "E3"}          # non-canonical order: canonical is 0, 4, 3, 5
    elif res_kind == "dict-tok":
        result = {5: tok("E13"), 0: tok("E"), 3: tok("E12"), 4: tok("E3")}
    elif res_kind == "mv":
        result = mv_obj(alg, (5, 0, 3, 4), [tok("E13"), tok("E"), tok("E12"), tok("E3")])
    else:
        raise ValueError(res_kind)
    codegen = Obj("function", {"__name__": "codegen_stub", "name": "CODEGEN"}, call=lambda *a: result)
    it = make_interp(repo)
    it.algebra = alg
    it.overrides["codegen.lambdify"] = PyFunc(lambdify, "lambdify", True)
    it.overrides["codegen.func_builder"] = PyFunc(func_builder, "func_builder", True)
    out = it.run("codegen.do_codegen", [codegen, x, y])
    return out, captured, x, y


@rule("C08.codegen-pipeline", props=["C08", "C02", "C06", "C13", "C11"], min_instances=5, mutants=[
    ("expressions reversed against keys", ("codegen", "    keys, exprs = tuple(res.keys()), list(res.values())", "    keys, exprs = tuple(res.keys()), list(reversed(list(res.values())))")),
    ("argument values of the operands swapped", ("codegen", "args = {arg_name: arg.values() for arg_name, arg in zip(string.ascii_uppercase, mvs)}", "args = {arg_name: arg.values() for arg_name, arg in zip(string.ascii_uppercase, reversed(mvs))}")),
    ("canonical re-sort drops the scalar", ("codegen", "for canon, bin in algebra.canon2bin.items() if bin in res.keys()}", "for canon, bin in algebra.canon2bin.items() if bin and bin in res.keys()}")),
    ("cse arm recomputes keys unsorted", ("codegen", "        return func_builder(res, *mvs, funcname=funcname)", "        return func_builder(dict(sorted(res.items(), reverse=True)), *mvs[::-1], funcname=funcname)")),
])
def codegen_pipeline(ctx):
    """do_codegen: keys = canonical permutation of the codegen's keys, expressions paired, operands in order, for
    both builders (cse on / off)."""
    repo = ctx.repo
    q = "codegen.do_codegen"
    fn = ctx.func(q)
    want_pairs = {0: "E", 4: "E3", 3: "E12", 5: "E13"}
    want_order = [0, 4, 3, 5]
    for res_kind, cse in (("dict-str", True), ("dict-str", False), ("dict-tok", True), ("dict-tok", False), ("mv", True)):
        c = f"{q}#{res_kind},cse={cse}"
        try:
            out, cap, x, y = run_do_codegen(repo, res_kind, cse)
        except NoValue as exc:
            raise Unknown(c, str(exc), fn)
        if out[0] == "raise":
            ctx.violation(c, f"do_codegen raises {out[1]}", fn)
            continue
        problems = []
        res = out[1]
        keys = res.attrs.get("keys_out") if isinstance(res, Obj) else (res[0] if isinstance(res, tuple) else None)
        if keys is None:
            raise Unknown(c, f"do_codegen returns {res!r}", fn)
        keys = list(keys)
        if "func_builder" in cap:
            b = cap["func_builder"]
            pairs = {k: tname(v) for k, v in b["res"].items()}
            order = list(b["res"].keys())
            operands_ok = len(b["mvs"]) == 2 and b["mvs"][0] is x and b["mvs"][1] is y
            builder = "func_builder"
        elif "lambdify" in cap:
            l = cap["lambdify"]
            order = keys
            pairs = dict(zip(keys, [tname(e) for e in l["exprs"]]))
            a = l["args"]
            operands_ok = isinstance(a, dict) and len(a) == 2 and list(a.values())[0] is x.attrs["_values"] \
                and list(a.values())[1] is y.attrs["_values"]
            builder = "lambdify"
            if l.get("cse") is not cse:
                problems.append(f"lambdify is called with cse={l.get('cse')!r} although the algebra has cse={cse}")
        else:
            raise Unknown(c, "neither builder was called", fn)
        if sorted(order) != sorted(want_order):
            problems.append(f"keys {order} are not a permutation of the codegen's keys {sorted(want_pairs)} (a blade is dropped or added)")
        elif order != want_order or keys != want_order:
            problems.append(f"returned keys {keys} / builder order {order} are not the canonical order {want_order}")
        if pairs != want_pairs:
            problems.append(f"expressions are paired with keys as {pairs}, the codegen produced {want_pairs}")
        if not operands_ok:
            problems.append(f"{builder} does not receive the operands (their own value sequences) in operand order")
        if problems:
            ctx.violation(c, "; ".join(problems), fn, builder=builder)
        else:
            ctx.ok(c, fn, builder=builder, keys=keys)


@rule("C08.pipeline-passthrough", props=["C08", "C13", "C07", "C05"], min_instances=4, mutants=[
    ("dependencies reach lambdify only with cse", ("codegen", "    func = lambdify(args, exprs, funcname=funcname, cse=algebra.cse, dependencies=dependencies)", "    func = lambdify(args, exprs, funcname=funcname, cse=algebra.cse, dependencies=dependencies if algebra.cse else None)")),
    ("empty operands skip the code generator", ("codegen", "    algebra = mvs[0].algebra\n\n    res = codegen(*mvs)\n", "    algebra = mvs[0].algebra\n\n    if not any(len(mv) for mv in mvs):\n        return CodegenOutput(tuple(), lambda *args: list())\n    res = codegen(*mvs)\n")),
])
def pipeline_passthrough(ctx):
    """do_codegen hands what a composite code generator prepared (function name, arguments, precomputed
    dependencies) to lambdify unchanged, with cse on and off, and always runs the code generator - also for operands
    that store no blade at all - so that what the generator raises (ZeroDivisionError for a degenerate metric) reaches
    the caller."""
    from ..absint import ClassRef
    repo = ctx.repo
    q = "codegen.do_codegen"
    fn = ctx.func(q)
    for cse in (True, False):
        c = f"{q}#prepared-input,cse={cse}"
        alg = rep_algebra(3, extra_attrs={"cse": cse})
        x = mv_obj(alg, (4, 1, 7), [tok("x3"), tok("x1"), tok("x123")])
        deps = [(tok("d"), tok("DENOM_INV"))]
        args = {"x": x.attrs["_values"]}
        captured = {}

        def lambdify(a, exprs, **kw):
            captured.update({"args": a, "exprs": exprs, **kw})
            return Obj("function", {"__name__": kw.get("funcname"), "name": "LAMBDIFIED"})
        it = make_interp(repo)
        it.algebra = alg
        it.overrides["codegen.lambdify"] = PyFunc(lambdify, "lambdify", True)
        try:
            prepared = it.call(ClassRef("LambdifyInput"), [], {"funcname": "inv_7", "args": args, "expr_dict": {3: tok("E12"), 0: tok("E")}, "dependencies": deps})
            it.plain_classes.setdefault("LambdifyInput", "codegen.LambdifyInput")
            codegen = Obj("function", {"__name__": "codegen_stub", "name": "CODEGEN"}, call=lambda *a: prepared)
            out = it.run(q, [codegen, x])
        except NoValue as exc:
            raise Unknown(c, str(exc), fn)
        if out[0] == "raise" or not captured:
            ctx.violation(c, f"do_codegen {out[0]}s {out[1]!r} without calling lambdify", fn)
            continue
        problems = []
        if captured.get("dependencies") is not deps and captured.get("dependencies") != deps:
            problems.append(f"lambdify receives dependencies={captured.get('dependencies')!r}, the generator prepared {[(str(a), str(b)) for a, b in deps]}: "
                            f"the emitted function uses a name that is never computed")
        if captured.get("funcname") != "inv_7":
            problems.append(f"funcname {captured.get('funcname')!r} instead of the prepared 'inv_7'")
        if captured.get("args") is not args:
            problems.append("the prepared arguments are not passed on")
        if captured.get("cse") is not cse:
            problems.append(f"cse={captured.get('cse')!r} although the algebra has cse={cse}")
        if [tname(e) for e in captured.get("exprs", [])] != ["E", "E12"]:
            problems.append(f"expressions {[tname(e) for e in captured.get('exprs', [])]} instead of the canonical order ['E', 'E12']")
        if problems:
            ctx.violation(c, "; ".join(problems), fn)
        else:
            ctx.ok(c, fn)
    for label, raises in (("empty operands, generator returns", None), ("empty operands, generator raises", "ZeroDivisionError")):
        c = f"{q}#{label}"
        alg = rep_algebra(3, extra_attrs={"cse": True})
        x = mv_obj(alg, (), [])
        called = []

        def stub(*a, raises=raises, called=called):
            called.append(1)
            if raises:
                raise Raised(raises)
            return {}
        it = make_interp(repo)
        it.algebra = alg
        it.overrides["codegen.lambdify"] = PyFunc(lambda a, e, **kw: Obj("function", {"__name__": kw.get("funcname"), "name": "LAMBDIFIED"}), "lambdify", True)
        try:
            out = it.run(q, [Obj("function", {"__name__": "codegen_stub", "name": "CODEGEN"}, call=stub), x])
        except NoValue as exc:
            raise Unknown(c, str(exc), fn)
        if not called:
            ctx.violation(c, "the code generator is not run for an operand that stores no blade: what it would raise (ZeroDivisionError in a "
                             "degenerate algebra) is replaced by an empty result", fn)
        elif raises and out != ("raise", raises):
            ctx.violation(c, f"the generator raises {raises} but do_codegen gives {out!r}", fn)
        else:
            ctx.ok(c, fn)


# --------------------------------------------------------------------------- emitted source
def emitted_structure(src: str):
    tree = ast.parse(src)
    fns = [n for n in tree.body if isinstance(n, ast.FunctionDef)]
    if len(fns) != 1:
        return None
    f = fns[0]
    info = {"name": f.name, "params": [a.arg for a in f.args.args], "unpack": {}, "assigns": [], "ret": None, "order": []}
    for st in f.body:
        if isinstance(st, ast.Assign) and len(st.targets) == 1 and isinstance(st.targets[0], (ast.List, ast.Tuple)) \
                and isinstance(st.value, ast.Name):
            info["unpack"][st.value.id] = [un(e) for e in st.targets[0].elts]
            info["order"].append(("unpack", st.value.id))
        elif isinstance(st, ast.Assign) and len(st.targets) == 1 and isinstance(st.targets[0], ast.Name) \
                and isinstance(st.value, ast.Name) and st.value.id in info["params"] and st.value.id not in info["unpack"]:
            # `a = A` is not an unpacking: the name is bound to the whole sequence of coefficients
            info["unpack"][st.value.id] = f"<{st.targets[0].id} bound to the whole sequence {st.value.id}, nothing unpacked>"
            info["order"].append(("unpack", st.value.id))
        elif isinstance(st, ast.Assign) and len(st.targets) == 1 and isinstance(st.targets[0], ast.Name):
            info["assigns"].append((st.targets[0].id, un(st.value)))
            info["order"].append(("assign", st.targets[0].id))
        elif isinstance(st, ast.Return):
            v = st.value
            info["ret"] = [un(e) for e in v.elts] if isinstance(v, (ast.List, ast.Tuple)) else un(v)
            info["order"].append(("return", None))
        elif isinstance(st, ast.Expr) and isinstance(st.value, ast.Constant):
            continue
        else:
            info["order"].append(("other", un(st)))
    return info


def capture_stubs(it, sources):
    def compile_(src, filename, mode):
        sources.append(src)
        return Obj("code", {"source": src})

    def exec_(code, g=None, l=None):
        src = code.attrs["source"]
        tree = ast.parse(src)
        for n in tree.body:
            if isinstance(n, ast.FunctionDef) and isinstance(l, dict):
                l[n.name] = Obj("function", {"__name__": n.name, "name": "EMITTED", "source": src})
        return None
    it.builtins["compile"] = PyFunc(compile_, "compile", True)
    it.builtins["exec"] = PyFunc(exec_, "exec", True)
    it.builtins["callable"] = PyFunc(lambda x: isinstance(x, (Closure, PyFunc, ClassRef)) or (isinstance(x, Obj) and x.call is not None), "callable", True)
    printer = Obj("LambdaPrinterInstance", {"doprint": PyFunc(lambda e: e if isinstance(e, str) else e.attrs["fmt"] if isinstance(e, Obj) else str(e), "doprint", True)})
    lp = Obj("LambdaPrinter", call=lambda *a, **k: printer)
    it.standins["sympy.printing.lambdarepr.LambdaPrinter"] = lp
    it.standins["sympy.simplify.cse_main.cse"] = PyFunc(lambda exprs, **k: ([], list(exprs)), "cse", True)
    it.standins["linecache"] = Obj("module:linecache", {"cache": {}})


def check_source(ctx, c, fn, src, funcname, operand_names, exprs, deps):
    info = emitted_structure(src)
    if info is None:
        ctx.violation(c, f"emitted source is not a single function definition: {src!r}", fn)
        return
    problems = []
    if info["name"] != funcname:
        problems.append(f"function is named {info['name']!r}, expected {funcname!r}")
    if len(info["params"]) != len(operand_names):
        problems.append(f"{len(info['params'])} parameters for {len(operand_names)} operands")
    for p, names in zip(info["params"], operand_names):
        got = info["unpack"].get(p)
        if names and got != names:
            problems.append(f"parameter {p} is unpacked into {got}, operand stores its values in the order {names}: "
                            f"coefficients are bound to the wrong symbols")
    ret = info["ret"]
    if ret != exprs and not (not exprs and ret in ("list()", "[]", [], "()")):
        problems.append(f"returns {ret}, expected the expressions in key order {exprs}")
    emitted_deps = [(l, r) for l, r in info["assigns"]]
    if [(l, r.replace(" ", "")) for l, r in emitted_deps] != [(l, r.replace(" ", "")) for l, r in deps]:
        problems.append(f"dependency assignments {emitted_deps}, expected {deps}")
    kinds = [k for k, _ in info["order"]]
    if "return" in kinds and kinds.index("return") != len(kinds) - 1:
        problems.append("statements after the return")
    if "assign" in kinds and "unpack" in kinds and min(i for i, k in enumerate(kinds) if k == "assign") < max(
            i for i, k in enumerate(kinds) if k == "unpack"):
        problems.append("a dependency is computed before the arguments are unpacked")
    if problems:
        ctx.violation(c, "; ".join(problems) + f" | emitted: {src!r}", fn)
    else:
        ctx.ok(c, fn, emitted=src)


@rule("C08.emitted-source", props=["C08", "C02", "C13", "C12", "C11", "C06", "C07"], min_instances=9, mutants=[
    ("one zero expression zeroes the whole result", ("codegen", "    if not any(_exprs):", "    if not all(_exprs):")),
    ("func_builder unpacks sorted names", ("codegen", "            body += f'    [{\", \".join(str(v) for v in mv.values())}] = {arg}\\n'", "            body += f'    [{\", \".join(sorted(str(v) for v in mv.values()))}] = {arg}\\n'")),
    ("func_builder unpacks without the list brackets (a single name is bound to the whole sequence)", ("codegen", "            body += f'    [{\", \".join(str(v) for v in mv.values())}] = {arg}\\n'", "            body += f'    {\", \".join(str(v) for v in mv.values())} = {arg}\\n'")),
    ("func_builder pairs operands with reversed parameters", ("codegen", "        for mv, arg in zip(mvs, args):", "        for mv, arg in zip(mvs, reversed(args)):")),
    ("lambdify slices exprs/dependencies wrongly after cse", ("codegen", "_exprs, _rhsides = _all_exprs[:-len(rhsides)], _all_exprs[len(exprs):]", "_exprs, _rhsides = _all_exprs[:len(rhsides)], _all_exprs[len(exprs):]")),
    ("printer emits dependencies after the return value is built", ("codegen", "        funcbody.extend(unpackings)\n\n        for s, e in cses:", "        for s, e in ():")),
    ("argument names bound to reversed values", ("codegen", "    iterable_args = tuple(args.values())", "    iterable_args = tuple(reversed(list(args.values())))")),
])
def emitted_source(ctx):
    """The function text emitted by func_builder and by lambdify/KingdonPrinter unpacks operand i in its own value
    order, evaluates dependencies first and returns the expressions in key order."""
    repo = ctx.repo
    alg = rep_algebra(3)
    xv = [tok("a3"), tok("a1"), tok("a123")]
    yv = [tok("b2"), tok("b")]
    x = mv_obj(alg, (4, 1, 7), xv)
    y = mv_obj(alg, (2, 0), yv)
    # func_builder
    q = "codegen.func_builder"
    fn = ctx.func(q)
    x1 = mv_obj(alg, (4,), [tok("a3")])
    for label, res in (("two operands", {0: "a1*b+a3*b2", 4: "-a123*b2", 3: "a1*b2"}), ("empty result", {}),
                       ("single-blade operand", {6: "a3*b2", 4: "a3*b"})):
        c = f"{q}#{label}"
        it = make_interp(repo)
        sources = []
        capture_stubs(it, sources)
        single = label == "single-blade operand"
        try:
            out = it.run(q, [dict(res), x1 if single else x, y], {"funcname": "gp_1_x_2"})
        except NoValue as exc:
            raise Unknown(c, str(exc), fn)
        if out[0] == "raise" or not sources:
            ctx.violation(c, f"func_builder {out[0]} {out[1]!r} without emitting source", fn)
            continue
        keys = out[1].attrs.get("keys_out") if isinstance(out[1], Obj) else None
        if keys is not None and list(keys) != list(res.keys()):
            ctx.violation(c, f"func_builder returns keys {list(keys)} for expressions keyed {list(res.keys())}", fn)
            continue
        import ast as _ast
        want_exprs = [_ast.unparse(_ast.parse(e, mode="eval").body) for e in res.values()]
        check_source(ctx, c, fn, sources[-1], "gp_1_x_2", ([["a3"], ["b2", "b"]] if single else [["a3", "a1", "a123"], ["b2", "b"]]) if res else [[], []],
                     want_exprs, [])
    # lambdify + KingdonPrinter
    q = "codegen.lambdify"
    fn = ctx.func(q)
    exprs = [tok("E0"), tok("E4"), tok("E3")]
    deps = [(tok("d"), tok("DENOM_INV"))]
    for cse in (False, True):
        for with_deps in (False, True):
            c = f"{q}#cse={cse},dependencies={'yes' if with_deps else 'no'}"
            it = make_interp(repo)
            sources = []
            capture_stubs(it, sources)
            kwargs = {"funcname": "inv_7", "cse": cse}
            if with_deps:
                kwargs["dependencies"] = list(deps)
            try:
                out = it.run(q, [{"A": list(xv), "B": list(yv)}, list(exprs)], kwargs)
            except NoValue as exc:
                raise Unknown(c, str(exc), fn)
            if out[0] == "raise" or not sources:
                ctx.violation(c, f"lambdify {out[0]} {out[1]!r} without emitting source", fn)
                continue
            check_source(ctx, c, fn, sources[-1], "inv_7", [["a3", "a1", "a123"], ["b2", "b"]], ["E0", "E4", "E3"],
                         [("d", "DENOM_INV")] if with_deps else [])
    # an explicit numeric zero next to non-zero expressions (a symbolic multivector that stores a 0), and all zeros
    for label, ex, want in (("one zero expression", [0, tok("E4"), tok("E3")], ["0", "E4", "E3"]),
                            ("all expressions zero", [0, 0], ["0", "0"])):
        c = f"{q}#{label}"
        it = make_interp(repo)
        sources = []
        capture_stubs(it, sources)
        try:
            out = it.run(q, [{"A": list(xv)}, list(ex)], {"funcname": "call_7", "cse": False})
        except NoValue as exc:
            raise Unknown(c, str(exc), fn)
        if out[0] == "raise" or not sources:
            ctx.violation(c, f"lambdify {out[0]} {out[1]!r} without emitting source", fn)
            continue
        check_source(ctx, c, fn, sources[-1], "call_7", [["a3", "a1", "a123"]], want, [])
    # an operand that stores one coefficient is still unpacked (a one-element pattern, not a plain name)
    for cse in (False, True):
        c = f"{q}#single-blade operand,cse={cse}"
        it = make_interp(repo)
        sources = []
        capture_stubs(it, sources)
        try:
            out = it.run(q, [{"A": [tok("a3")], "B": list(yv)}, [tok("E0"), tok("E4")]], {"funcname": "gp_4", "cse": cse})
        except NoValue as exc:
            raise Unknown(c, str(exc), fn)
        if out[0] == "raise" or not sources:
            ctx.violation(c, f"lambdify {out[0]} {out[1]!r} without emitting source", fn)
            continue
        check_source(ctx, c, fn, sources[-1], "gp_4", [["a3"], ["b2", "b"]], ["E0", "E4"], [])
    # string expressions with dependencies (the sqrt path)
    c = f"{q}#string-exprs"
    it = make_interp(repo)
    sources = []
    capture_stubs(it, sources)
    try:
        out = it.run(q, [{"x": list(xv)}, ["c + a3", "a1*c2_inv"]],
                     {"funcname": "sqrt_9", "cse": True, "dependencies": [(tok("c"), "(a3**0.5)"), (tok("c2_inv"), "0.5 / (a3**0.5)")]})
    except NoValue as exc:
        raise Unknown(c, str(exc), fn)
    if out[0] == "raise" or not sources:
        ctx.violation(c, f"lambdify {out[0]} {out[1]!r} without emitting source", fn)
    else:
        check_source(ctx, c, fn, sources[-1], "sqrt_9", [["a3", "a1", "a123"]], ["c + a3", "a1 * c2_inv"],
                     [("c", "a3 ** 0.5"), ("c2_inv", "0.5 / a3 ** 0.5")])


# --------------------------------------------------------------------------- no positional access in codegens
@rule("C08.no-positional-codegen", props=["C08", "C14"], min_instances=29, mutants=[
    ("codegen peeks at the first stored value", ("codegen", "def codegen_neg(x):\n    return {k: -v for k, v in x.items()}", "def codegen_neg(x):\n    return {k: -v if v is not x.values()[0] else -v for k, v in x.items()}")),
    ("add pairs coefficients positionally", ("codegen", "def codegen_add(x, y):\n    vals = dict(x.items())", "def codegen_add(x, y):\n    if len(x) == len(y):\n        return {k: a + b for k, a, b in zip(x.keys(), x.values(), y.values())}\n    vals = dict(x.items())")),
])
def no_positional_codegen(ctx):
    """No registry codegen indexes coefficients by position or zips the value sequences of two operands (OWN)."""
    repo = ctx.repo
    reg = operator_registry(repo)
    seen = set()
    work = [row.codegen for row in reg.values()] + ["codegen_product", "codegen_involutions", "codegen_hitzer_inv",
                                                    "codegen_shirokov_inv"]
    while work:
        name = work.pop()
        if name in seen or not repo.has(f"codegen.{name}"):
            continue
        seen.add(name)
        fn = ctx.func(f"codegen.{name}")
        ps = params(fn)
        c = f"codegen.{name}"
        bad = None
        for n in ast.walk(fn):
            if isinstance(n, ast.Subscript):
                v = n.value
                if (isinstance(v, ast.Call) and isinstance(v.func, ast.Attribute) and v.func.attr in ("values", "keys") and not v.args) \
                        or (isinstance(v, ast.Attribute) and v.attr in ("_values", "_keys")):
                    if not isinstance(getattr(n, "_parent", None), ast.Assign) or n not in getattr(n._parent, "targets", []):
                        bad = (n, f"positional access {un(n)}")
            if isinstance(n, ast.Call) and call_name(n) == "zip":
                srcs = set()
                for a in n.args:
                    if isinstance(a, ast.Call) and isinstance(a.func, ast.Attribute) and a.func.attr in ("values", "items", "keys") \
                            and isinstance(a.func.value, ast.Name):
                        srcs.add(a.func.value.id)
                    elif isinstance(a, ast.Attribute) and a.attr in ("_values", "_keys") and isinstance(a.value, ast.Name):
                        srcs.add(a.value.id)
                if len(srcs & set(ps)) >= 2:
                    bad = (n, f"{un(n)} pairs the value sequences of two different operands by position")
            if isinstance(n, ast.Call) and isinstance(n.func, ast.Name) and n.func.id.startswith("codegen_"):
                work.append(n.func.id)
        if bad:
            ctx.violation(c, f"{name}: {bad[1]} - coefficients must be addressed by key (items(), blade attribute, grade) "
                             f"so that the storage order of an operand cannot change the result", bad[0])
        else:
            ctx.ok(c, fn)
