"""C19 - exp, outer exponentials, sqrt, powers and norms obey their identities."""
from __future__ import annotations

import ast
import re
from fractions import Fraction
from math import factorial

from ..astx import un, NoValue, Poly, walk_shallow, call_name, enclosing
from ..absint import Obj, Unk, PyFunc, Closure
from ..core import rule, fixture_for, Unknown
from ..optree import T
from ..products import spec_sign, PV, pv_atom, poly_of_value, sign_table_obj
from ..symenv import make_interp, rep_algebra
from .c11 import norm_trees

INFO = {
    "id": "C19",
    "technique": "abstract interpretation of the outer-exponential recurrence with polynomial coefficient tokens against "
                 "the checker's own sum of wedge powers / k!; decision table of exp's branch selection with symbolic "
                 "function tokens; operator-tree normal forms for norm/normalized/**; truthiness taint of coefficients "
                 "on numeric paths",
    "explanation": "Clause-level. Decided: codegen_outerexp on representative operands (generic bivector in 5-D and 6-D, "
                   "vector in 3-D, symbolic coefficients) returns exactly sum_k x^(wedge k)/k! (so the recurrence W_j = "
                   "W_{j-1}^x / j, its start values, its bound and its termination are right), outersin/outercos are its "
                   "odd/even parts and outertan is outersin/outercos; exp selects, by the sign/type of x*x, the hyperbolic "
                   "family with sqrt(x2), the constant family, or the trigonometric family with sqrt(-x2), and combines "
                   "them as x*sinhc(l) + cosh(l); x**n is the decision table of C07.pow; norm = sqrt(normsq), normalized = "
                   "x/norm. FINDING (recorded): exp calls the truthiness-based default filter on x*x for numeric operands, "
                   "which raises for array-valued coefficients. NOT decided: the numerical power-series identities, the "
                   "Study-number formula assembled as text in codegen_sqrt, domains.",
    "decided": ["C19.outerexp", "C19.outertrig", "C19.sqrt", "C19.exp-branches", "C19.no-truthiness", "C19.norm", "C07.pow"],
    "not_decided": ["that the Study-number formula is a square root numerically (only its structure c, 1/(2c), <a^2-(bI)^2> is compared)", "floating-point accuracy and domain boundaries",
                    "that the selected scalar functions satisfy the power-series identities (trusted numpy/sympy)"],
    "assumptions": ["outer product of blades is the table sign between disjoint blades (C01, C03)"],
}


# --------------------------------------------------------------------------- spec arithmetic on coefficient dicts
def wedge(a, b, d):
    sig = [1] * d
    res = {}
    for ka, va in a.items():
        for kb, vb in b.items():
            if ka & kb:
                continue
            s = spec_sign(ka, kb, sig)
            k = ka | kb
            res[k] = res.get(k, Poly()) + va * vb * Poly.const(s)
    return {k: v for k, v in res.items() if not v.is_zero()}


def add(a, b):
    res = dict(a)
    for k, v in b.items():
        res[k] = res.get(k, Poly()) + v
    return res


def spec_mv(alg, coeffs, log=None):
    """Multivector stand-in whose ^ + / are the checker's own specification arithmetic."""
    keys = tuple(coeffs)
    o = Obj("MultiVector", {"algebra": alg, "_keys": keys, "_values": tuple(PV(coeffs[k], "sum") for k in keys)})

    def current(x):
        if isinstance(x, Obj) and x.kind == "MultiVector":
            vals = [poly_of_value(v) for v in x.attrs["_values"]]
            if any(v is None for v in vals):
                return None
            return dict(zip(x.attrs["_keys"], vals))
        if isinstance(x, (int, Fraction)) and not isinstance(x, bool):
            return {0: Poly.const(x)}
        if isinstance(x, float) and Fraction(x).denominator in (1, 2, 4, 8, 16):
            return {0: Poly.const(Fraction(x))}           # 0.5, 0.25, ...: exactly representable
        return None

    def signed(sign_of_grade):
        a = current(o)
        if a is None:
            return Unk("mv involution")
        return spec_mv(alg, {k: v * Poly.const(sign_of_grade(bin(k).count("1"))) for k, v in a.items()}, log)
    o.methods["reverse"] = lambda: signed(lambda g: -1 if (g * (g - 1) // 2) % 2 else 1)
    o.methods["involute"] = lambda: signed(lambda g: -1 if g % 2 else 1)
    o.methods["conjugate"] = lambda: signed(lambda g: -1 if (g * (g + 1) // 2) % 2 else 1)
    o.methods["unop"] = lambda op: signed(lambda g: -1) if op == "USub" else (o if op == "UAdd" else signed(lambda g: -1 if (g * (g - 1) // 2) % 2 else 1) if op == "Invert" else Unk("mv unop"))

    def grade(*grades):
        gs = grades[0] if len(grades) == 1 and isinstance(grades[0], tuple) else grades
        a = current(o)
        if a is None:
            return Unk("grade")
        return spec_mv(alg, {k: v for k, v in a.items() if bin(k).count("1") in gs}, log)
    o.methods["grade"] = grade

    def binop(op, other, refl):
        a, b = current(o), current(other)
        if a is None or b is None:
            return Unk("mv arithmetic")
        if refl:
            a, b = b, a
        d = alg.attrs["d"]
        if op == "BitXor":
            return spec_mv(alg, wedge(a, b, d), log)
        if op == "Add":
            return spec_mv(alg, add(a, b), log)
        if op == "Sub":
            return spec_mv(alg, add(a, {k: -v for k, v in b.items()}), log)
        if op == "Mult" and (set(a) <= {0} or set(b) <= {0}):
            # a product with a scalar (the geometric product in general needs a metric the outer functions do not use)
            sc, mv_ = (a, b) if set(a) <= {0} else (b, a)
            f = sc.get(0, Poly())
            return spec_mv(alg, {k: v * f for k, v in mv_.items()}, log)
        if op == "Div":
            if log is not None:
                log.append(("div", a, b))
            return Obj("MultiVector", {"algebra": alg, "_keys": ("QUOTIENT",), "_values": ("QUOTIENT",), "quotient": (a, b)})
        return Unk(f"mv {op}")
    o.methods["binop"] = binop
    return o


def outer_algebra(d):
    alg = rep_algebra(d)

    def scalar(*args, **kwargs):
        vals = args[0] if args else kwargs.get("values")
        return spec_mv(alg, {0: Poly.const(Fraction(vals[0]))})
    alg.methods["scalar"] = scalar
    return alg


def outerexp_spec(x, d, parity=None):
    total = {}
    term = {0: Poly.const(1)}
    for k in range(0, d + 1):
        if k > 0:
            term = wedge(term, x, d)
            if not term:
                break
        scaled = {key: v * Poly.const(Fraction(1, factorial(k))) for key, v in term.items()}
        if parity is None or k % 2 == parity:
            total = add(total, scaled)
    return {k: v for k, v in total.items() if not v.is_zero()}


OUTER_REPS = {
    "bivector in 5-D": (5, [k for k in range(32) if bin(k).count("1") == 2]),
    "bivector in 6-D": (6, [k for k in range(64) if bin(k).count("1") == 2]),
    "vector in 3-D": (3, [1, 2, 4]),
    "bivector in 4-D (shuffled)": (4, [12, 3, 10, 5, 6, 9]),
    "vector in 1-D": (1, [1]),
    "quadvector in 5-D": (5, [15, 23, 27, 29, 30]),
    "trivector in 6-D": (6, [k for k in range(64) if bin(k).count("1") == 3]),
}


ZERO_PADDED = {"bivector in 4-D, zero-padded to the even layout": (4, [0, 3, 5, 6, 9, 10, 12, 15], {0, 15}),
               "vector in 3-D, zero-padded to the full layout": (3, list(range(8)), {0, 3, 5, 6, 7})}


def run_outer(ctx, repo, cg, d, keys, c, zero=()):
    fn = ctx.func(f"codegen.{cg}")
    alg = outer_algebra(d)
    coeffs = {k: (Poly() if k in zero else Poly.atom(f"a{k}")) for k in keys}
    x = spec_mv(alg, coeffs)
    log = []
    x2 = spec_mv(alg, coeffs, log)
    it = make_interp(repo)
    it.algebra = alg
    try:
        out = it.run(f"codegen.{cg}", [x2])
    except NoValue as exc:
        raise Unknown(c, str(exc), fn)
    return fn, out, coeffs, log


def as_coeffs(v):
    if isinstance(v, Obj) and v.kind == "MultiVector" and "quotient" not in v.attrs:
        vals = [poly_of_value(p) for p in v.attrs["_values"]]
        if any(p is None for p in vals):
            return None
        return {k: p for k, p in zip(v.attrs["_keys"], vals) if not p.is_zero()}
    return None


@rule("C19.outerexp", props=["C19", "C08"], min_instances=7, rewrites=[
    ("strict bound (equivalent for pure grades >= 1: the d-th wedge power of such an element vanishes)", ("codegen", "    while j <= k:\n        Wj = Ws[-1] ^ x", "    while j < k:\n        Wj = Ws[-1] ^ x")),
], mutants=[
    ("series bound from the stored grades", ("codegen", "    k = alg.d\n", "    k = alg.d // (max(x.grades, default=0) or 1)\n")),
    ("divide by j + 1", ("codegen", "        Wj._values = tuple(v / j for v in Wj._values)", "        Wj._values = tuple(v / (j + 1) for v in Wj._values)")),
    ("series truncated after the quadratic term", ("codegen", "    while j <= k:\n        Wj = Ws[-1] ^ x", "    while j < 3:\n        Wj = Ws[-1] ^ x")),
    ("recurrence wedges with the previous term", ("codegen", "        Wj = Ws[-1] ^ x\n", "        Wj = Ws[-1] ^ Ws[-1]\n")),
    ("j not advanced", ("codegen", "            Ws.append(Wj)\n            j += 1", "            Ws.append(Wj)\n            j += 2")),
])
def outerexp(ctx):
    """outerexp(x) = sum_k x^(wedge k) / k! on representative operands with symbolic coefficients (VF)."""
    repo = ctx.repo
    for name, (d, keys) in OUTER_REPS.items():
        c = f"codegen.codegen_outerexp#{name}"
        fn, out, coeffs, _ = run_outer(ctx, repo, "codegen_outerexp", d, keys, c)
        if out[0] == "raise":
            ctx.violation(c, f"raises {out[1]}", fn)
            continue
        got = as_coeffs(out[1])
        if got is None:
            raise Unknown(c, f"returns {out[1]!r}", fn)
        want = outerexp_spec(coeffs, d)
        if got == want:
            ctx.ok(c, fn, blades=len(want))
        else:
            wrong = [k for k in set(got) | set(want) if got.get(k) != want.get(k)]
            k0 = sorted(wrong)[0]
            ctx.violation(c, f"outerexp of a {name} differs from sum_k x^k/k! on {len(wrong)} blade(s), e.g. blade {k0:#b}: "
                             f"got {got.get(k0)!r}, expected {want.get(k0)!r}", fn)
    # the same element stored with explicit zeros for other blades must give the same result (C08)
    for name, (d, keys, zero) in ZERO_PADDED.items():
        c = f"codegen.codegen_outerexp#{name}"
        fn, out, coeffs, _ = run_outer(ctx, repo, "codegen_outerexp", d, keys, c, zero)
        if out[0] == "raise":
            ctx.violation(c, f"raises {out[1]}", fn)
            continue
        got = as_coeffs(out[1])
        if got is None:
            raise Unknown(c, f"returns {out[1]!r}", fn)
        want = outerexp_spec({k: v for k, v in coeffs.items() if not v.is_zero()}, d)
        if got == want:
            ctx.ok(c, fn, blades=len(want))
        else:
            wrong = sorted(k for k in set(got) | set(want) if got.get(k) != want.get(k))
            ctx.violation(c, f"outerexp of a {name} differs from the result for the sparse storage of the same element on "
                             f"blades {[bin(k) for k in wrong[:4]]}: the series is cut off according to which blades are "
                             f"stored, not which are non-zero", fn)


@rule("C19.outertrig", props=["C19"], min_instances=12, mutants=[
    ("outersin as the part of outerexp that flips under conjugation (right for vectors and bivectors only)", ("codegen", "    odd_Ws = codegen_outerexp(x, asterms=True)[1::2]\n    outersin = reduce(operator.add, odd_Ws)", "    outerexp = codegen_outerexp(x)\n    outersin = 0.5 * (outerexp - outerexp.conjugate())")),
    ("outercos selects the terms by grade 0, 4, 8", ("codegen", "    even_Ws = codegen_outerexp(x, asterms=True)[0::2]\n    outercos = reduce(operator.add, even_Ws)\n    return outercos", "    outerexp = codegen_outerexp(x)\n    return outerexp.grade(*range(0, x.algebra.d + 1, 4))")),
    ("outersin takes the even terms", ("codegen", "    odd_Ws = codegen_outerexp(x, asterms=True)[1::2]", "    odd_Ws = codegen_outerexp(x, asterms=True)[0::2]")),
    ("outercos skips the scalar 1", ("codegen", "    even_Ws = codegen_outerexp(x, asterms=True)[0::2]", "    even_Ws = codegen_outerexp(x, asterms=True)[2::2]")),
    ("outertan is cos / sin", ("codegen", "    outertan = outersin / outercos", "    outertan = outercos / outersin")),
])
def outertrig(ctx):
    """outersin / outercos are the odd / even parts of outerexp, outertan = outersin / outercos."""
    repo = ctx.repo
    for name in ("bivector in 6-D", "vector in 3-D", "quadvector in 5-D", "trivector in 6-D"):
        d, keys = OUTER_REPS[name]
        for cg, parity in (("codegen_outersin", 1), ("codegen_outercos", 0)):
            c = f"codegen.{cg}#{name}"
            fn, out, coeffs, _ = run_outer(ctx, repo, cg, d, keys, c)
            if out[0] == "raise":
                ctx.violation(c, f"raises {out[1]}", fn)
                continue
            got = as_coeffs(out[1])
            if got is None:
                raise Unknown(c, f"returns {out[1]!r}", fn)
            want = outerexp_spec(coeffs, d, parity)
            if got == want:
                ctx.ok(c, fn, blades=len(want))
            else:
                ctx.violation(c, f"{cg[8:]} of a {name} is not the {'odd' if parity else 'even'} part of the outer "
                                 f"exponential: got blades {sorted(got)}, expected {sorted(want)}", fn)
        c = f"codegen.codegen_outertan#{name}"
        try:
            fn, out, coeffs, log = run_outer(ctx, repo, "codegen_outertan", d, keys, c)
            if out[0] == "return" and isinstance(out[1], Unk):
                raise Unknown(c, f"evaluates to {out[1]!r}", fn)       # e.g. a geometric product, which needs a metric
        except Unknown:
            # not evaluable: still decidable is the necessary condition that outertan takes a (geometric) inverse or
            # quotient at all - outersin * <something built with the outer product only> is not outersin / outercos
            from ..astx import inline_self_calls, walk_shallow as _ws
            tfn = inline_self_calls(repo, "codegen", ctx.func("codegen.codegen_outertan"))
            divides = any(isinstance(n, ast.BinOp) and isinstance(n.op, ast.Div) for n in ast.walk(tfn)) or any(
                isinstance(n, ast.Call) and (call_name(n) or "").split(".")[-1] in ("inv", "div", "__truediv__", "codegen_inv", "codegen_div")
                for n in ast.walk(tfn))
            if not divides:
                ctx.violation(c, "outertan is computed without any quotient or inverse of outercos (outersin * <an expression built with "
                                 "other products>): for operands whose outercos is not 1 + <nilpotent of square 0> this is not "
                                 "outersin * inverse(outercos)", ctx.func("codegen.codegen_outertan"))
                continue
            raise
        if out[0] == "raise":
            ctx.violation(c, f"raises {out[1]}", fn)
            continue
        q = out[1].attrs.get("quotient") if isinstance(out[1], Obj) else None
        if q is None:
            raise Unknown(c, f"returns {out[1]!r}", fn)
        num = {k: v for k, v in q[0].items() if not v.is_zero()}
        den = {k: v for k, v in q[1].items() if not v.is_zero()}
        if num == outerexp_spec(coeffs, d, 1) and den == outerexp_spec(coeffs, d, 0):
            ctx.ok(c, fn)
        else:
            ctx.violation(c, "outertan is not outersin / outercos (numerator must be the odd part, denominator the even "
                             f"part of the outer exponential): numerator blades {sorted(num)}, denominator blades {sorted(den)}", fn)


# --------------------------------------------------------------------------- sqrt of a Study number
@rule("C19.sqrt", props=["C19", "C13", "C08"], min_instances=3, mutants=[
    ("no case for the multivector that stores no blade", ("codegen", "    if not len(x):\n        return {}  # The square root of the multivector that stores no blade is that multivector.\n", "")),
    ("Study norm from x * ~x", ("codegen", "        normS = (a * a - bI * bI).e", "        normS = (x * ~x).e")),
    ("half-angle factor dropped", ("codegen", "        cp = f'(0.5 * ({str(a.e)} + ({str(normS)})**0.5)) ** 0.5'", "        cp = f'(({str(a.e)} + ({str(normS)})**0.5)) ** 0.5'")),
    ("the Study norm is written into the formula without brackets of its own", ("codegen", "        cp = f'(0.5 * ({str(a.e)} + ({str(normS)})**0.5)) ** 0.5'", "        cp = f'(0.5 * ({str(a.e)} + {str(normS)}**0.5)) ** 0.5'")),
    ("non-scalar part scaled by c instead of 1/(2c)", ("codegen", "    dI = bI * c2_inv", "    dI = bI * c")),
    ("the norm is printed through a method only the default symbol class has", ("codegen", "({str(normS)})**0.5)) ** 0.5'", "({str(normS.tosympy())})**0.5)) ** 0.5'")),
])
def sqrt_rule(ctx):
    """codegen_sqrt of a Study number a + bI emits c = sqrt((a + sqrt(a^2 - (bI)^2))/2), result c + bI/(2c);
    a scalar gives its plain square root (template extraction; the formula text itself is compared structurally)."""
    from ..symenv import tree_interp
    repo = ctx.repo
    q = "codegen.codegen_sqrt"
    fn = ctx.func(q)
    x = T.var("x")
    # scalar cell
    it = tree_interp(repo, 3)
    # a multivector that stores no blade: its square root is that multivector (nothing to compute, nothing to divide by)
    it0 = tree_interp(repo, 3)
    it0.tvar_facts = {"grades": {"x": ()}, "__len__": {"x": 0}}
    it0.t_truth = lambda t: bool(t.terms)
    c = f"{q}#no stored blade"
    try:
        out0 = it0.run(q, [x])
    except NoValue as exc:
        raise Unknown(c, str(exc), fn)
    if out0 == ("return", {}):
        ctx.ok(c, fn)
    elif out0[0] == "return" and isinstance(out0[1], Obj) and out0[1].kind == "LambdifyInput":
        ctx.violation(c, "sqrt of a multivector that stores no blade goes through the Study-number formulas: they divide by the square root "
                         "of its (absent) scalar part, the generated code contains 0.5/0 evaluated at generation time (`nan`) and raises NameError, "
                         "while the same element stored with explicit zeros gives 0", fn)
    else:
        raise Unknown(c, f"gives {out0!r}", fn)
    it.tvar_facts = {"grades": {"x": (0,)}, "__len__": {"x": 1}}
    it.t_truth = lambda t: bool(t.terms)
    c = f"{q}#scalar"
    try:
        out = it.run(q, [x])
    except NoValue as exc:
        raise Unknown(c, str(exc), fn)
    scalar_out = out[1] if out[0] == "return" else None
    xe = T.scalar(("coef", x.key(), "e"))
    want = f"(<<{xe!r}>>**0.5)"
    def _tree(t):
        names = {}
        for h in re.findall(r"<<<.*?>>>", t):
            names.setdefault(h, f"H{len(names)}")
            t = t.replace(h, names[h])
        try:
            return ast.dump(ast.parse(t.strip(), mode="eval"))
        except SyntaxError:
            return t.replace(" ", "")
    if out[0] == "return" and isinstance(out[1], dict) and list(out[1]) == [0] and _tree(str(out[1][0])) == _tree(want):
        ctx.ok(c, fn)
    elif out[0] == "return" and isinstance(out[1], dict):
        ctx.violation(c, f"sqrt of a scalar emits {out[1]}, expected {{0: '{want}'}}", fn)
    else:
        raise Unknown(c, f"sqrt of a scalar gives {out!r}", fn)
    # Study-number cell
    it = tree_interp(repo, 3)
    it.tvar_facts = {"grades": {"x": (0, 2)}, "__len__": {"x": 4}}
    it.t_truth = lambda t: bool(t.terms)
    c = f"{q}#study-number"
    try:
        out = it.run(q, [x])
    except NoValue as exc:
        raise Unknown(c, str(exc), fn)
    res = out[1] if out[0] == "return" else None
    if out == ("raise", "AttributeError"):
        # the coefficients of the symbolic operand are of the algebra's symbol class - RationalPolynomial by default, sympy.Symbol or a
        # user's class with codegen_symbolcls: an attribute only RationalPolynomial has cannot be asked of them
        rp_only = sorted({n.attr for n in ast.walk(fn) if isinstance(n, ast.Attribute) and n.attr in ("tosympy", "numer", "denom", "fromname")})
        if rp_only:
            ctx.violation(c, f"codegen_sqrt asks a coefficient for .{rp_only[0]}, which RationalPolynomial has and sympy expressions have not: with "
                             f"codegen_symbolcls=sympy.Symbol the square root of a Study number raises AttributeError, the default algebra works", fn)
            return
    if not (isinstance(res, Obj) and res.kind == "LambdifyInput"):
        raise Unknown(c, f"returns {out!r}", fn)
    a = T.opaque("grade", (x, 0))
    bI = x.sub(a)
    A = T.scalar(("coef", a.key(), "e"))
    N = T.scalar(("coef", a.gp(a).sub(bI.gp(bI)).key(), "e"))
    cp = f"(0.5 * (<<{A!r}>> + <<{N!r}>>**0.5)) ** 0.5"
    csym, c2 = T.scalar(("sym", "c")), T.scalar(("sym", "c2_inv"))
    want_deps = [(repr(csym), cp), (repr(c2), f"0.5 / {cp}")]
    deps = res.attrs.get("dependencies")
    problems = []
    try:
        got_deps = [(repr(l), str(r)) for l, r in deps]
    except Exception:
        raise Unknown(c, f"dependencies {deps!r}", fn)
    hole_names = {}

    def norm(t):
        """The formula as a syntax tree (brackets and spacing do not matter), coefficient placeholders as names."""
        for h in re.findall(r"<<<.*?>>>", t):
            hole_names.setdefault(h, f"H{len(hole_names)}")
            t = t.replace(h, hole_names[h])
        try:
            return ast.dump(ast.parse(t.strip(), mode="eval"))
        except SyntaxError:
            return t.replace(" ", "")
    if [(l, norm(r)) for l, r in got_deps] != [(l, norm(r)) for l, r in want_deps]:
        problems.append(f"precomputed scalars are {got_deps}, expected c = sqrt((a + sqrt(<a*a - bI*bI>))/2) and c2_inv = 0.5/c: {want_deps}")
    ed = res.attrs.get("expr_dict")
    want_res = csym.add(bI.gp(c2))
    got_res = None
    if isinstance(ed, dict) and len(ed) == 1:
        v = list(ed.values())[0]
        got_res = v.attrs.get("of") if isinstance(v, Obj) else None
    if got_res != want_res:
        problems.append(f"the result is [{got_res!r}], expected c + bI * c2_inv = [{want_res!r}]")
    if problems:
        ctx.violation(c, "; ".join(problems), fn)
    else:
        ctx.ok(c, fn, c=cp)
    # The coefficients are written into the formula as TEXT (str of whatever the symbol class is - a rational polynomial
    # or a sympy expression): the formula must mean the same when that text is a sum, i.e. every interpolated coefficient
    # is protected by brackets, or ** and / would bind to its last term only.
    texts = [("scalar", str(list(scalar_out.values())[0]))] if isinstance(scalar_out, dict) and scalar_out else []
    texts += [(f"dependency {l}", r) for l, r in got_deps]
    for label, text in texts:
        c2 = f"{q}#text-of-coefficients:{label}"
        holes = sorted(set(re.findall(r"<<<.*?>>>", text)))
        # a coefficient of the operand itself (x.e, x.grade(0).e) is one symbol created by the symbol class: its text is a
        # name. Anything computed from the operand (a*a - bI*bI) is a polynomial / sympy expression whose text may be a sum.
        atoms_ = {f"<<{T.scalar(('coef', x.key(), 'e'))!r}>>", f"<<{T.scalar(('coef', T.opaque('grade', (x, 0)).key(), 'e'))!r}>>"}
        derived = [h for h in holes if h not in atoms_]
        if not derived:
            ctx.ok(c2, fn, note="only coefficients of the operand itself (symbols) are written into the text")
            continue
        try:
            atom = text
            summed = text
            for i, h in enumerate(holes):
                atom = atom.replace(h, f"H{i}" if h in derived else f"A{i}")
                summed = summed.replace(h, f"H{i}a + H{i}b" if h in derived else f"A{i}")
            ta = ast.parse(atom, mode="eval")

            class Sub(ast.NodeTransformer):
                def visit_Name(self, node):
                    m = re.fullmatch(r"H(\d+)", node.id)
                    if m:
                        return ast.BinOp(left=ast.Name(id=f"H{m.group(1)}a", ctx=ast.Load()), op=ast.Add(),
                                         right=ast.Name(id=f"H{m.group(1)}b", ctx=ast.Load()))
                    return node
            want_tree = ast.dump(Sub().visit(ta))
            got_tree = ast.dump(ast.parse(summed, mode="eval"))
        except SyntaxError:
            raise Unknown(c2, f"emitted text {text!r} is not an expression", fn)
        if want_tree == got_tree:
            ctx.ok(c2, fn)
        else:
            ctx.violation(c2, f"the emitted formula {text!r} changes its meaning when the text of a coefficient is a sum (as it is for "
                              f"sympy symbols: codegen_symbolcls=Symbol gives 'a**2 + a12**2**0.5'): interpolated coefficients must be bracketed", fn)


# --------------------------------------------------------------------------- exp branches
def sym(text):
    o = Obj("sym", {"fmt": text})

    def binop(op, other, refl):
        ot = str(other) if not isinstance(other, float) else repr(other)
        a, b = (ot, text) if refl else (text, ot)
        s = {"Add": "+", "Sub": "-", "Mult": "*", "Div": "/", "Pow": "**"}.get(op)
        if s is None:
            return Unk("sym arith")
        return sym(f"({a}{s}{b})")
    o.methods["binop"] = binop
    o.methods["unop"] = lambda op: sym(f"(-{text})") if op == "USub" else o
    o.methods["compare"] = lambda op, other: Unk("symbolic comparison")
    return o


def exp_cell(repo, ll_kind):
    """Run MultiVector.exp with x*x having the given kind; returns (outcome, info)."""
    def npscalar(text, value):
        # a numpy scalar (np.float32, np.int64): a real number that is no instance of float / int; arithmetic is recorded as text
        o = sym(text)
        o.kind = "npscalar"
        o.methods["compare"] = lambda op, other: {"Gt": value > other, "Lt": value < other, "Eq": value == other, "NotEq": value != other,
                                                  "GtE": value >= other, "LtE": value <= other}[op] if isinstance(other, (int, float)) else Unk("cmp")
        return o
    ll_value = {"positive": 0.25, "zero": 0.0, "negative": -0.25, "positive-int": 4, "zero-int": 0,
                "symbolic": sym("LL"), "array": Obj("ndarray", {"fmt": "ARR"}),
                "positive numpy scalar": npscalar("NP", 0.25), "zero numpy scalar": npscalar("NP", 0.0),
                "negative numpy scalar": npscalar("NP", -0.25),
                "positive sympy number": npscalar("SQ", 0.25)}[ll_kind]
    if ll_kind == "positive sympy number":
        # sympy's Integer / Rational / Float are sympy expressions AND numbers.Real: the square of cos(t) e1 + sin(t) e2, of Rational(1, 2) e1
        ll_value.kind = "sympynum"
    if ll_kind == "array":
        arr = ll_value
        arr.methods["binop"] = lambda op, other, refl: sym(f"arr({op})")
        arr.methods["unop"] = lambda op: sym("(-ARR)")
        arr.methods["compare"] = lambda op, other: Obj("ndarray-bool", {"fmt": "ARRBOOL"}, {"truth": lambda: (_ for _ in ()).throw(NoValue("truth value of an array"))})
    info = {"filter_called": False}
    ll = Obj("MultiVector", {"grades": (0,), "e": ll_value})
    sq = Obj("MultiVector", {"grades": (0,), "e": ll_value})

    def filt(*a, **k):
        info["filter_called"] = True
        info["filter_args"] = (a, k)
        return ll
    sq.methods["filter"] = filt
    me = Obj("MultiVector", {"fmt": "X"})

    def binop(op, other, refl):
        if op == "Mult" and other is me:
            return sq
        if op == "Mult":
            return sym(f"(X*{other})" if not refl else f"({other}*X)")
        return Unk("exp arith")
    me.methods["binop"] = binop

    def isinst(v, name):
        if name == "Expr":
            return isinstance(v, Obj) and (v.kind == "sym" and v is ll_value or v.kind == "sympynum")
        if isinstance(v, Obj) and v.kind == "sympynum":
            return name in ("Real", "Number", "Complex", "Rational", "Basic", "Atom") if name not in ("float", "int", "Integral") else False
        if name in ("float", "int") and isinstance(v, Obj):
            return False
        if name in ("Real", "Number", "Complex") and isinstance(v, Obj):
            return v.kind == "npscalar"
        if name in ("Integral", "Rational") and isinstance(v, Obj):
            return False
        return None

    def fn_tok(name):
        return Obj("callable", {"fmt": name}, call=lambda *a: sym(f"{name}({', '.join(str(x) if not isinstance(x, float) else repr(x) for x in a)})"))
    np_mod = Obj("module:numpy", {"cosh": fn_tok("np.cosh"), "sinh": fn_tok("np.sinh"), "cos": fn_tok("np.cos"),
                                  "sin": fn_tok("np.sin"), "sinc": fn_tok("np.sinc"), "pi": sym("pi"), "sqrt": fn_tok("np.sqrt")})
    it = make_interp(repo, isinstance_hook=isinst)
    it.standins["numpy"] = np_mod
    it.standins["sympy.cos"] = fn_tok("sympy.cos")
    it.standins["sympy.sinc"] = fn_tok("sympy.sinc")
    it.standins["sympy.cosh"] = fn_tok("sympy.cosh")
    out = it.run("multivector.MultiVector.exp", [me])
    return out, info


EXP_EXPECT = {
    # kind -> accepted result texts (family, argument of the square root)
    "positive": {"((X*(np.sinh(0.5)/0.5))+np.cosh(0.5))"},
    "positive-int": {"((X*(np.sinh(2.0)/2.0))+np.cosh(2.0))"},
    "zero": {"((X*1)+1)"},
    "zero-int": {"((X*1)+1)"},
    "negative": {"((X*np.sinc((0.5/pi)))+np.cos(0.5))", "((X*(np.sin(0.5)/0.5))+np.cos(0.5))"},
    "symbolic": {"((X*sympy.sinc(((-LL)**0.5)))+sympy.cos(((-LL)**0.5)))"},
    # numpy scalars are real numbers that are no instances of float / int (F31): same families, chosen by the sign of the square
    "positive numpy scalar": {"((X*(np.sinh((NP**0.5))/(NP**0.5)))+np.cosh((NP**0.5)))"},
    "zero numpy scalar": {"((X*1)+1)"},
    # a sympy number stays in sympy: numpy's cosh / sinh do not take sympy expressions (TypeError: loop of ufunc does not support ...)
    "positive sympy number": {"((X*sympy.sinc(((-SQ)**0.5)))+sympy.cos(((-SQ)**0.5)))", "((X*(sympy.sinh((SQ**0.5))/(SQ**0.5)))+sympy.cosh((SQ**0.5)))"},
    "negative numpy scalar": {"((X*np.sinc((((-NP)**0.5)/pi)))+np.cos(((-NP)**0.5)))", "((X*(np.sin(((-NP)**0.5))/((-NP)**0.5)))+np.cos(((-NP)**0.5)))"},
}


@rule("C19.exp-branches", props=["C19", "C12"], min_instances=10, mutants=[
    ("positive square uses cos", ("multivector", "                cosh = np.cosh\n                sinhc = lambda x: np.sinh(x) / x", "                cosh = np.cos\n                sinhc = lambda x: np.sinh(x) / x")),
    ("negative square takes sqrt(x) instead of sqrt(-x)", ("multivector", "                # Assume numpy\n                sqrt = lambda x: (-x) ** 0.5", "                # Assume numpy\n                sqrt = lambda x: x ** 0.5")),
    ("result combined as x*cosh + sinhc", ("multivector", "        return self * sinhc(l) + cosh(l)", "        return self * cosh(l) + sinhc(l)")),
    ("zero square falls into the hyperbolic branch", ("multivector", "            elif isinstance(ll, Real) and ll > 0:", "            elif isinstance(ll, Real) and ll >= 0:")),
    ("numbers are asked for before sympy expressions (sympy's Rational is a Real)", [("multivector", "            if isinstance(ll, Expr):\n                sqrt = lambda x: (-x) ** 0.5\n                cosh = cos\n                sinhc = sinc\n            elif isinstance(ll, Real) and ll > 0:", "            if isinstance(ll, Real) and ll > 0:"),
                                                                                      ("multivector", "                cosh = sinhc = lambda x: 1\n            else:", "                cosh = sinhc = lambda x: 1\n            elif isinstance(ll, Expr):\n                sqrt = lambda x: (-x) ** 0.5\n                cosh = cos\n                sinhc = sinc\n            else:")]),
    ("only python numbers are asked for their sign (F31)", ("multivector", "            elif isinstance(ll, Real) and ll > 0:", "            elif isinstance(ll, (float, int)) and ll > 0:")),
    ("sinc without the pi rescaling", ("multivector", "                sinhc = lambda x: np.sinc(x / np.pi)", "                sinhc = lambda x: np.sinc(x)")),
])
def exp_branches(ctx):
    """exp: sign/type of x*x selects the function family; result is x*sinhc(l) + cosh(l) (DT)."""
    repo = ctx.repo
    q = "multivector.MultiVector.exp"
    fn = ctx.func(q)
    for kind, accepted in EXP_EXPECT.items():
        c = f"{q}#x2-{kind}"
        try:
            out, info = exp_cell(repo, kind)
        except NoValue as exc:
            raise Unknown(c, str(exc), fn)
        if out[0] == "raise":
            ctx.violation(c, f"exp raises {out[1]} for an element whose square is a {kind} scalar", fn)
            continue
        got = str(out[1]).replace(" ", "")
        if got in {a.replace(" ", "") for a in accepted}:
            ctx.ok(c, fn, result=got)
        elif isinstance(out[1], Unk):
            raise Unknown(c, f"result {out[1]!r}", fn)
        else:
            ctx.violation(c, f"for x*x {kind} exp(x) is computed as {got}; the power series gives "
                             f"{sorted(accepted)[0]} (cosh/sinh of sqrt(x2) for positive, 1 + x for zero, cos/sin of "
                             f"sqrt(-x2) for negative squares)", fn, got=got)


# --------------------------------------------------------------------------- no truthiness on numeric paths
NUMERIC_ENTRY = ["multivector.MultiVector.exp", "multivector.MultiVector.__pow__", "multivector.MultiVector.norm",
                 "multivector.MultiVector.normalized", "multivector.MultiVector.sqrt", "multivector.MultiVector.outerexp",
                 "multivector.MultiVector.outersin", "multivector.MultiVector.outercos", "multivector.MultiVector.outertan"]


@rule("C19.no-truthiness", props=["C19", "C16"], min_instances=9)
def no_truthiness(ctx):
    """On numeric paths no coefficient reaches a boolean context: the truthiness-based default filter() may only be
    called under a scalar-type / symbolic guard (taint)."""
    repo = ctx.repo
    for q in NUMERIC_ENTRY:
        fn = ctx.func(q)
        hits = []
        for call in [c for c in walk_shallow(fn) if isinstance(c, ast.Call)]:
            f = call.func
            if isinstance(f, ast.Attribute) and f.attr == "filter" and not call.args and not call.keywords:
                guard = enclosing(call, (ast.If,))
                guarded = False
                while guard is not None:
                    t = un(guard.test)
                    if "issymbolic" in t or "isinstance" in t:
                        guarded = True
                    guard = enclosing(guard, (ast.If,))
                if not guarded:
                    hits.append(call)
        if hits:
            ctx.violation(f"{q}#filter", f"{q.split('.')[-1]} calls {un(hits[0])}: the default filter tests the truth value of "
                                         f"every coefficient (simp_func(v)), which raises ValueError for array-valued "
                                         f"coefficients with more than one element - the function only works for scalars", hits[0])
        else:
            ctx.ok(q, fn)


@rule("C19.norm", props=["C19"], min_instances=2, mutants=[
    ("norm without sqrt", ("multivector", "        normsq = self.normsq()\n        return normsq.sqrt()\n\n    def normalized(self):\n        \"\"\" Normalized version of this multivector. \"\"\"\n        return self / self.norm()\n\n    def inv", "        normsq = self.normsq()\n        return normsq\n\n    def normalized(self):\n        \"\"\" Normalized version of this multivector. \"\"\"\n        return self / self.norm()\n\n    def inv")),
    ("normalized divides by normsq", ("multivector", "        return self / self.norm()\n\n    def inv", "        return self / self.normsq()\n\n    def inv")),
])
def norm(ctx):
    """norm = sqrt(normsq(x)), normalized = x / norm(x) (OPT)."""
    norm_trees(ctx, ctx.repo, "MultiVector")
