"""C14 - Custom bases and start indices are a pure relabelling."""
from __future__ import annotations

import ast
from itertools import combinations

from ..astx import un, NoValue, walk_shallow, call_name, kwarg, const_value
from ..absint import Obj, Unk, ClassRef
from ..core import rule, fixture_for, Unknown
from ..callsites import ENTRY_POINTS, Scenario, run_entry

INFO = {
    "id": "C14",
    "technique": "abstract interpretation of Algebra.__eq__ on stand-in algebras that differ in one metric input "
                 "(dependency analysis of the dataclass fields when the equality is the generated one); template "
                 "extraction of the multi-operand entry points with a foreign algebra; literal-table validation of the "
                 "named bases; abstract interpretation of matrix_basis / matrix_rep with symbolic Kronecker arithmetic on "
                 "custom bases; name-arithmetic scan of the codegens",
    "explanation": "Clause-level. Decided: which constructor inputs reach the metric and whether the equality used for "
                   "operand compatibility covers them - Algebra.__eq__ is run from source on pairs of algebras (built by "
                   "running __post_init__ from source) that differ only in p, q, r, the ORDER of the signature, or the basis, "
                   "and on an identically constructed pair (fixed finding F6: the signature was not compared); every multi-operand entry point "
                   "rejects an operand of a non-equal algebra with AlgebraError before the cache lookup; the three named "
                   "bases are admissible (2^d distinct blades, sorted by grade, every subset of generators exactly once) for "
                   "the (p,q,r) they are constructed with; matrix_basis, which its consumers index by canonical position, holds at "
                   "the position of every blade the product of the generator matrices in that blade's spelled order, for "
                   "default, named and hand-written bases built one after another in one process (fixed finding F7, shared "
                   "with C18); no codegen does arithmetic on "
                   "blade names - operators see a basis only through canon2bin/signs, so C01-C07 hold for every basis. NOT "
                   "decided: the isomorphism as a value-level statement.",
    "decided": ["C14.eq-fields", "C14.algebra-check", "C14.named-bases", "C14.matrix-basis", "C08.no-positional-codegen",
                "C14.no-name-arithmetic"],
    "not_decided": ["value-level commutation of every operator with the relabelling map"],
    "assumptions": ["C01-C07 quantify over bases only through canon2bin / signs"],
}

METRIC_INPUTS = ("p", "q", "r", "signature", "basis")


def dataclass_fields(repo, cls_qual):
    """The dataclass fields of a repository class as stand-in objects (name, compare, init, metadata keys), read
    from the annotated assignments of the class body; `partial(field, ...)` helpers of the module are resolved."""
    cls = repo.cls(cls_qual)
    mod = repo.modules[cls_qual.split(".")[0]].tree
    partials = {}
    for st in mod.body:
        if isinstance(st, ast.Assign) and isinstance(st.value, ast.Call) and call_name(st.value) in ("partial", "functools.partial") \
                and st.value.args and un(st.value.args[0]) in ("field", "dataclasses.field"):
            for t in st.targets:
                if isinstance(t, ast.Name):
                    partials[t.id] = {kw.arg: kw.value for kw in st.value.keywords if kw.arg}
    out = []
    for st in cls.body:
        if not (isinstance(st, ast.AnnAssign) and isinstance(st.target, ast.Name)):
            continue
        if "ClassVar" in un(st.annotation):
            continue
        kws = {}
        if isinstance(st.value, ast.Call):
            fname = call_name(st.value)
            if fname in ("field", "dataclasses.field"):
                kws = {kw.arg: kw.value for kw in st.value.keywords if kw.arg}
            elif fname in partials:
                kws = dict(partials[fname])
                kws.update({kw.arg: kw.value for kw in st.value.keywords if kw.arg})

        def flag(name, default=True):
            v = kws.get(name)
            return v.value if isinstance(v, ast.Constant) and isinstance(v.value, bool) else default
        meta = {}
        if isinstance(kws.get("metadata"), ast.Dict):
            meta = {const_value(k): True for k in kws["metadata"].keys if isinstance(k, ast.Constant)}
        ann = un(st.annotation).strip("'\"")
        out.append(Obj("Field", {"name": st.target.id, "compare": flag("compare"), "init": flag("init"),
                                 "repr": flag("repr"), "metadata": meta, "type": ClassRef(ann.split("[")[0].split(".")[-1]),
                                 "fmt": f"<field {st.target.id}>"}))
    return out


EQ_BASES = {
    # metric input -> (constructor arguments of the reference algebra, of the variant that differs in that input only)
    "p": (dict(p=2, q=1), dict(p=3, q=1)),
    "q": (dict(p=2, q=1), dict(p=2, q=2)),
    "r": (dict(p=2, q=1), dict(p=2, q=1, r=1)),
    "signature": (dict(signature=[1, -1]), dict(signature=[-1, 1])),
    "basis": (dict(p=3), dict(p=3, basis=["e", "e2", "e3", "e1", "e23", "e31", "e12", "e123"])),
    # the same blade names listed with the generators in another order: e1 is the first generator of one basis and the second of the other
    "basis (generator order)": (dict(p=2, basis=["e", "e1", "e2", "e12"]), dict(p=2, basis=["e", "e2", "e1", "e12"])),
    # start_index is deliberately not a pair here: tests/test_kingdon.py::test_start_index compares elements of two algebras
    # that differ in the start index only (`fi**2 == ei**2`), so upstream treats them as one algebra with two spellings.
}


def _eq_by_interpretation(ctx, cls, eqdef):
    """Algebra defines __eq__ itself: run it from source on pairs of stand-in algebras (built by running
    __post_init__ from source) that differ in exactly one metric input, and on an identically constructed pair."""
    from .c01 import build_algebra
    from ..absint import PyFunc, Raised
    repo = ctx.repo
    flds = dataclass_fields(repo, "algebra.Algebra")

    def run_eq(kw_a, kw_b):
        it, a = build_algebra(repo, **kw_a)
        _, b = build_algebra(repo, **kw_b)
        it.standins["dataclasses.fields"] = PyFunc(lambda o: list(flds), "fields", True)
        it.standins["numpy"] = Obj("module:numpy", {
            "array": PyFunc(lambda x, *a_, **k: list(x), "np.array", True),
            "array_equal": PyFunc(lambda x, y, *a_, **k: list(x) == list(y), "np.array_equal", True),
            "all": PyFunc(lambda x, *a_, **k: all(x) if isinstance(x, (list, tuple)) else bool(x), "np.all", True),
        })
        out = it.run("algebra.Algebra.__eq__", [a, b])
        if out[0] == "raise":
            raise Raised(out[1])
        if not isinstance(out[1], bool):
            raise NoValue(f"__eq__ gives {out[1]!r}")
        return out[1]

    for name, (base, variant) in EQ_BASES.items():
        c = f"algebra.Algebra.{name}#compare"
        try:
            same = run_eq(base, dict(base))
            differ = run_eq(base, variant)
            differ_rev = run_eq(variant, base)
        except NoValue as exc:
            raise Unknown(c, str(exc), eqdef)
        except Raised as r:
            ctx.violation(c, f"Algebra.__eq__ raises {r.name} when comparing Algebra({base}) with Algebra({variant})", eqdef)
            continue
        if not same:
            ctx.violation(c, f"two algebras constructed identically (Algebra({base})) compare unequal: the operand check of "
                             f"registered functions (which has no identity shortcut) rejects every call", eqdef)
        elif differ or differ_rev:
            ctx.violation(c, f"Algebra({base}) == Algebra({variant}): two algebras that differ only in {name} compare equal, "
                             f"so the operand compatibility check lets their elements be combined with the wrong metric", eqdef)
        else:
            ctx.ok(c, eqdef, compared=True, by="__eq__ interpreted on stand-in algebras", reference=str(base), variant=str(variant))


@rule("C14.eq-fields", props=["C14"], min_instances=6, mutants=[
    ("a basis is compared as the sorted list of its names", ("algebra", "        return (all(getattr(self, f.name) == getattr(other, f.name) for f in fields(self) if f.compare)\n", "        return (all(getattr(self, f.name) == getattr(other, f.name) for f in fields(self) if f.compare and f.name != 'basis')\n                and sorted(self.basis) == sorted(other.basis)\n")),
    ("basis no longer compared", ("algebra", "    basis: List[str] = field(repr=False, default_factory=list)", "    basis: List[str] = field(repr=False, default_factory=list, compare=False)")),
    ("signature no longer compared", ("algebra", "\n                and np.array_equal(self.signature, other.signature))", ")")),
    ("equality compares the dimension only", ("algebra", "        return (all(getattr(self, f.name) == getattr(other, f.name) for f in fields(self) if f.compare)\n                and np.array_equal(self.signature, other.signature))", "        return self.d == other.d")),
])
def eq_fields(ctx):
    """Every constructor input that reaches the metric takes part in Algebra.__eq__ (DEP for the generated dataclass
    equality; by interpretation of __eq__ on stand-in algebras when the class defines it)."""
    cls = ctx.cls("algebra.Algebra")
    explicit = [s for s in cls.body if isinstance(s, ast.FunctionDef) and s.name == "__eq__"]
    if explicit:
        _eq_by_interpretation(ctx, cls, explicit[0])
        return
    deco = [un(d) for d in cls.decorator_list]
    if not any(d.startswith("dataclass") for d in deco) or any("eq=False" in d for d in deco):
        raise Unknown("algebra.Algebra", f"not a plain dataclass ({deco})", cls)
    post = ctx.func("algebra.Algebra.__post_init__")
    for st in cls.body:
        if not (isinstance(st, ast.AnnAssign) and isinstance(st.target, ast.Name) and st.target.id in METRIC_INPUTS):
            continue
        name = st.target.id
        c = f"algebra.Algebra.{name}#compare"
        compared = True
        if isinstance(st.value, ast.Call) and call_name(st.value) in ("field", "dataclasses.field"):
            cmpkw = kwarg(st.value, "compare")
            if isinstance(cmpkw, ast.Constant) and cmpkw.value is False:
                compared = False
            initkw = kwarg(st.value, "init")
            if isinstance(initkw, ast.Constant) and initkw.value is False:
                continue
        if compared:
            ctx.ok(c, st, compared=True)
            continue
        # not compared: is the user-supplied value kept on some path?
        # the user-supplied value survives unless every path overwrites it from other fields only
        assigns = [n for n in ast.walk(post) if isinstance(n, ast.Assign) and any(un(t) == f"self.{name}" for t in n.targets)]
        kept = (not assigns) or any(f"self.{name}" in {un(x) for x in ast.walk(a.value)} for a in assigns)
        if kept:
            ctx.violation(c, f"Algebra.{name} is user input that reaches the metric (signs table) but is declared "
                             f"compare=False: two algebras that differ only in {name} compare equal, so the operand "
                             f"compatibility check lets their elements be combined with the wrong metric", st)
        else:
            ctx.ok(c, st, compared=False, determined_by_compared_fields=True)


@rule("C14.algebra-check", props=["C14"], min_instances=16, mutants=[
    ("registered functions vet their operands only when they compile", ("operator_dict", "        if any((mvs[0].algebra != mv.algebra) for mv in mvs[1:]):\n            raise AlgebraError(\"Cannot multiply elements of different algebra's.\")\n\n        keys_in = tuple(mv.keys() for mv in mvs)\n        values_in = tuple(mv.values() for mv in mvs)\n        keys_out, func = self[keys_in]\n\n        if not mvs[0].algebra.wrapper:", "        keys_in = tuple(mv.keys() for mv in mvs)\n        if keys_in not in self and any((mvs[0].algebra != mv.algebra) for mv in mvs[1:]):\n            raise AlgebraError(\"Cannot multiply elements of different algebra's.\")\n\n        values_in = tuple(mv.values() for mv in mvs)\n        keys_out, func = self[keys_in]\n\n        if not mvs[0].algebra.wrapper:")),
    ("binary check compares the metric only", ("operator_dict", "        if not (mv1.algebra is mv2.algebra or mv1.algebra == mv2.algebra):", "        if not (mv1.algebra is mv2.algebra or tuple(mv1.algebra.signature) == tuple(mv2.algebra.signature)):")),
    ("binary check compares the dimension only", ("operator_dict", "        if not (mv1.algebra is mv2.algebra or mv1.algebra == mv2.algebra):", "        if not (mv1.algebra is mv2.algebra or len(mv1.algebra) == len(mv2.algebra)):")),
    ("binary check dropped", ("operator_dict", "        if not (mv1.algebra is mv2.algebra or mv1.algebra == mv2.algebra):\n            raise AlgebraError", "        if False:\n            raise AlgebraError")),
    ("n-ary check compares only the second operand", ("operator_dict", "        if any((mvs[0].algebra != mv.algebra) for mv in mvs[1:]):\n            raise AlgebraError(\"Cannot multiply elements of different algebra's.\")\n\n        keys_in = tuple(mv.keys() for mv in mvs)\n        values_in = tuple(mv.values() for mv in mvs)\n        keys_out, func = self[keys_in]\n        issymbolic",
                                                      "        if any((mvs[0].algebra != mv.algebra) for mv in mvs[1:2]):\n            raise AlgebraError(\"Cannot multiply elements of different algebra's.\")\n\n        keys_in = tuple(mv.keys() for mv in mvs)\n        values_in = tuple(mv.values() for mv in mvs)\n        keys_out, func = self[keys_in]\n        issymbolic")),
])
def algebra_check(ctx):
    """Every multi-operand entry point rejects an operand of a non-equal algebra before the cache lookup (TS)."""
    repo = ctx.repo
    for q, (kind, n) in ENTRY_POINTS.items():
        if n < 2:
            continue
        fn = ctx.func(q)
        for foreign_at, fkind, cached in [(i, k, c_) for i in range(1, n) for k in ("basis", "signature-order") for c_ in (False, True)]:
            c = f"{q}#foreign@{foreign_at}:{fkind}" + (",pattern already compiled" if cached else "")
            try:
                log = run_entry(repo, q, Scenario((), False, True, n, foreign_at=foreign_at, foreign_kind=fkind, cached=cached))
            except NoValue as exc:
                raise Unknown(c, str(exc), fn)
            if log["out"] == ("raise", "AlgebraError") and not log["lookups"]:
                ctx.ok(c, fn)
            elif log["out"][0] == "raise" and log["out"][1] == "AlgebraError":
                ctx.violation(c, "AlgebraError is raised only after code was generated/looked up for the mixed operands", fn)
            else:
                ctx.violation(c, f"operand {foreign_at} belongs to a different (non-equal) algebra but the call "
                                 f"{log['out'][0]}s {log['out'][1]!r} instead of raising AlgebraError: elements of "
                                 f"different algebras are silently combined", fn)


@rule("C14.named-bases", props=["C14", "C13"], min_instances=6, mutants=[
    ("3DPGA ignores the options", ("algebra", "            return cls(3, 0, 1, basis=basis, **kwargs)", "            return cls(3, 0, 1, basis=basis)")),
    ("STAP basis not passed on", ("algebra", "            return cls(3, 1, 1, basis=basis, **kwargs)", "            return cls(3, 1, 1, **kwargs)")),
    ("STAP lists e314 twice", ("algebra", "\"e234\", \"e314\", \"e124\"", "\"e234\", \"e314\", \"e314\"")),
    ("3DPGA built as (2,0,1)", ("algebra", "            return cls(3, 0, 1, basis=basis, **kwargs)", "            return cls(2, 0, 1, basis=basis, **kwargs)")),
    ("2DPGA blade out of grade order", ("algebra", "basis = [\"e\", \"e1\", \"e2\", \"e0\", \"e20\", \"e01\", \"e12\", \"e012\"]", "basis = [\"e\", \"e1\", \"e2\", \"e20\", \"e0\", \"e01\", \"e12\", \"e012\"]")),
])
def named_bases(ctx):
    """The bases Algebra.fromname hands to the constructor are admissible for the (p, q, r) they are constructed with
    (fromname is interpreted from source with the class replaced by a recorder of the constructor call)."""
    from .c01 import named_algebras
    fn = ctx.func("algebra.Algebra.fromname")
    table = named_algebras(ctx.repo)
    from .c01 import NAMED_OPTIONS
    for name, (pqr, basis, kwnames, passed) in table.items():
        c = f"algebra.Algebra.fromname#{name}"
        lost = {k: passed.get(k) for k, v in NAMED_OPTIONS.items() if passed.get(k) != v}
        if lost:
            ctx.violation(f"{c}:options", f"named algebra {name}: the options handed to fromname do not reach the constructor "
                                          f"({', '.join(f'{k}={NAMED_OPTIONS[k]!r} arrives as {v!r}' for k, v in lost.items())}): "
                                          f"Algebra.fromname({name!r}, graded=True, wrapper=..., cse=False) silently builds a default-option algebra", fn)
        else:
            ctx.ok(f"{c}:options", fn, options=sorted(NAMED_OPTIONS))
        if basis is None:
            ctx.violation(c, f"named algebra {name}: no basis is passed to the constructor (keywords {kwnames})", fn)
            continue
        d = sum(pqr)
        problems = []
        if len(basis) != 2 ** d:
            problems.append(f"{len(basis)} blades for d = p+q+r = {d} (need {2 ** d})")
        if any(not isinstance(b, str) for b in basis):
            raise Unknown(c, f"basis {basis!r}", fn)
        if basis != sorted(basis, key=len):
            problems.append("not sorted by grade")
        if any(not b.startswith("e") for b in basis):
            problems.append("a blade name does not start with 'e'")
        gens = [b[1:] for b in basis if len(b) == 2]
        if len(gens) != d or len(set(gens)) != len(gens):
            problems.append(f"{len(gens)} generators {gens} for d = {d}")
        sets = [frozenset(b[1:]) for b in basis]
        if any(len(b) - 1 != len(s) for b, s in zip(basis, sets)):
            problems.append("a blade repeats a generator")
        want = {frozenset(cmb) for g in range(d + 1) for cmb in combinations(gens, g)}
        if set(sets) != want or len(set(sets)) != len(sets):
            missing = [sorted(s) for s in want - set(sets)]
            dup = sorted({"e" + "".join(sorted(s)) for s in sets if sets.count(s) > 1})
            problems.append(f"blades are not every subset of the generators exactly once (missing {missing[:3]}, repeated {dup[:3]})")
        if problems:
            ctx.violation(c, f"named algebra {name}: " + "; ".join(problems), fn)
        else:
            ctx.ok(c, fn, d=d, blades=len(basis), pqr=pqr)


# C14.matrix-basis lives in c18.py (it needs the symbolic Kronecker arithmetic defined there)


@rule("C14.no-name-arithmetic", props=["C14"], min_instances=29, mutants=[
    ("a codegen inspects blade names", ("codegen", "def codegen_neg(x):\n    return {k: -v for k, v in x.items()}", "def codegen_neg(x):\n    return {k: (-v if x.algebra.bin2canon[k] != 'e21' else v) for k, v in x.items()}")),
])
def no_name_arithmetic(ctx):
    """No registry codegen reads blade names: operators see a basis only through canon2bin / signs."""
    from ..surface import operator_registry
    repo = ctx.repo
    reg = operator_registry(repo)
    for name, row in reg.items():
        q = f"codegen.{row.codegen}"
        fn = ctx.func(q)
        bad = [n for n in ast.walk(fn) if isinstance(n, ast.Attribute) and n.attr in ("bin2canon", "canon2bin", "_bin2canon_prettystr", "basis")]
        if bad:
            ctx.violation(q, f"{row.codegen} reads {un(bad[0])}: the operator depends on how blades are spelled, not only "
                             f"on the algebra they denote", bad[0])
        else:
            ctx.ok(q, fn)
