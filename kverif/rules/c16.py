"""C16 - Array coefficients, sequences, callables and plain numbers broadcast right."""
from __future__ import annotations

import ast

from ..astx import un, chain, names_read, params, walk_shallow, call_name, paths, clone
from ..core import rule, fixture_for, Unknown
from ..surface import class_surface, BINARY_DUNDERS, REFLECTED

INFO = {
    "id": "C16",
    "technique": "sibling-surface cross-check of reflected dunders; operand-position provenance (taint) in "
                 "_call_binary; structural recognisers for index uniformity; truthiness taint on numeric paths",
    "explanation": "Clause-level. Decided from the syntax tree: (1) every reflected dunder of MultiVector resolves to "
                   "the operator of its forward dunder with operands (other, self) - aliasing is accepted only for add; "
                   "(2) in OperatorDict._call_binary the value derived from parameter 1 stays in position 1 and that "
                   "of parameter 2 in position 2 through callable unwrapping, list/tuple mapping, scalar wrapping with "
                   "key (0,), the cache lookup and the call, and the handling of the two operands is mirror-symmetric; "
                   "(3) __getitem__/__setitem__ apply one index to every coefficient and keep keys; (4) no coefficient "
                   "reaches a boolean context on the numeric arm of the operator entry points. Not decided: numpy "
                   "broadcasting itself.",
    "decided": ["C16.reflected", "C16.positions", "C16.operand-kinds", "C16.itermv", "C16.index-uniform", "C06.filter-sites", "C19.no-truthiness"],
    "not_decided": ["numpy's own broadcasting and element-wise arithmetic of the generated functions"],
    "assumptions": ["Python calls __rX__(right, left) only after left.__X__ is missing or returns NotImplemented"],
}

COMMUTATIVE_FOR_ALL_OPERAND_KINDS = {"add"}  # a + b = b + a also element-wise through list / callable forms


def check_reflected(ctx, table, cls_qual, repo=None):
    n = 0
    for fwd, refl in BINARY_DUNDERS.items():
        f = table.get(fwd)
        if f is None or f.kind != "op":
            continue  # python-bodied forward dunders (__pow__) have no scalar-on-the-left contract
        construct = f"{cls_qual}.{refl}"
        r = table.get(refl)
        n += 1
        if r is None:
            ctx.violation(construct, f"{fwd} resolves to operator {f.op!r} but {refl} is not defined: "
                                     f"'number {fwd}' with a multivector on the right raises TypeError",
                          f.node, facts_forward=f.sig())
            continue
        if r.kind != "op":
            # Python-bodied reflected dunder: compare operator-tree normal forms with  op(other, self)
            if repo is None:
                raise Unknown(construct, "reflected dunder has a Python body the surface resolver cannot classify", r.node)
            from ..symenv import tree_interp
            from ..optree import T
            from ..absint import Raised, Unk
            from ..astx import NoValue
            x, o = T.var("x"), T.var("o")
            it = tree_interp(repo, 3)
            try:
                got = it._method(x, refl, [o], {})
                want = it.apply_op(f.op, [o, x], "MultiVector")
            except NoValue as exc:
                raise Unknown(construct, f"cannot evaluate the Python-bodied reflected dunder: {exc}", r.node)
            except Raised as rz:
                ctx.violation(construct, f"{refl} raises {rz.name} for a multivector-valued left operand", r.node)
                continue
            if isinstance(got, Unk) or not isinstance(got, T):
                raise Unknown(construct, f"{refl} evaluates to {got!r}", r.node)
            if got == want:
                ctx.ok(construct, r.node, normal_form=repr(got))
            else:
                ctx.violation(construct, f"{refl}(self=x, other=o) denotes [{got!r}] but 'o {f.op} x' is [{want!r}]: with a "
                                         f"list, tuple or callable of multivectors on the left the operands are combined in "
                                         f"the wrong order", r.node, got=repr(got), expected=repr(want))
            continue
        if r.op != f.op:
            ctx.violation(construct, f"{refl} resolves to operator {r.op!r} but {fwd} to {f.op!r}", r.node,
                          forward=f.sig(), reflected=r.sig())
        elif r.order == ("other", "self"):
            ctx.ok(construct, r.node, operator=r.op, order=r.order, via=r.via)
        elif r.order == ("self", "other") and r.op in COMMUTATIVE_FOR_ALL_OPERAND_KINDS:
            ctx.ok(construct, r.node, operator=r.op, order=r.order, via=r.via,
                   accepted="commutative for every operand kind")
        else:
            ctx.violation(construct,
                          f"{refl} calls operator {r.op!r} with operands {r.order} - Python invokes it as "
                          f"right.{refl}(left), so 'left {r.op} right' is computed as 'right {r.op} left' "
                          f"(wrong sign/order for list, tuple and callable left operands)",
                          r.node, operator=r.op, order=r.order, via=r.via)
    return n


@rule("C16.reflected", props=["C16", "C02", "C03", "C04", "C05", "C06", "C07"], min_instances=9, mutants=[
    ("alias __rsub__ = sub", ("multivector", "    def __rsub__(self, other):\n        return self.algebra.sub(other, self)",
                               "    __rsub__ = sub")),
    ("__rmatmul__ keeps (self, other)", ("multivector", "return self.algebra.proj(other, self)", "return self.algebra.proj(self, other)")),
    ("__rtruediv__ as self.inv() * other", ("multivector", "    def __rtruediv__(self, other):\n        return self.algebra.div(other, self)", "    def __rtruediv__(self, other):\n        return self.inv() * other")),
    ("__ror__ bound to op", ("multivector", "return self.algebra.ip(other, self)", "return self.algebra.op(other, self)")),
], rewrites=[
    ("__rtruediv__ as other * self.inv()", ("multivector", "    def __rtruediv__(self, other):\n        return self.algebra.div(other, self)", "    def __rtruediv__(self, other):\n        return self.algebra.gp(other, self.inv())")),
    ("__radd__ as a proper reflected method", ("multivector", "    __radd__ = __add__ = add",
                                               "    __add__ = add\n\n    def __radd__(self, other):\n        return self.algebra.add(other, self)")),
])
def reflected(ctx):
    """Every reflected dunder of MultiVector swaps its operands (SIB)."""
    table = class_surface(ctx.repo, "multivector.MultiVector")
    check_reflected(ctx, table, "multivector.MultiVector", ctx.repo)


@fixture_for("C16.reflected")
def _fx_reflected(ctx):
    from ..model import Repo
    src = ("class MultiVector:\n"
           "    def op(self, other):\n        return self.algebra.op(self, other)\n"
           "    __xor__ = __rxor__ = op\n")
    repo = Repo({"multivector": ("fixture", src)}, {}, "fixture")
    check_reflected(ctx, class_surface(repo, "multivector.MultiVector"), "multivector.MultiVector")


# --------------------------------------------------------------------------- positions in _call_binary
def _roles(node, env):
    out = set()
    for n in ast.walk(node):
        if isinstance(n, ast.Name) and isinstance(n.ctx, ast.Load) and n.id in env:
            out |= env[n.id]
    return out


class _Rename(ast.NodeTransformer):
    def __init__(self, mapping):
        self.mapping = mapping

    def visit_Name(self, node):
        if node.id in self.mapping:
            return ast.copy_location(ast.Name(id=self.mapping[node.id], ctx=node.ctx), node)
        return node


def _renamed(node, mapping):
    return _Rename(mapping).visit(clone(node))


def check_positions(ctx, fn, construct, self_call_names=("_call_binary",)):
    ps = params(fn)
    if len(ps) != 3:
        raise Unknown(construct, f"expected (self, mv1, mv2), found {ps}", fn)
    p1, p2 = ps[1], ps[2]
    env = {p1: {1}, p2: {2}}
    sites = 0
    func_vars = set()
    for n in walk_shallow(fn):
        if isinstance(n, ast.Assign) and len(n.targets) == 1 and isinstance(n.targets[0], ast.Tuple) \
                and len(n.targets[0].elts) == 2 and isinstance(n.value, ast.Subscript) and isinstance(n.targets[0].elts[1], ast.Name):
            func_vars.add(n.targets[0].elts[1].id)

    def check_pair(a, b, what, node):
        nonlocal sites
        ra, rb = _roles(a, env), _roles(b, env)
        if not ra and not rb:
            return
        sites += 1
        if ra == {1} and rb == {2}:
            ctx.ok(f"{construct}#{what}", node, args=[un(a), un(b)])
        elif ra == {2} and rb == {1}:
            ctx.violation(f"{construct}#{what}",
                          f"operand positions are swapped in {un(node)!r}: the value derived from the right operand "
                          f"is passed first", node)
        else:
            ctx.violation(f"{construct}#{what}",
                          f"{un(node)!r} does not pass (left-derived, right-derived) values in positions (1, 2): "
                          f"roles {sorted(ra)} and {sorted(rb)}", node)

    def visit_expr(expr):
        for n in ast.walk(expr):
            if isinstance(n, ast.comprehension):
                for t in ast.walk(n.target):
                    if isinstance(t, ast.Name):
                        env[t.id] = _roles(n.iter, env)
        for n in ast.walk(expr):
            if isinstance(n, ast.Call):
                cn = call_name(n) or ""
                if cn.split(".")[-1] in self_call_names and len(n.args) == 2:
                    check_pair(n.args[0], n.args[1], "recursion", n)
                elif len(n.args) == 2 and not n.keywords and (cn in func_vars or "numspace" in un(n.func)):
                    check_pair(n.args[0], n.args[1], "call:" + ("by-name" if "numspace" in un(n.func) else "direct"), n)
            elif isinstance(n, ast.Subscript) and un(n.value) == ps[0] and isinstance(n.slice, ast.Tuple) \
                    and len(n.slice.elts) == 2:
                check_pair(n.slice.elts[0], n.slice.elts[1], "lookup", n)

    def walk(stmts):
        for st in stmts:
            if isinstance(st, ast.Assign) and len(st.targets) == 1:
                visit_expr(st.value)
                tgt = st.targets[0]
                roles = _roles(st.value, env)
                if isinstance(tgt, ast.Name):
                    if tgt.id in (p1, p2):
                        want = {1} if tgt.id == p1 else {2}
                        if roles - want:
                            ctx.violation(f"{construct}#rebind:{tgt.id}",
                                          f"{un(st)!r} rebinds the {'left' if tgt.id == p1 else 'right'} operand from "
                                          f"a value derived from the other operand", st)
                        else:
                            ctx.ok(f"{construct}#rebind:{tgt.id}", st, stmt=un(st))
                    else:
                        env[tgt.id] = roles
                else:
                    for t in ast.walk(tgt):
                        if isinstance(t, ast.Name):
                            env[t.id] = roles
            elif isinstance(st, (ast.While, ast.If)):
                visit_expr(st.test)
                walk(st.body)
                walk(st.orelse)
            elif isinstance(st, ast.For):
                visit_expr(st.iter)
                for t in ast.walk(st.target):
                    if isinstance(t, ast.Name):
                        env[t.id] = _roles(st.iter, env)
                walk(st.body)
            elif isinstance(st, (ast.Return, ast.Expr)) and st.value is not None:
                visit_expr(st.value)
            elif isinstance(st, ast.Raise):
                pass
            elif isinstance(st, (ast.Pass,)):
                pass
            else:
                for sub in ast.iter_child_nodes(st):
                    if isinstance(sub, ast.expr):
                        visit_expr(sub)
    walk(fn.body)

    # scalar wrapping: a non-multivector operand becomes the scalar multivector with key (0,)
    for n in walk_shallow(fn):
        if isinstance(n, ast.Call) and (call_name(n) or "").endswith("fromkeysvalues") and len(n.args) >= 3:
            roles = _roles(n.args[2], env)
            if roles in ({1}, {2}):
                keys = n.args[1]
                ok_keys = isinstance(keys, (ast.Tuple, ast.List)) and len(keys.elts) == 1 \
                    and isinstance(keys.elts[0], ast.Constant) and keys.elts[0].value == 0
                vals = n.args[2]
                ok_vals = isinstance(vals, (ast.Tuple, ast.List)) and len(vals.elts) == 1 and isinstance(vals.elts[0], ast.Name)
                c = f"{construct}#scalar-wrap:{sorted(roles)[0]}"
                sites += 1
                if ok_keys and ok_vals:
                    ctx.ok(c, n, call=un(n))
                elif not ok_keys and isinstance(keys, (ast.Tuple, ast.List)) and all(isinstance(e, ast.Constant) for e in keys.elts):
                    ctx.violation(c, f"a plain number is wrapped with keys {un(keys)} instead of the scalar key (0,)", n)
                else:
                    raise Unknown(c, f"unrecognised scalar wrapping {un(n)!r}", n)

    # mirror symmetry between the handling of the two operands
    one_sided = {1: [], 2: []}
    both = []
    for st in fn.body:
        if isinstance(st, ast.Expr) and isinstance(st.value, ast.Constant):
            continue
        names = names_read(st) | {t.id for t in ast.walk(st) if isinstance(t, ast.Name)}
        has1, has2 = p1 in names, p2 in names
        rebound = {t.id for t in ast.walk(st) if isinstance(t, ast.Name) and isinstance(t.ctx, ast.Store)}
        if (has1 != has2) and not ({p1, p2} & rebound) and not any(isinstance(x, (ast.Return, ast.Raise)) for x in ast.walk(st)):
            # reads one operand without normalising it (e.g. `use_bare = not mv1.algebra.wrapper`): no treatment of
            # the operand, nothing to mirror - what the operands go through is decided by C16.operand-kinds
            continue
        if has1 and not has2:
            one_sided[1].append(un(_renamed(st, {p1: "OPERAND"})))
        elif has2 and not has1:
            one_sided[2].append(un(_renamed(st, {p2: "OPERAND"})))
        elif has1 and has2:
            both.append(st)
    if sorted(one_sided[1]) == sorted(one_sided[2]):
        ctx.ok(f"{construct}#mirror", fn, one_sided_statements=len(one_sided[1]))
    else:
        only1 = [s for s in one_sided[1] if s not in one_sided[2]]
        only2 = [s for s in one_sided[2] if s not in one_sided[1]]
        ctx.violation(f"{construct}#mirror",
                      "the left and the right operand are not treated alike (callable unwrapping / scalar wrapping): "
                      f"left only: {only1}; right only: {only2}", fn)
    # the two list-mapping arms are each other's mirror image
    maps = [st for st in both if isinstance(st, ast.If) and "isinstance" in un(st.test)
            and any((call_name(c) or "").split(".")[-1] in self_call_names for c in ast.walk(st) if isinstance(c, ast.Call))]
    if len(maps) == 2:
        class _SwapArgs(ast.NodeTransformer):
            def visit_Call(self, node):
                self.generic_visit(node)
                if (call_name(node) or "").split(".")[-1] in self_call_names and len(node.args) == 2:
                    node.args = [node.args[1], node.args[0]]
                return node
        a = un(maps[0])
        b = un(_SwapArgs().visit(_renamed(maps[1], {p1: p2, p2: p1})))
        if a == b:
            ctx.ok(f"{construct}#mirror-mapping", maps[0])
        else:
            ctx.violation(f"{construct}#mirror-mapping",
                          f"the sequence-mapping arms for the two operands are not mirror images: {a!r} vs {b!r}", maps[1])
    elif maps:
        ctx.violation(f"{construct}#mirror-mapping", f"{len(maps)} sequence-mapping arm(s): a list or tuple is mapped "
                      f"over on one side only", maps[0])
    return sites


@rule("C16.positions", props=["C16", "C02", "C03"], min_instances=8, mutants=[
    ("swap recursion args in the list arm", ("operator_dict", "type(mv1)(self._call_binary(mv, mv2) for mv in mv1)",
                                             "type(mv1)(self._call_binary(mv2, mv) for mv in mv1)")),
    ("swap by-name call values", ("operator_dict", "self.algebra.numspace[func.__name__](mv1.values(), mv2.values())",
                                  "self.algebra.numspace[func.__name__](mv2.values(), mv1.values())")),
    ("unwrap mv2 from mv1", ("operator_dict", "            mv2 = mv2()", "            mv2 = mv1()")),
    ("scalar key (1,)", ("operator_dict", "MultiVector.fromkeysvalues(self.algebra, (0,), [mv2])",
                         "MultiVector.fromkeysvalues(self.algebra, (1,), [mv2])")),
    ("one-sided callable test", ("operator_dict", "while isinstance(mv2, Callable) and not isinstance(mv2, MultiVector):",
                                 "while isinstance(mv2, Callable):")),
], rewrites=[
    ("list comprehension in the mapping arms", [
        ("operator_dict", "type(mv2)(self._call_binary(mv1, mv) for mv in mv2)", "type(mv2)([self._call_binary(mv1, mv) for mv in mv2])"),
        ("operator_dict", "type(mv1)(self._call_binary(mv, mv2) for mv in mv1)", "type(mv1)([self._call_binary(mv, mv2) for mv in mv1])")]),
])
def positions(ctx):
    """_call_binary keeps 'left op right' operand positions through every unwrapping step (ORD + SIB)."""
    fn = ctx.func("operator_dict.OperatorDict._call_binary")
    check_positions(ctx, fn, "operator_dict.OperatorDict._call_binary")


# --------------------------------------------------------------------------- index uniformity
def _arr(name, log):
    from ..absint import Obj
    from ..symenv import Val
    o = Obj("ndarray-element", {"fmt": name, "shape": (4, 5)})
    # numpy: a[i] is a[(i,)] for every index that is not a tuple (an int, a slice, a list = fancy index of one axis)
    tup = lambda idx: idx if isinstance(idx, tuple) else (idx,)
    o.getitem = lambda idx: Val(f"{name}[{tup(idx)!r}]")
    o.methods["setitem"] = lambda idx, v: log.append(("set", name, tup(idx), str(v)))
    return o


@rule("C16.index-uniform", props=["C16"], min_instances=18, mutants=[
    ("a number among array coefficients is indexed like an array", ("multivector", "value if isinstance(value, Number) else value[item] for value in values", "value[item] for value in values")),
    ("a list index is spread over several axes", ("multivector", "    def __getitem__(self, item):\n        if not isinstance(item, tuple):", "    def __getitem__(self, item):\n        if not isinstance(item, (tuple, list)):")),
    ("a list index of an assignment is spread over several axes", ("multivector", "        if not isinstance(indices, tuple):\n            indices = (indices,)", "        if not isinstance(indices, (tuple, list)):\n            indices = (indices,)")),
    ("a multivector source is handed to one block assignment (F30)", ("multivector", "        if from_mv or isinstance(self.values(), (tuple, list)):", "        if isinstance(self.values(), (tuple, list)):")),
    ("ndarray assignment through an ellipsis", ("multivector", "            self.values()[(slice(None), *indices)] = values", "            self.values()[(..., *indices)] = values")),
    ("getitem indexes only with the first index", ("multivector", "value if isinstance(value, Number) else value[item] for value in values)", "value if isinstance(value, Number) else value[item[0]] for value in values)")),
    ("setitem pairs coefficients in reversed order", ("multivector", "            for self_values, other_value in zip(self.values(), values):", "            for self_values, other_value in zip(self.values(), reversed(values)):")),
    ("setitem skips the key check", ("multivector", "            if self.keys() != values.keys():\n                raise ValueError('setitem with a multivector is only possible for equivalent MVs.')", "            if len(self.keys()) != len(values.keys()):\n                raise ValueError('setitem with a multivector is only possible for equivalent MVs.')")),
])
def index_uniform(ctx):
    """Indexing / slice assignment apply one index to every coefficient, keep keys, and pair coefficient i with
    coefficient i; assignment from a multivector requires equal key tuples."""
    from ..absint import Obj, Unk
    from ..astx import NoValue
    from ..symenv import make_interp, rep_algebra, mv_obj, val_repr
    repo = ctx.repo
    M = "multivector.MultiVector"
    alg = rep_algebra(3)
    SL = slice(None)
    # __getitem__
    fn = ctx.func(f"{M}.__getitem__")
    # a list is numpy's fancy index for ONE axis: like an int or a slice it is one index, not a sequence of indices
    for label, item, want_idx in (("int", 3, (3,)), ("tuple", (1, 2), (1, 2)), ("slice", slice(0, 2), (slice(0, 2),)),
                                  ("list (fancy index of one axis)", [0, 2], ([0, 2],)), ("tuple holding a list", (1, [0, 2]), (1, [0, 2]))):
        c = f"{M}.__getitem__#list-backed:{label}"
        log = []
        mv = mv_obj(alg, (4, 1, 6), [_arr("A0", log), _arr("A1", log), _arr("A2", log)])
        try:
            out = make_interp(repo).run(f"{M}.__getitem__", [mv, item])
        except NoValue as exc:
            raise Unknown(c, str(exc), fn)
        ok = out[0] == "return" and isinstance(out[1], Obj) and tuple(out[1].attrs.get("_keys", ())) == (4, 1, 6) and \
            [val_repr(v) if isinstance(v, Obj) else v for v in out[1].attrs.get("_values", [])] == [f"A{i}[{want_idx!r}]" for i in range(3)]
        if ok:
            ctx.ok(c, fn)
        else:
            got = (tuple(out[1].attrs.get("_keys", ())), [str(v) for v in out[1].attrs.get("_values", [])]) if isinstance(out[1], Obj) else out
            ctx.violation(c, f"mv[{item!r}] on list-backed coefficients gives {got}; expected keys (4, 1, 6) and every "
                             f"coefficient indexed with {want_idx!r}", fn)
        c = f"{M}.__getitem__#ndarray-backed:{label}"
        seen = {}
        arr = Obj("ndarray", {"fmt": "ARR", "shape": (3, 4, 5)})
        arr.getitem = lambda idx, seen=seen: (seen.update(idx=idx), Obj("ndarray", {"fmt": "SUB"}))[1]
        mv = mv_obj(alg, (4, 1, 6), arr)
        try:
            out = make_interp(repo).run(f"{M}.__getitem__", [mv, item])
        except NoValue as exc:
            raise Unknown(c, str(exc), fn)
        if out[0] == "return" and seen.get("idx") == (SL,) + want_idx and tuple(out[1].attrs.get("_keys", ())) == (4, 1, 6):
            ctx.ok(c, fn)
        else:
            ctx.violation(c, f"mv[{item!r}] on ndarray-backed coefficients indexes the array with {seen.get('idx')!r}; expected "
                             f"(slice(None), *index) = {(SL,) + want_idx!r} - the first axis enumerates the blades", fn)
    # a plain number among array coefficients (what `array-valued + 2.5` stores on the scalar blade) stands for that number at
    # every index: indexing keeps it
    fn = ctx.func(f"{M}.__getitem__")
    for label, item, want_idx in (("int", 1, (1,)), ("tuple", (1, 0), (1, 0))):
        c = f"{M}.__getitem__#number among arrays:{label}"
        log = []
        mv = mv_obj(alg, (0, 1, 6), [2.5, _arr("A1", log), _arr("A2", log)])
        try:
            out = make_interp(repo).run(f"{M}.__getitem__", [mv, item])
        except NoValue as exc:
            raise Unknown(c, str(exc), fn)
        got = [val_repr(v) if isinstance(v, Obj) else v for v in out[1].attrs.get("_values", [])] if out[0] == "return" and isinstance(out[1], Obj) else None
        if got == [2.5, f"A1[{want_idx!r}]", f"A2[{want_idx!r}]"] and tuple(out[1].attrs.get("_keys", ())) == (0, 1, 6):
            ctx.ok(c, fn)
        else:
            ctx.violation(c, f"mv[{item!r}] of a multivector storing the number 2.5 next to array coefficients (the result of `arrays + 2.5`) "
                             f"gives {got if got is not None else out!r}; expected the number kept and every array indexed: indexing the result of an "
                             f"operator must equal the operator on the indexed operands", fn)
    # no array-valued coefficient at all: nothing to index - it must raise (Python's sequence protocol iterates a[0], a[1], ... until
    # an exception; an object that answers every index never ends list(a), numpy conversions, `ndarray * a`)
    fn = ctx.func(f"{M}.__getitem__")
    c = f"{M}.__getitem__#only plain numbers"
    mv = mv_obj(alg, (1, 6), [1.5, 2])
    try:
        out = make_interp(repo).run(f"{M}.__getitem__", [mv, 0])
    except NoValue as exc:
        raise Unknown(c, str(exc), fn)
    if out[0] == "raise":
        ctx.ok(c, fn, raises=out[1])
    else:
        ctx.violation(c, "mv[0] of a multivector whose coefficients are all plain numbers returns a multivector (for every index): iterating "
                         "such an object (list(mv), numpy's array conversion, `ndarray * mv`) never terminates", fn)
    # __setitem__
    fn = ctx.func(f"{M}.__setitem__")
    for label, indices, want_idx in (("int", 0, (0,)), ("tuple", (1, 2), (1, 2)), ("list (fancy index of one axis)", [0, 2], ([0, 2],))):
        c = f"{M}.__setitem__#list-backed:{label}"
        log = []
        mv = mv_obj(alg, (4, 1, 6), [_arr("A0", log), _arr("A1", log), _arr("A2", log)])
        other = mv_obj(alg, (4, 1, 6), [Val_("B0"), Val_("B1"), Val_("B2")])
        try:
            out = make_interp(repo).run(f"{M}.__setitem__", [mv, indices, other])
        except NoValue as exc:
            raise Unknown(c, str(exc), fn)
        want = [("set", f"A{i}", want_idx, f"B{i}") for i in range(3)]
        if out[0] == "return" and log == want:
            ctx.ok(c, fn)
        else:
            ctx.violation(c, f"mv[{indices!r}] = other performs {log}, expected coefficient i of other written to index "
                             f"{want_idx!r} of coefficient i: {want}", fn)
        c = f"{M}.__setitem__#ndarray-backed:{label}"
        stored = {}
        arr = Obj("ndarray", {"fmt": "ARR"})
        arr.methods["setitem"] = lambda idx, v, stored=stored: stored.update(idx=idx, value=str(v))
        mv = mv_obj(alg, (4, 1, 6), arr)
        rhs = Obj("ndarray", {"fmt": "RHS"})
        try:
            out = make_interp(repo).run(f"{M}.__setitem__", [mv, indices, rhs])
        except NoValue as exc:
            raise Unknown(c, str(exc), fn)
        if out[0] == "return" and stored.get("idx") == (SL,) + want_idx and stored.get("value") == "RHS":
            ctx.ok(c, fn)
        else:
            ctx.violation(c, f"mv[{indices!r}] = array assigns through index {stored.get('idx')!r}; expected (slice(None), "
                             f"*indices) = {(SL,) + want_idx!r}: with more than one trailing axis another slice of every "
                             f"coefficient is overwritten", fn)
    # ndarray-backed target, MULTIVECTOR source whose coefficients have fewer trailing axes than the addressed block (plain numbers
    # here): numpy aligns TRAILING axes, so handing the raw coefficient sequence to one block assignment lines the blade axis of the
    # source up with an element axis of the target (silently, when the sizes happen to agree; ValueError otherwise)
    for label, indices, want_idx in (("int", 0, (0,)), ("slice", SL, (SL,))):
        c = f"{M}.__setitem__#ndarray-backed, multivector source:{label}"
        log, stored = [], {}
        rows = [_arr(f"ROW{i}", log) for i in range(3)]
        arr = Obj("ndarray", {"fmt": "ARR", "shape": (3, 4, 5)})
        arr.methods["__iter__"] = lambda rows=rows: iter(rows)
        arr.methods["__len__"] = lambda: 3
        arr.methods["setitem"] = lambda idx, v, stored=stored: stored.update(idx=idx, value=v)
        mv = mv_obj(alg, (4, 1, 6), arr)
        src = [Val_("B0"), Val_("B1"), Val_("B2")]
        other = mv_obj(alg, (4, 1, 6), src)
        try:
            out = make_interp(repo).run(f"{M}.__setitem__", [mv, indices, other])
        except NoValue as exc:
            raise Unknown(c, str(exc), fn)
        want = [("set", f"ROW{i}", want_idx, f"B{i}") for i in range(3)]
        if out[0] == "raise":
            ctx.violation(c, f"mv[{indices!r}] = other raises {out[1]}", fn)
        elif not stored and log == want:
            ctx.ok(c, fn, by="coefficient by coefficient")
        elif stored and stored.get("value") is src and not log:
            ctx.violation(c, f"mv[{indices!r}] = other hands the coefficient sequence of `other` (blade axis leading, no trailing axes) to one "
                             f"block assignment {stored.get('idx')!r} of the (blades, 4, 5) array: numpy aligns trailing axes, so the blade axis "
                             f"of the source meets an element axis of the target - coefficients land on the wrong entries, or ValueError", fn)
        elif stored and not log:
            ctx.ok(c, fn, by="one block assignment of a re-shaped value (not followed)")
        else:
            ctx.violation(c, f"mv[{indices!r}] = other performs {log} {stored}, expected coefficient i of other written to index "
                             f"{want_idx!r} of coefficient i: {want}", fn)
    # assignment from a multivector with other keys must raise
    c = f"{M}.__setitem__#different-keys"
    log = []
    mv = mv_obj(alg, (4, 1, 6), [_arr("A0", log), _arr("A1", log), _arr("A2", log)])
    other = mv_obj(alg, (4, 6, 1), [Val_("B0"), Val_("B1"), Val_("B2")])
    try:
        out = make_interp(repo).run(f"{M}.__setitem__", [mv, 0, other])
    except NoValue as exc:
        raise Unknown(c, str(exc), fn)
    if out[0] == "raise" and not log:
        ctx.ok(c, fn, outcome=f"raises {out[1]}")
    else:
        ctx.violation(c, f"assigning a multivector with keys (4, 6, 1) into one with keys (4, 1, 6) performs {log} instead "
                         f"of raising: coefficients are copied onto other blades", fn)


def Val_(name):
    from ..symenv import Val
    return Val(name)


@rule("C16.itermv", props=["C16", "C20"], min_instances=4, mutants=[
    ("itermv iterates the first trailing axis only", ("multivector", "                for indices in product(*(range(n) for n in shape))", "                for indices in product(*(range(n) for n in shape[:1]))")),
    ("shape of list-backed coefficients omits the blade axis", ("multivector", "            return len(self), *shapes[0]", "            return shapes[0]")),
    ("shape looks at the first coefficient only", ("multivector", "        elif shapes := [v.shape for v in self._values if getattr(v, 'shape', ())]:", "        elif shapes := [v.shape for v in self._values[:1] if getattr(v, 'shape', ())]:")),
])
def itermv(ctx):
    """shape = (number of blades, *trailing shape) and itermv yields one multivector per trailing index, each
    indexing every coefficient with that index."""
    from ..absint import Obj
    from ..astx import NoValue
    from ..symenv import make_interp, rep_algebra, mv_obj, val_repr
    repo = ctx.repo
    M = "multivector.MultiVector"
    alg = rep_algebra(3)

    def arr(name, shape):
        o = Obj("ndarray-element", {"fmt": name, "shape": shape})
        o.getitem = lambda idx: Val_(f"{name}[{idx!r}]")
        return o
    for label, shape in (("trailing shape (2,)", (2,)), ("trailing shape (2, 3)", (2, 3)), ("scalar coefficients", None),
                         ("a plain number before the arrays, trailing shape (2,)", (2,))):
        c = f"{M}.itermv#{label}"
        fn = ctx.func(f"{M}.itermv")
        vals = [arr("X", shape), arr("Y", shape)] if shape else [Val_("X"), Val_("Y")]
        if label.startswith("a plain number"):
            # the scalar blade of `arrays + 2.5`: the multivector is array-valued all the same
            mv = mv_obj(alg, (0, 1, 2), [2.5] + vals)
            it = make_interp(repo)
            try:
                sh = it._instance_attr(mv, "shape")
                out = it.run(f"{M}.itermv", [mv])
            except NoValue as exc:
                raise Unknown(c, str(exc), fn)
            want = [[2.5, f"X[{(i,)!r}]", f"Y[{(i,)!r}]"] for i in range(2)]
            got = None
            if out[0] == "return" and isinstance(out[1], list):
                got = [[val_repr(v) if isinstance(v, Obj) else v for v in m.attrs["_values"]] for m in out[1] if isinstance(m, Obj)]
            if tuple(sh) == (3, 2) and got == want:
                ctx.ok(c, fn)
            else:
                ctx.violation(c, f"a multivector storing a plain number next to arrays of shape (2,) has shape {tuple(sh)} and itermv yields "
                                 f"{got if got is not None else out!r}; expected shape (3, 2) and one multivector per index with the number kept: {want}", fn)
            continue
        mv = mv_obj(alg, (1, 2), vals)
        it = make_interp(repo)
        try:
            sh = it._instance_attr(mv, "shape")
            out = it.run(f"{M}.itermv", [mv])
        except NoValue as exc:
            raise Unknown(c, str(exc), fn)
        want_shape = (2,) + (shape or ())
        problems = []
        if tuple(sh) != want_shape:
            problems.append(f"shape is {tuple(sh)}, expected {want_shape}")
        if shape is None:
            if out[0] != "return" or out[1] is not mv:
                problems.append("itermv of a multivector with scalar coefficients is not the multivector itself")
        else:
            from itertools import product
            want = [[f"X[{idx!r}]", f"Y[{idx!r}]"] for idx in product(*(range(n) for n in shape))]
            got = None
            if out[0] == "return" and isinstance(out[1], list):
                try:
                    got = [[val_repr(v) for v in m.attrs["_values"]] for m in out[1]]
                    if any(tuple(m.attrs["_keys"]) != (1, 2) for m in out[1]):
                        problems.append("an element multivector does not keep the keys")
                except Exception:
                    got = None
            if got != want:
                problems.append(f"itermv yields {got if got is not None else out!r}, expected one multivector per index: {want}")
        if problems:
            ctx.violation(c, "; ".join(problems), fn)
        else:
            ctx.ok(c, fn)


@rule("C16.operand-kinds", props=["C16", "C06", "C03", "C02"], min_instances=14, mutants=[
    ("a plain number only rescales the other operand for the 'linear' operators (sw, proj included)", ("operator_dict", "        # Make sure all inputs are multivectors. If an input is not, assume its scalar.\n        mv1 = mv1 if isinstance(mv1, MultiVector)", "        if self.name in ('gp', 'op', 'ip', 'sw', 'proj') and isinstance(mv1, MultiVector) and not isinstance(mv2, MultiVector):\n            return mv1.map(lambda v: v * mv2)\n        # Make sure all inputs are multivectors. If an input is not, assume its scalar.\n        mv1 = mv1 if isinstance(mv1, MultiVector)")),
    ("registered functions call a callable argument only once", ("operator_dict", "            # Call until no longer callable.\n            while isinstance(mv, Callable) and not isinstance(mv, MultiVector):\n                mv = mv()\n            mvs[i] = mv", "            if isinstance(mv, Callable) and not isinstance(mv, MultiVector):\n                mv = mv()\n            mvs[i] = mv")),
    ("sequences are mapped before callables are resolved", ("operator_dict", "        while isinstance(mv1, Callable) and not isinstance(mv1, MultiVector):\n            mv1 = mv1()\n        while isinstance(mv2, Callable) and not isinstance(mv2, MultiVector):\n            mv2 = mv2()\n        # If mv2 is a list, apply mv1 to all elements in the list\n        if isinstance(mv2, (tuple, list)):\n            return type(mv2)(self._call_binary(mv1, mv) for mv in mv2)\n        # If mv1 is a list, apply mv2 to all elements in the list\n        if isinstance(mv1, (tuple, list)):\n            return type(mv1)(self._call_binary(mv, mv2) for mv in mv1)\n",
        "        # If mv2 is a list, apply mv1 to all elements in the list\n        if isinstance(mv2, (tuple, list)):\n            return type(mv2)(self._call_binary(mv1, mv) for mv in mv2)\n        # If mv1 is a list, apply mv2 to all elements in the list\n        if isinstance(mv1, (tuple, list)):\n            return type(mv1)(self._call_binary(mv, mv2) for mv in mv1)\n        while isinstance(mv1, Callable) and not isinstance(mv1, MultiVector):\n            mv1 = mv1()\n        while isinstance(mv2, Callable) and not isinstance(mv2, MultiVector):\n            mv2 = mv2()\n")),
    ("callables are unwrapped only once", ("operator_dict", "        while isinstance(mv1, Callable) and not isinstance(mv1, MultiVector):\n            mv1 = mv1()", "        if isinstance(mv1, Callable) and not isinstance(mv1, MultiVector):\n            mv1 = mv1()")),
    ("a tuple operand yields a list", ("operator_dict", "            return type(mv2)(self._call_binary(mv1, mv) for mv in mv2)", "            return list(self._call_binary(mv1, mv) for mv in mv2)")),
])
def operand_kinds(ctx):
    """Decision table of _call_binary over operand kinds (multivector, number, list, tuple, callable, nested
    callable, callable returning a list) on either side: which cache lookups and calls happen, in which order, and
    what container comes back."""
    from ..absint import Obj, Unk
    from ..astx import NoValue
    from ..callsites import tok, tname
    from ..symenv import make_interp
    repo = ctx.repo
    q = "operator_dict.OperatorDict._call_binary"
    fn = ctx.func(q)

    def scenario(make_operands):
        log = []
        func = Obj("function", {"__name__": "FN", "fmt": "<FN>"}, call=lambda *a: (log.append(("call", tuple(tname(x) for x in a))), tok("VALUES_OUT"))[1])
        alg = Obj("algebra", {"wrapper": None, "simp_func": None, "numspace": {}, "codegen_symbolcls": None, "fmt": "ALG"})
        alg.methods["compare"] = lambda op, other: (other is alg) if op == "Eq" else (other is not alg) if op == "NotEq" else Unk("cmp")

        def getitem(key):
            log.append(("lookup", tname(key)))
            return (tok("KEYS_OUT"), func)
        me = Obj("OperatorDict", {"algebra": alg, "name": "cp"}, {"filter": lambda k, v: (k, v)}, getitem=getitem)

        def mv(i):
            return Obj("MultiVector", {"algebra": alg, "_keys": tok(f"K{i}"), "_values": tok(f"V{i}"), "issymbolic": False})

        def thunk(value):
            return Obj("function", {"fmt": "<thunk>"}, call=lambda: value)
        a, b = make_operands(mv, thunk)
        it = make_interp(repo)
        it.instance_classes.update({"OperatorDict": "operator_dict.OperatorDict"})
        out = it.run(q, [me, a, b])
        return out, log

    def shape(v):
        if isinstance(v, list):
            return ["list"] + [shape(x) for x in v]
        if isinstance(v, tuple):
            return ["tuple"] + [shape(x) for x in v]
        if isinstance(v, Obj) and v.kind == "MultiVector":
            return "mv"
        return repr(v)
    pair = lambda i, j: [("lookup", (f"K{i}", f"K{j}")), ("call", (f"V{i}", f"V{j}"))]
    cells = {
        "mv, mv": (lambda mv, th: (mv(1), mv(2)), "mv", pair(1, 2)),
        "callable, mv": (lambda mv, th: (th(mv(1)), mv(2)), "mv", pair(1, 2)),
        "mv, nested callable": (lambda mv, th: (mv(1), th(th(mv(2)))), "mv", pair(1, 2)),
        "nested callable, mv": (lambda mv, th: (th(th(th(mv(1)))), mv(2)), "mv", pair(1, 2)),
        "list, mv": (lambda mv, th: ([mv(1), mv(2)], mv(3)), ["list", "mv", "mv"], pair(1, 3) + pair(2, 3)),
        "mv, tuple": (lambda mv, th: (mv(1), (mv(2), mv(3))), ["tuple", "mv", "mv"], pair(1, 2) + pair(1, 3)),
        "callable returning a list, mv": (lambda mv, th: (th([mv(1), mv(2)]), mv(3)), ["list", "mv", "mv"], pair(1, 3) + pair(2, 3)),
        "mv, callable returning a tuple": (lambda mv, th: (mv(1), th((mv(2), mv(3)))), ["tuple", "mv", "mv"], pair(1, 2) + pair(1, 3)),
        "list of callables, mv": (lambda mv, th: ([th(mv(1)), mv(2)], mv(3)), ["list", "mv", "mv"], pair(1, 3) + pair(2, 3)),
    }
    # a plain number on either side is wrapped as the scalar multivector and goes through the operator's own generated
    # function - for EVERY binary operator of the registry (sw and proj are quadratic: "a number only rescales" is false)
    from ..surface import operator_registry
    binary_ops = [n for n, row in operator_registry(repo).items() if "Unary" not in row.dict_class]
    for side in (0, 1):
        c = f"{q}#kinds:plain number {'left' if side == 0 else 'right'}, every operator"
        bad = []
        for opname in binary_ops:
            log = []
            func = Obj("function", {"__name__": "FN", "fmt": "<FN>"}, call=lambda *a, log=log: (log.append(("call", tuple(tname(x) for x in a))), tok("VALUES_OUT"))[1])
            alg = Obj("algebra", {"wrapper": None, "simp_func": None, "numspace": {}, "codegen_symbolcls": None, "fmt": "ALG"})
            alg.methods["compare"] = lambda op, other, alg=alg: (other is alg) if op == "Eq" else (other is not alg) if op == "NotEq" else Unk("cmp")
            me = Obj("OperatorDict", {"algebra": alg, "name": opname}, {"filter": lambda k, v: (k, v)},
                     getitem=lambda key, log=log, func=func: (log.append(("lookup", tname(key))), (tok("KEYS_OUT"), func))[1])
            from ..symenv import Val
            mv = Obj("MultiVector", {"algebra": alg, "_keys": (4, 1), "_values": [Val("V4"), Val("V1")], "issymbolic": False})
            it = make_interp(repo)
            it.instance_classes.update({"OperatorDict": "operator_dict.OperatorDict"})
            try:
                out = it.run(q, [me, 3, mv] if side == 0 else [me, mv, 3])
            except NoValue as exc:
                raise Unknown(c, f"{opname}: {exc}", fn)
            want_key = ((0,), (4, 1)) if side == 0 else ((4, 1), (0,))
            lookups = [e for e in log if e[0] == "lookup"]
            calls = [e for e in log if e[0] == "call"]
            scaling_is_the_definition = {"gp", "op", "ip"} | ({"lc"} if side == 0 else {"rc"})
            if out[0] == "return" and not log and opname in scaling_is_the_definition and isinstance(out[1], Obj) \
                    and out[1].kind == "MultiVector" and tuple(out[1].attrs.get("_keys", ())) == (4, 1):
                continue        # number (.) x = number * x for these operators: rescaling the stored coefficients is the operator
            if out[0] == "raise" or lookups != [("lookup", want_key)] or len(calls) != 1:
                bad.append(f"{opname}: {out[0]} via {log}")
        if bad:
            ctx.violation(c, f"{len(bad)} of {len(binary_ops)} operators do not send a plain number through their own generated function "
                             f"(lookup with the scalar key (0,), one call): " + "; ".join(bad[:3]), fn)
        else:
            ctx.ok(c, fn, operators=len(binary_ops))
    # registered functions: the same treatment of callables and plain numbers for every argument
    qr = "operator_dict.Registry.__call__"
    fnr = ctx.func(qr)

    def reg_scenario(make_operands):
        log = []
        func = Obj("function", {"__name__": "FN", "fmt": "<FN>"}, call=lambda *a: (log.append(("call", tuple(tname(x) for x in a))), tok("VALUES_OUT"))[1])
        alg = Obj("algebra", {"wrapper": None, "simp_func": None, "numspace": {}, "codegen_symbolcls": None, "fmt": "ALG"})
        alg.methods["compare"] = lambda op, other: (other is alg) if op == "Eq" else (other is not alg) if op == "NotEq" else Unk("cmp")

        def getitem(key):
            log.append(("lookup", tname(key)))
            return (tok("KEYS_OUT"), func)
        me = Obj("Registry", {"algebra": alg, "name": "user_function"}, {}, getitem=getitem)

        def mv(i):
            return Obj("MultiVector", {"algebra": alg, "_keys": tok(f"K{i}"), "_values": tok(f"V{i}"), "issymbolic": False})

        def thunk(value):
            return Obj("function", {"fmt": "<thunk>"}, call=lambda: value)
        ops = make_operands(mv, thunk)
        it = make_interp(repo)
        it.instance_classes.update({"Registry": "operator_dict.Registry", "OperatorDict": "operator_dict.OperatorDict"})
        out = it.run(qr, [me] + list(ops))
        return out, log
    triple = [("lookup", ("K1", "K2", "K3")), ("call", ("V1", "V2", "V3"))]
    reg_cells = {
        "mv, mv, mv": (lambda mv, th: (mv(1), mv(2), mv(3)), triple),
        "callable, mv, nested callable": (lambda mv, th: (th(mv(1)), mv(2), th(th(mv(3)))), triple),
        "thrice nested callable first": (lambda mv, th: (th(th(th(mv(1)))), mv(2), mv(3)), triple),
    }
    for label, (mk, want_log) in reg_cells.items():
        c = f"{qr}#kinds:{label}"
        try:
            out, log = reg_scenario(mk)
        except NoValue as exc:
            raise Unknown(c, str(exc), fnr)
        if out[0] == "raise":
            ctx.violation(c, f"arguments ({label}) raise {out[1]}: a zero-argument callable (however deeply nested) must be "
                             f"replaced by its value", fnr)
        elif shape(out[1]) != "mv" or log != want_log:
            ctx.violation(c, f"arguments ({label}) give {shape(out[1])} via {log}; expected one lookup and one call in argument "
                             f"order {want_log}", fnr)
        else:
            ctx.ok(c, fnr)
    for label, (mk, want_shape, want_log) in cells.items():
        c = f"{q}#kinds:{label}"
        try:
            out, log = scenario(mk)
        except NoValue as exc:
            raise Unknown(c, str(exc), fn)
        if out[0] == "raise":
            ctx.violation(c, f"operands ({label}) raise {out[1]} instead of giving {want_shape}", fn)
        elif shape(out[1]) != want_shape or log != want_log:
            ctx.violation(c, f"operands ({label}) give {shape(out[1])} via {log}; expected {want_shape} via {want_log} "
                             f"(callables replaced by their value first, then sequences mapped element-wise in order)", fn)
        else:
            ctx.ok(c, fn, result=want_shape)
