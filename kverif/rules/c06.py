"""C06 - Sandwich, projection and squared norm equal their defining compositions."""
from __future__ import annotations

import ast

from ..astx import un, NoValue
from ..absint import Obj, Unk
from ..core import rule, fixture_for, Unknown
from ..optree import T
from ..surface import operator_registry
from ..symenv import tree_interp, make_interp, Val, val_repr
from ..callsites import ENTRY_POINTS, Scenario, run_entry, expected

INFO = {
    "id": "C06",
    "technique": "operator-tree normal forms in the free associative algebra with anti-involution (abstract "
                 "interpretation of the composite codegens through the repository's own dunder table); decision table of "
                 "OperatorDict.filter with value tokens; template extraction of the three filter call sites",
    "explanation": "Decided modulo C17/sympy (exact zero test): codegen_sw, codegen_proj and codegen_normsq denote "
                   "gp(gp(x,y),~x), gp(ip(x,y),~y) and gp(x,~x) as normal forms (association is free, so x*(y*~x) is "
                   "accepted and ~x*y*x is refuted), built through the same infix operators the user-level * | ~ resolve "
                   "to; OperatorDict.filter drops an entry iff its simplified value is falsy, stores the simplified value "
                   "and keeps key/value pairing; the filter runs only for symbolic operands; between the codegen result and "
                   "the emitted function no key is removed (canonical re-sort is a permutation).",
    "decided": ["C06.trees", "C06.semantic", "C06.filter", "C06.filter-sites", "C04.registry-names", "C08.codegen-pipeline"],
    "not_decided": ["sympy CSE / printing", "exactness of the zero test of sympy expressions (C17 covers the built-in class)"],
    "assumptions": ["M3: equality of normal forms is equality in every Clifford algebra", "C17.zero-test"],
}


def spec_trees():
    x, y = T.var("x"), T.var("y")
    return {
        "sw": ([x, y], x.gp(y).gp(x.reverse()), "x * y * ~x"),
        "proj": ([x, y], T.opaque("ip", (x, y)).gp(y.reverse()), "(x | y) * ~y"),
        "normsq": ([x], x.gp(x.reverse()), "x * ~x"),
    }


@rule("C06.trees", props=["C06", "C19"], min_instances=3, mutants=[
    ("sw as ~x * y * x", ("codegen", "    return x * y * ~x", "    return ~x * y * x")),
    ("sw without reversion", ("codegen", "    return x * y * ~x", "    return x * y * x")),
    ("proj with the outer product", ("codegen", "    return (x | y) * ~y", "    return (x ^ y) * ~y")),
    ("proj reverses x", ("codegen", "    return (x | y) * ~y", "    return (x | y) * ~x")),
    ("normsq with conjugate", ("codegen", "def codegen_normsq(x):\n    return x * ~x", "def codegen_normsq(x):\n    return x * x.conjugate()")),
    ("normsq reversed on the left", ("codegen", "def codegen_normsq(x):\n    return x * ~x", "def codegen_normsq(x):\n    return ~x * x")),
], rewrites=[
    ("sw re-associated", ("codegen", "    return x * y * ~x", "    return x * (y * ~x)")),
    ("sw via methods", ("codegen", "    return x * y * ~x", "    return x.gp(y).gp(x.reverse())")),
    ("normsq with a local", ("codegen", "def codegen_normsq(x):\n    return x * ~x", "def codegen_normsq(x):\n    xr = x.reverse()\n    return x * xr")),
])
def trees(ctx):
    """sw = x*y*~x, proj = (x|y)*~y, normsq = x*~x as operator-tree normal forms (OPT)."""
    repo = ctx.repo
    reg = operator_registry(repo)
    for op, (args, want, text) in spec_trees().items():
        cg = reg[op].codegen
        q = f"codegen.{cg}"
        fn = ctx.func(q)
        # grade / size cells of the operands (what a shortcut could be keyed on): the definition is the same in all of them
        full = (0, 1, 2, 3)
        cells = [("", {"grades": {"x": full, "y": full}, "__len__": {"x": 8, "y": 8}}), ("second operand a pure scalar", {"grades": {"x": (1, 2), "y": (0,)}, "__len__": {"x": 4, "y": 1}}),
                 ("first operand a pure scalar", {"grades": {"x": (0,), "y": (0, 2)}, "__len__": {"x": 1, "y": 4}}),
                 ("mixed parity operands", {"grades": {"x": (0, 1), "y": (1, 2, 3)}, "__len__": {"x": 4, "y": 7}})]
        for label, facts in cells:
            c = q + (f"#{label}" if label else "")
            it = tree_interp(repo, 3)
            if facts:
                it.tvar_facts = facts
            try:
                out = it.run(q, args)
            except NoValue as exc:
                if label:
                    continue            # the function does not look at this: covered by the generic cell
                raise Unknown(c, str(exc), fn)
            if out[0] == "raise":
                ctx.violation(c, f"{cg} raises {out[1]} on symbolic multivector operands", fn)
            elif not isinstance(out[1], T):
                raise Unknown(c, f"evaluates to {out[1]!r}", fn)
            elif out[1] == want:
                ctx.ok(c, fn, normal_form=repr(out[1]), definition=text)
            else:
                ctx.violation(c, f"{cg} denotes [{out[1]!r}] but the definition {text} denotes [{want!r}]" + (f" ({label})" if label else "") +
                                 ": they differ in some Clifford algebra (free-algebra normal forms differ)", fn, got=repr(out[1]), expected=repr(want))


SEMANTIC_REPS = {
    # operator: [(label, keys of x, keys of y)] in the algebra with one positive, one negative and one null generator
    "normsq": [("single blade squaring to -1", (3,), ()), ("single null blade", (4,), ()), ("single negative generator", (2,), ()),
               ("pure scalar", (0,), ()), ("rotor-like", (0, 3, 5), ()), ("every blade", (5, 0, 3, 6, 1, 7, 2, 4), ())],
    "sw": [("rotor on a vector", (0, 3), (1, 2, 4)), ("single blade on a single blade", (3,), (1,)), ("null blade on a vector", (6,), (1, 2)), ("scalar on a bivector", (0,), (3, 5)),
           ("vector on every blade", (1, 2, 4), (0, 1, 2, 3, 4, 5, 6, 7))],
    "proj": [("vector on a bivector", (1, 2), (3, 5)), ("single blade on a single blade", (1,), (3,)), ("bivector on a vector", (3, 6), (1, 2, 4)),
             ("mixed on a scalar", (0, 1, 7), (0,))],
}


@rule("C06.semantic", props=["C06", "C19"], min_instances=14, mutants=[
    ("normsq of a single blade is the square of its coefficient", ("codegen", "def codegen_normsq(x):\n    return x * ~x", "def codegen_normsq(x):\n    if len(x) == 1:\n        (v,) = x.values()\n        return {0: v * v}\n    return x * ~x")),
    ("sw of a single blade skips the reversion", ("codegen", "    return x * y * ~x", "    return x * y * x if len(x) == 1 else x * y * ~x")),
    ("proj onto a single blade divides nothing but forgets the reversion", ("codegen", "    return (x | y) * ~y", "    return (x | y) * (y if len(y) == 1 else ~y)")),
], rewrites=[
    ("normsq of a pure scalar is its square", ("codegen", "def codegen_normsq(x):\n    return x * ~x", "def codegen_normsq(x):\n    if x.keys() == (0,):\n        return x * x\n    return x * ~x")),
])
def semantic(ctx):
    """sw, proj and normsq interpreted from the source on representative operands with symbolic coefficients - single
    blades of every square (+1, -1, 0), scalars, mixed multivectors - where every elementary operator the function
    applies answers with the specification: whatever shortcut the function takes for operands of a special shape,
    what it returns is coefficient for coefficient x*y*~x, (x|y)*~y, x*~x."""
    from ..specmv import attach_spec_operators, as_spec, Spec
    from .c02 import operands
    repo = ctx.repo
    reg = operator_registry(repo)
    sig = [1, -1, 0]
    for op, reps in SEMANTIC_REPS.items():
        cg = reg[op].codegen
        q = f"codegen.{cg}"
        fn = ctx.func(q)
        for label, xk, yk in reps:
            c = f"{q}#semantic:{label}"
            alg, x, y = operands(sig, xk, yk)
            spec = attach_spec_operators(alg, sig)
            it = make_interp(repo)
            it.algebra = alg
            it.instance_classes["algebra"] = "algebra.Algebra"
            try:
                out = it.run(q, [x] if op == "normsq" else [x, y])
            except NoValue as exc:
                raise Unknown(c, str(exc), fn)
            if out[0] == "raise":
                ctx.violation(c, f"{cg} raises {out[1]} on {label}", fn)
                continue
            got = as_spec(out[1])
            if got is None:
                raise Unknown(c, f"evaluates to {out[1]!r}", fn)
            got = Spec.clean(got)
            xs, ys = as_spec(x), as_spec(y)
            want = spec.normsq(xs) if op == "normsq" else getattr(spec, op)(xs, ys)
            if got == want:
                ctx.ok(c, fn, blades=len(want))
            else:
                bad = [f"blade {k:#b}: got {got.get(k)!r}, the definition gives {want.get(k)!r}" for k in sorted(set(got) | set(want)) if got.get(k) != want.get(k)]
                ctx.violation(c, f"{op} ({label}, signature {sig}): " + "; ".join(bad[:3]), fn)


@rule("C06.filter", props=["C06", "C12"], min_instances=4, mutants=[
    ("a coefficient that vanishes at one sample point is dropped", ("operator_dict", "if (simpv := self.algebra.simp_func(v)))", "if not (isinstance(v, Expr) and v.free_symbols and v.subs({s: 7 for s in v.free_symbols}) == 0) and (simpv := self.algebra.simp_func(v)))")),
    ("filter tests v but stores the neighbour", ("operator_dict", "keysvalues = tuple((k, simpv) for k, v in zip(keys_out, values_out) if (simpv := self.algebra.simp_func(v)))",
                                                 "keysvalues = tuple((k, simpv) for (k, v), simpv in zip(zip(keys_out, values_out), map(self.algebra.simp_func, reversed(list(values_out)))) if self.algebra.simp_func(v))")),
    ("filter drops the truthy ones", ("operator_dict", "if (simpv := self.algebra.simp_func(v)))", "if not (simpv := self.algebra.simp_func(v)))")),
    ("filter stores unsimplified values", ("operator_dict", "keysvalues = tuple((k, simpv) for k, v in", "keysvalues = tuple((k, v) for k, v in")),
])
def filter_rule(ctx):
    """OperatorDict.filter drops exactly the entries whose simplified value is falsy and keeps pairing (DT)."""
    repo = ctx.repo
    q = "operator_dict.OperatorDict.filter"
    fn = ctx.func(q)
    simp = {"V1": "S1", "V2": 0, "V3": "S3", "V4": 0}

    def simp_func(v):
        r = simp[val_repr(v)]
        return Val(r) if isinstance(r, str) else r
    cells = {
        "mixed": ((1, 2, 4, 7), ["V1", "V2", "V3", "V4"], ((1, 4), ["S1", "S3"])),
        "all-zero": ((2, 7), ["V2", "V4"], ((), [])),
        "none-zero": ((4, 1), ["V3", "V1"], ((4, 1), ["S3", "S1"])),
    }
    for label, (keys, vals, want) in cells.items():
        c = f"{q}#{label}"
        me = Obj("OperatorDict", {"algebra": Obj("algebra", {"simp_func": Obj("simp_func", call=simp_func)})})
        it = make_interp(repo)
        it.instance_classes["OperatorDict"] = "operator_dict.OperatorDict"
        try:
            out = it.run(q, [me, keys, [Val(v) for v in vals]])
        except NoValue as exc:
            raise Unknown(c, str(exc), fn)
        if out[0] == "raise":
            ctx.violation(c, f"filter raises {out[1]} on {label} input", fn)
            continue
        try:
            k, v = out[1]
            got = (tuple(k), [val_repr(x) if isinstance(x, Obj) else x for x in v])
        except Exception:
            raise Unknown(c, f"filter returns {out[1]!r}", fn)
        if got == (tuple(want[0]), want[1]):
            ctx.ok(c, fn, kept=got)
        else:
            ctx.violation(c, f"filter({keys}, {vals}) with simp_func {simp} returns {got}, expected {want}: a blade is "
                             f"dropped although its coefficient is not identically zero, kept although it is, or a "
                             f"value is paired with another key", fn, got=got, expected=want)


    # a coefficient is dropped ONLY on the verdict of simp_func: sympy-expression-like coefficients that evaluate to 0
    # when probed at a point (subs / evalf / xreplace), but which simp_func does not simplify to zero, must all be kept
    c = f"{q}#probe-resistant"
    probes = []

    def expr(name):
        o = Obj("Expr", {"fmt": name, "name": name, "free_symbols": {Obj("Symbol", {"fmt": "s_" + name, "name": "s_" + name})},
                         "is_zero": None, "is_number": False})
        for m in ("subs", "evalf", "xreplace", "n", "simplify", "expand", "doit"):
            o.methods[m] = lambda *a, m=m, **k: (probes.append(m), 0)[1]
        o.methods["compare"] = lambda op, other: (probes.append("== " + repr(other)), Unk("sympy relational"))[1]
        return o
    vals = [expr("W1"), expr("W2"), expr("W3")]
    me = Obj("OperatorDict", {"algebra": Obj("algebra", {"simp_func": Obj("simp_func", call=lambda v: Val("S" + str(v)))})})
    it = make_interp(repo)
    it.instance_classes["OperatorDict"] = "operator_dict.OperatorDict"
    try:
        out = it.run(q, [me, (1, 2, 4), list(vals)])
    except NoValue as exc:
        raise Unknown(c, str(exc), fn)
    kept = tuple(out[1][0]) if out[0] == "return" and isinstance(out[1], tuple) else None
    if out[0] == "raise":
        ctx.violation(c, f"filter raises {out[1]} on sympy-like coefficients", fn)
    elif kept != (1, 2, 4):
        ctx.violation(c, f"filter keeps the blades {kept} of (1, 2, 4) although simp_func finds every coefficient non-zero; it probed the "
                         f"coefficients with {sorted(set(probes))}: a blade is dropped because its coefficient vanishes at some point, not "
                         f"because it is identically zero", fn)
    else:
        ctx.ok(c, fn, probes=sorted(set(probes)))


@rule("C06.filter-sites", props=["C06", "C12", "C16"], min_instances=9, mutants=[
    ("filter also numeric results", ("operator_dict", "        if issymbolic and self.algebra.simp_func:\n            keys_out, values_out = self.filter(keys_out, values_out)\n\n        return MultiVector.fromkeysvalues(self.algebra, keys=keys_out, values=values_out)\n\n\nclass UnaryOperatorDict",
                                     "        if self.algebra.simp_func:\n            keys_out, values_out = self.filter(keys_out, values_out)\n\n        return MultiVector.fromkeysvalues(self.algebra, keys=keys_out, values=values_out)\n\n\nclass UnaryOperatorDict")),
])
def filter_sites(ctx):
    """The zero-filter runs only for symbolic operands (numeric / array coefficients never reach a truth test)."""
    repo = ctx.repo
    for q, (kind, n) in ENTRY_POINTS.items():
        if kind == "Registry":
            continue
        fn = ctx.func(q)
        for sc in (Scenario((), False, True, n), Scenario({0}, False, True, n), Scenario({n - 1}, True, True, n),
                   Scenario({0}, False, False, n), Scenario((), True, True, n)):
            c = f"{q}#filter:{sc.label()}"
            try:
                log = run_entry(repo, q, sc)
            except NoValue as exc:
                raise Unknown(c, str(exc), fn)
            if log["out"][0] == "raise":
                ctx.violation(c, f"raises {log['out'][1]}", fn)
                continue
            want = expected(sc)
            applied = log["filter"] is not None
            if applied == bool(want["filtered"]):
                if applied and log["filter"] != ("KEYS_OUT", "VALUES_OUT"):
                    ctx.violation(c, f"the filter is applied to {log['filter']}, not to the keys/values of this call", fn)
                elif applied and (log.get("result_keys"), log.get("result_values")) != ("KEYS_FILTERED", "VALUES_FILTERED"):
                    ctx.violation(c, "the filtered keys/values are not the ones the result is built from", fn)
                else:
                    ctx.ok(c, fn, filtered=applied)
            elif applied:
                ctx.violation(c, f"the symbolic zero-filter is applied although no operand is symbolic / no simp_func is "
                                 f"set ({sc.label()}): numeric (array) coefficients reach a truth test and numeric zeros "
                                 f"change the stored blades", fn)
            else:
                ctx.violation(c, f"the symbolic zero-filter is not applied for symbolic operands ({sc.label()})", fn)
