"""C06 - Sandwich, projection and squared norm equal their defining compositions."""
from __future__ import annotations

import ast

from ..astx import un, NoValue
from ..absint import Obj, Unk
from ..core import rule, fixture_for, Unknown
from ..optree import T
from ..surface import operator_registry
from ..symenv import tree_interp, make_interp, Val, val_repr
from ..callsites import ENTRY_POINTS, Scenario, run_entry, expected

INFO = {
    "id": "C06",
    "technique": "operator-tree normal forms in the free associative algebra with anti-involution (abstract "
                 "interpretation of the composite codegens through the repository's own dunder table); decision table of "
                 "OperatorDict.filter with value tokens; template extraction of the three filter call sites",
    "explanation": "Decided modulo C17/sympy (exact zero test): codegen_sw, codegen_proj and codegen_normsq denote "
                   "gp(gp(x,y),~x), gp(ip(x,y),~y) and gp(x,~x) as normal forms (association is free, so x*(y*~x) is "
                   "accepted and ~x*y*x is refuted), built through the same infix operators the user-level * | ~ resolve "
                   "to; OperatorDict.filter drops an entry iff its simplified value is falsy, stores the simplified value "
                   "and keeps key/value pairing; the filter runs only for symbolic operands; between the codegen result and "
                   "the emitted function no key is removed (canonical re-sort is a permutation).",
    "decided": ["C06.trees", "C06.filter", "C06.filter-sites", "C04.registry-names", "C08.codegen-pipeline"],
    "not_decided": ["sympy CSE / printing", "exactness of the zero test of sympy expressions (C17 covers the built-in class)"],
    "assumptions": ["M3: equality of normal forms is equality in every Clifford algebra", "C17.zero-test"],
}


def spec_trees():
    x, y = T.var("x"), T.var("y")
    return {
        "sw": ([x, y], x.gp(y).gp(x.reverse()), "x * y * ~x"),
        "proj": ([x, y], T.opaque("ip", (x, y)).gp(y.reverse()), "(x | y) * ~y"),
        "normsq": ([x], x.gp(x.reverse()), "x * ~x"),
    }


@rule("C06.trees", props=["C06", "C19"], min_instances=3, mutants=[
    ("sw as ~x * y * x", ("codegen", "    return x * y * ~x", "    return ~x * y * x")),
    ("sw without reversion", ("codegen", "    return x * y * ~x", "    return x * y * x")),
    ("proj with the outer product", ("codegen", "    return (x | y) * ~y", "    return (x ^ y) * ~y")),
    ("proj reverses x", ("codegen", "    return (x | y) * ~y", "    return (x | y) * ~x")),
    ("normsq with conjugate", ("codegen", "def codegen_normsq(x):\n    return x * ~x", "def codegen_normsq(x):\n    return x * x.conjugate()")),
    ("normsq reversed on the left", ("codegen", "def codegen_normsq(x):\n    return x * ~x", "def codegen_normsq(x):\n    return ~x * x")),
], rewrites=[
    ("sw re-associated", ("codegen", "    return x * y * ~x", "    return x * (y * ~x)")),
    ("sw via methods", ("codegen", "    return x * y * ~x", "    return x.gp(y).gp(x.reverse())")),
    ("normsq with a local", ("codegen", "def codegen_normsq(x):\n    return x * ~x", "def codegen_normsq(x):\n    xr = x.reverse()\n    return x * xr")),
])
def trees(ctx):
    """sw = x*y*~x, proj = (x|y)*~y, normsq = x*~x as operator-tree normal forms (OPT)."""
    repo = ctx.repo
    reg = operator_registry(repo)
    for op, (args, want, text) in spec_trees().items():
        cg = reg[op].codegen
        q = f"codegen.{cg}"
        fn = ctx.func(q)
        it = tree_interp(repo, 3)
        try:
            out = it.run(q, args)
        except NoValue as exc:
            raise Unknown(q, str(exc), fn)
        if out[0] == "raise":
            ctx.violation(q, f"{cg} raises {out[1]} on symbolic multivector operands", fn)
        elif not isinstance(out[1], T):
            raise Unknown(q, f"evaluates to {out[1]!r}", fn)
        elif out[1] == want:
            ctx.ok(q, fn, normal_form=repr(out[1]), definition=text)
        else:
            ctx.violation(q, f"{cg} denotes [{out[1]!r}] but the definition {text} denotes [{want!r}]: they differ in "
                             f"some Clifford algebra (free-algebra normal forms differ)", fn, got=repr(out[1]), expected=repr(want))


@rule("C06.filter", props=["C06", "C12"], min_instances=3, mutants=[
    ("filter tests v but stores the neighbour", ("operator_dict", "keysvalues = tuple((k, simpv) for k, v in zip(keys_out, values_out) if (simpv := self.algebra.simp_func(v)))",
                                                 "keysvalues = tuple((k, simpv) for (k, v), simpv in zip(zip(keys_out, values_out), map(self.algebra.simp_func, reversed(list(values_out)))) if self.algebra.simp_func(v))")),
    ("filter drops the truthy ones", ("operator_dict", "if (simpv := self.algebra.simp_func(v)))", "if not (simpv := self.algebra.simp_func(v)))")),
    ("filter stores unsimplified values", ("operator_dict", "keysvalues = tuple((k, simpv) for k, v in", "keysvalues = tuple((k, v) for k, v in")),
])
def filter_rule(ctx):
    """OperatorDict.filter drops exactly the entries whose simplified value is falsy and keeps pairing (DT)."""
    repo = ctx.repo
    q = "operator_dict.OperatorDict.filter"
    fn = ctx.func(q)
    simp = {"V1": "S1", "V2": 0, "V3": "S3", "V4": 0}

    def simp_func(v):
        r = simp[val_repr(v)]
        return Val(r) if isinstance(r, str) else r
    cells = {
        "mixed": ((1, 2, 4, 7), ["V1", "V2", "V3", "V4"], ((1, 4), ["S1", "S3"])),
        "all-zero": ((2, 7), ["V2", "V4"], ((), [])),
        "none-zero": ((4, 1), ["V3", "V1"], ((4, 1), ["S3", "S1"])),
    }
    for label, (keys, vals, want) in cells.items():
        c = f"{q}#{label}"
        me = Obj("OperatorDict", {"algebra": Obj("algebra", {"simp_func": Obj("simp_func", call=simp_func)})})
        it = make_interp(repo)
        it.instance_classes["OperatorDict"] = "operator_dict.OperatorDict"
        try:
            out = it.run(q, [me, keys, [Val(v) for v in vals]])
        except NoValue as exc:
            raise Unknown(c, str(exc), fn)
        if out[0] == "raise":
            ctx.violation(c, f"filter raises {out[1]} on {label} input", fn)
            continue
        try:
            k, v = out[1]
            got = (tuple(k), [val_repr(x) if isinstance(x, Obj) else x for x in v])
        except Exception:
            raise Unknown(c, f"filter returns {out[1]!r}", fn)
        if got == (tuple(want[0]), want[1]):
            ctx.ok(c, fn, kept=got)
        else:
            ctx.violation(c, f"filter({keys}, {vals}) with simp_func {simp} returns {got}, expected {want}: a blade is "
                             f"dropped although its coefficient is not identically zero, kept although it is, or a "
                             f"value is paired with another key", fn, got=got, expected=want)


@rule("C06.filter-sites", props=["C06", "C12", "C16"], min_instances=9, mutants=[
    ("filter also numeric results", ("operator_dict", "        if issymbolic and self.algebra.simp_func:\n            keys_out, values_out = self.filter(keys_out, values_out)\n\n        return MultiVector.fromkeysvalues(self.algebra, keys=keys_out, values=values_out)\n\n\nclass UnaryOperatorDict",
                                     "        if self.algebra.simp_func:\n            keys_out, values_out = self.filter(keys_out, values_out)\n\n        return MultiVector.fromkeysvalues(self.algebra, keys=keys_out, values=values_out)\n\n\nclass UnaryOperatorDict")),
])
def filter_sites(ctx):
    """The zero-filter runs only for symbolic operands (numeric / array coefficients never reach a truth test)."""
    repo = ctx.repo
    for q, (kind, n) in ENTRY_POINTS.items():
        if kind == "Registry":
            continue
        fn = ctx.func(q)
        for sc in (Scenario((), False, True, n), Scenario({0}, False, True, n), Scenario({n - 1}, True, True, n),
                   Scenario({0}, False, False, n), Scenario((), True, True, n)):
            c = f"{q}#filter:{sc.label()}"
            try:
                log = run_entry(repo, q, sc)
            except NoValue as exc:
                raise Unknown(c, str(exc), fn)
            if log["out"][0] == "raise":
                ctx.violation(c, f"raises {log['out'][1]}", fn)
                continue
            want = expected(sc)
            applied = log["filter"] is not None
            if applied == bool(want["filtered"]):
                if applied and log["filter"] != ("KEYS_OUT", "VALUES_OUT"):
                    ctx.violation(c, f"the filter is applied to {log['filter']}, not to the keys/values of this call", fn)
                elif applied and (log.get("result_keys"), log.get("result_values")) != ("KEYS_FILTERED", "VALUES_FILTERED"):
                    ctx.violation(c, "the filtered keys/values are not the ones the result is built from", fn)
                else:
                    ctx.ok(c, fn, filtered=applied)
            elif applied:
                ctx.violation(c, f"the symbolic zero-filter is applied although no operand is symbolic / no simp_func is "
                                 f"set ({sc.label()}): numeric (array) coefficients reach a truth test and numeric zeros "
                                 f"change the stored blades", fn)
            else:
                ctx.violation(c, f"the symbolic zero-filter is not applied for symbolic operands ({sc.label()})", fn)
