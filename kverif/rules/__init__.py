"""Rule modules.  Importing this package registers every rule; PROPERTY_INFO collects the
per-property evidence texts (what is decided, what is not, assumptions)."""
import importlib
import pkgutil

PROPERTY_INFO = {}

COMMON_ASSUMPTIONS = [
    "CPython semantics of the statement kinds the anchored functions use",
    "sympy (simplify, cse, LambdaPrinter, sympify), numpy, traitlets/anywidget and ganja.js behave as documented",
    "the deciding step parses /repo/kingdon/**/*.py with the stdlib ast module and never imports or executes kingdon",
]

for _m in sorted(pkgutil.iter_modules(__path__), key=lambda m: m.name):
    if _m.name.startswith("c") and _m.name[1:].isdigit():
        _mod = importlib.import_module(f"{__name__}.{_m.name}")
        info = getattr(_mod, "INFO", None)
        if info:
            info = dict(info)
            info["assumptions"] = COMMON_ASSUMPTIONS + list(info.get("assumptions", []))
            PROPERTY_INFO[info["id"]] = info

# "decided" = the rules that actually run for the property (own rules first), with each rule's one-line statement
from ..core import RULES as _RULES   # noqa: E402

for _pid, _info in PROPERTY_INFO.items():
    _ids = sorted((r.id for r in _RULES.values() if _pid in r.props), key=lambda i: (not i.startswith(_pid + "."), i))
    _info["decided"] = [f"{i}: {' '.join((_RULES[i].fn.__doc__ or '').split())[:220]}" for i in _ids]
