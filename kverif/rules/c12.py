"""C12 - Symbolic evaluation commutes with numeric evaluation (structural single-sourcing clauses)."""
from __future__ import annotations

import ast

from ..astx import un, NoValue, call_name
from ..absint import Obj, Unk, PyFunc, ClassRef
from ..core import rule, fixture_for, Unknown
from ..symenv import make_interp, rep_algebra, mv_obj, Val, val_repr
from ..callsites import ENTRY_POINTS, Scenario, run_entry, expected, tname, tok

INFO = {
    "id": "C12",
    "technique": "template extraction of the four operator entry points over the (symbolic?, wrapper?, simp_func?) cell "
                 "partition; decision tables of OperatorDict.filter; order provenance of the call binding of symbolic "
                 "multivectors; abstract interpretation of the constructor for string coefficients",
    "explanation": "Clause-level. Decided: in every cell of (which operand is symbolic) x (wrapper set?) x (simp_func set?) "
                   "each entry point looks the cache up with the operands' key tuples in operand order, calls the function "
                   "of that same cache entry (directly, or its wrapped twin by that function's name when a wrapper is set "
                   "and nothing is symbolic) with the operands' value sequences in the same order, and builds the result "
                   "from the keys of that entry - so symbolic and numeric evaluation run the same generated function; the "
                   "zero filter drops only falsy simplified values and runs only for symbolic operands; calling a symbolic "
                   "multivector lambdifies its values with the free symbols sorted by name ascending, passes positional "
                   "arguments unchanged and orders keyword arguments by name ascending (the same order); string "
                   "coefficients are sympified on construction. NOT decided: that sympy's simplifier returns zero only for "
                   "identically-zero expressions and that generated arithmetic is a ring homomorphism on sympy objects.",
    "decided": ["C02.call-pairing", "C06.filter", "C06.filter-sites", "C12.binding-order", "C12.sympify",
                "C09.by-name-twin", "C12.simp-func", "C12.issymbolic", "C08.emitted-source", "C12.filter-history"],
    "not_decided": ["sympy.simplify / expand exactness", "generated arithmetic over sympy objects vs numbers"],
    "assumptions": ["the same generated function evaluated on numbers or on sympy expressions computes the same polynomial"],
}


def scenarios(n, kind):
    out = [Scenario((), False, True, n), Scenario((), True, True, n)]
    if kind != "Registry":
        out += [Scenario({0}, False, True, n), Scenario({n - 1}, True, True, n), Scenario({0}, True, False, n)]
    if n >= 2:
        out += [Scenario((), False, True, n, scalar_at=0), Scenario((), True, True, n, scalar_at=n - 1)]
    # an operand that stores no blade goes through the same look-up and the same generated function (what the code
    # generator raises for it - ZeroDivisionError in a degenerate algebra - must not be replaced by a silent result)
    out += [Scenario((), False, True, n, empty_at=0), Scenario((), True, True, n, empty_at=n - 1)]
    return out


@rule("C02.call-pairing", props=["C02", "C08", "C10", "C12", "C13", "C05", "C07", "C04"], min_instances=30, mutants=[
    ("a unary operator returns an operand without blades as it is", ("operator_dict", "    def __call__(self, mv):\n        keys_out, func = self[mv.keys()]", "    def __call__(self, mv):\n        if not mv.keys():\n            return mv\n        keys_out, func = self[mv.keys()]")),
    ("binary lookup with swapped key tuples", ("operator_dict", "        keys_out, func = self[mv1.keys(), mv2.keys()]", "        keys_out, func = self[mv2.keys(), mv1.keys()]")),
    ("unary wrapper path calls the unwrapped function of another name", ("operator_dict", "            values_out = self.algebra.numspace[func.__name__](mv.values())", "            values_out = self.algebra.numspace['OTHER'](mv.values())")),
    ("n-ary call passes reversed values", ("operator_dict", "        values_in = tuple(mv.values() for mv in mvs)\n        keys_out, func = self[keys_in]\n        issymbolic", "        values_in = tuple(mv.values() for mv in reversed(mvs))\n        keys_out, func = self[keys_in]\n        issymbolic")),
    ("result built with the input keys", ("operator_dict", "        return MultiVector.fromkeysvalues(self.algebra, keys=keys_out, values=values_out)\n\n\nclass Registry", "        return MultiVector.fromkeysvalues(self.algebra, keys=mv.keys(), values=values_out)\n\n\nclass Registry")),
    ("wrapper used for symbolic operands", ("operator_dict", "        if issymbolic or not mv1.algebra.wrapper:\n            values_out = func(mv1.values(), mv2.values())", "        if not mv1.algebra.wrapper:\n            values_out = func(mv1.values(), mv2.values())")),
])
def call_pairing(ctx):
    """Every entry point: lookup key, call arguments and result keys belong to one cache entry, in operand order;
    symbolic and numeric arms call the same generated function (directly or its by-name twin)."""
    repo = ctx.repo
    for q, (kind, n) in ENTRY_POINTS.items():
        fn = ctx.func(q)
        for sc in scenarios(n, kind):
            c = f"{q}#{sc.label()}"
            try:
                log = run_entry(repo, q, sc)
            except NoValue as exc:
                raise Unknown(c, str(exc), fn)
            if log["out"][0] == "raise":
                ctx.violation(c, f"raises {log['out'][1]}", fn)
                continue
            want = expected(sc)
            problems = []
            if len(log["lookups"]) != 1:
                problems.append(f"{len(log['lookups'])} cache lookups")
            elif log["lookups"][0] != want["key"]:
                problems.append(f"cache lookup key {log['lookups'][0]!r}, expected the operands' key tuples in operand order {want['key']!r}")
            if len(log["calls"]) != 1:
                problems.append(f"{len(log['calls'])} function calls")
            else:
                which, args = log["calls"][0]
                if which != want["which"]:
                    problems.append(f"calls the {which} function, expected the {want['which']} one "
                                    f"({'generated function of the cache entry' if want['which'] == 'direct' else 'wrapped twin stored under func.__name__'})")
                exp_args = tuple(v for v in want["values"])
                got_args = tuple(a if not (isinstance(a, (list, tuple)) and len(a) == 1) else None for a in args)
                for i, (g, w) in enumerate(zip(got_args, exp_args)):
                    if w is not None and g != w:
                        problems.append(f"argument {i} of the generated function is {args[i]!r}, expected {w!r}")
                    if w is None and not (isinstance(args[i], (list, tuple)) and len(args[i]) == 1 and args[i][0] == f"NUMBER{i}"):
                        problems.append(f"a plain-number operand is passed as {args[i]!r}, expected a one-element value sequence")
                if len(args) != len(exp_args):
                    problems.append(f"{len(args)} arguments for {len(exp_args)} operands")
            if not want["filtered"] and (log.get("result_keys"), log.get("result_values")) != ("KEYS_OUT", "VALUES_OUT"):
                problems.append(f"result is built from keys {log.get('result_keys')!r} / values {log.get('result_values')!r}, "
                                f"expected the keys_out of the looked-up entry and the values the function returned")
            if log.get("result_algebra") is False:
                problems.append("result does not belong to the operator's algebra")
            if problems:
                ctx.violation(c, "; ".join(problems), fn)
            else:
                ctx.ok(c, fn, lookup=log["lookups"][0], call=log["calls"][0])


# --------------------------------------------------------------------------- binding order
@rule("C12.binding-order", props=["C12", "C18"], min_instances=4, mutants=[
    ("keyword arguments in reverse name order", ("multivector", "            args = [kwargs[name] for name in names]", "            args = [kwargs[name] for name in reversed(names)]")),
    ("keyword arguments in call order", ("multivector", "            args = [kwargs[name] for name in names]", "            args = list(kwargs.values())")),
    ("keyword values sorted by keyword, the names then thrown away (F29)", ("multivector", "            if sorted(kwargs) != names:\n                raise TypeError(f'Expected values for the symbols {names}, but got {sorted(kwargs)}.')\n            args = [kwargs[name] for name in names]", "            args = [v for k, v in sorted(kwargs.items(), key=lambda x: x[0])]")),
    ("only the number of keywords is checked", ("multivector", "            if sorted(kwargs) != names:\n                raise TypeError(f'Expected values for the symbols {names}, but got {sorted(kwargs)}.')\n            args = [kwargs[name] for name in names]", "            if len(kwargs) != len(names):\n                raise TypeError('wrong number of values')\n            args = [kwargs[name] for name in sorted(kwargs)]")),
    ("free symbols unsorted", ("codegen", "args={'x': sorted(mv.free_symbols, key=lambda x: x.name)},", "args={'x': list(mv.free_symbols)},")),
    ("expressions listed in another order than the keys", ("codegen", "        exprs=list(mv.values()),\n        funcname=f'custom_{mv.type_number}',", "        exprs=sorted(mv.values(), key=str),\n        funcname=f'custom_{mv.type_number}',")),
])
def binding_order(ctx):
    """Calling a symbolic multivector binds positional arguments to its free symbols in name order and keyword
    arguments by name (ORD)."""
    repo = ctx.repo
    # _lambdify_mv: symbols sorted by name, expressions in key order
    q = "codegen._lambdify_mv"
    fn = ctx.func(q)
    syms = [Obj("symbol", {"name": n, "fmt": n}) for n in ("x10", "alpha", "x2", "beta", "x1", "X")]
    alg = rep_algebra(3, extra_attrs={"cse": True})
    mv = mv_obj(alg, (4, 1, 7), [Val("E3"), Val("E1"), Val("E123")])
    mv.attrs["free_symbols"] = list(syms)      # arbitrary (set) order
    captured = {}
    it = make_interp(repo)
    it.algebra = alg
    it.overrides["codegen.lambdify"] = PyFunc(lambda **kw: (captured.update(kw), Obj("function", {"name": "F"}))[1], "lambdify", True)
    try:
        out = it.run(q, [mv])
    except NoValue as exc:
        raise Unknown(q, str(exc), fn)
    problems = []
    args = captured.get("args")
    if not (isinstance(args, dict) and len(args) == 1):
        raise Unknown(q, f"lambdify called with args={args!r}", fn)
    names = [s.attrs["name"] for s in list(args.values())[0]]
    if names != sorted(n.attrs["name"] for n in syms):
        problems.append(f"free symbols are passed in the order {names}, expected sorted by name {sorted(n.attrs['name'] for n in syms)}")
    exprs = [val_repr(e) for e in captured.get("exprs", [])]
    res = out[1] if out[0] == "return" else None
    keys = list(res.attrs.get("keys_out")) if isinstance(res, Obj) and res.attrs.get("keys_out") is not None else None
    if exprs != ["E3", "E1", "E123"] or keys != [4, 1, 7]:
        problems.append(f"expressions {exprs} / keys {keys} are not the multivector's own values / keys in storage order")
    if problems:
        ctx.violation(q, "; ".join(problems), fn)
    else:
        ctx.ok(q, fn, symbols=names)
    # MultiVector.__call__
    q = "multivector.MultiVector.__call__"
    fn = ctx.func(q)
    all6 = ("x10", "alpha", "x2", "beta", "x1", "X")
    for label, free, args, kwargs, want in (
            ("positional", ("x10", "alpha", "x2"), [10, 20, 30], {}, [10, 20, 30]),
            ("keywords out of order", all6, [], {"x2": 2, "alpha": 1, "x10": 3, "x1": 4, "X": 0, "beta": 9}, [0, 1, 9, 4, 3, 2]),
            ("keywords in order", ("beta", "alpha"), [], {"alpha": 1, "beta": 5}, [1, 5]),
            # a keyword that names no free symbol must never be given to another symbol: raise, or leave it out
            ("a keyword that names no free symbol", ("b", "a"), [], {"a": 1, "c": 2}, None),
            ("a keyword that names no free symbol, sorting before the others", ("b", "c"), [], {"a": 1, "c": 2}, None)):
        c = f"{q}#{label}"
        got = {}
        func = Obj("function", call=lambda a: (got.update(args=list(a)), [Val("R0"), Val("R1")])[1])
        mvx = mv_obj(rep_algebra(3), (4, 1), [Val("E3"), Val("E1")])
        mvx.attrs["free_symbols"] = [Obj("symbol", {"name": n, "fmt": n}) for n in free]     # arbitrary (set) order
        mvx.attrs["_callable"] = ((2, 6), func)
        it = make_interp(repo)
        try:
            out = it.run(q, [mvx] + list(args), dict(kwargs))
        except NoValue as exc:
            raise Unknown(c, str(exc), fn)
        if want is None:
            names = sorted(free)
            misbound = [(k, n) for k, v in kwargs.items() for n, g in zip(names, got.get("args") or []) if g == v and k != n]
            if out[0] != "raise" and misbound:
                ctx.violation(c, f"free symbols {names}, call with {kwargs}: the lambdified function receives {got.get('args')}, so the value "
                                 f"given as `{misbound[0][0]}` is substituted for the symbol `{misbound[0][1]}` and no error is raised", fn)
            else:
                ctx.ok(c, fn, outcome="raises " + str(out[1]) if out[0] == "raise" else f"receives {got.get('args')}")
            continue
        if out[0] == "raise":
            ctx.violation(c, f"raises {out[1]}", fn)
        elif got.get("args") != want:
            ctx.violation(c, f"the lambdified function (symbols in name order) receives {got.get('args')}, expected {want}: "
                             f"values are bound to the wrong symbols", fn)
        elif not (isinstance(out[1], Obj) and tuple(out[1].attrs.get("_keys")) == (2, 6)
                  and [val_repr(v) for v in out[1].attrs.get("_values")] == ["R0", "R1"]):
            ctx.violation(c, "the result is not built from the keys of the lambdified function and the values it returned", fn)
        else:
            ctx.ok(c, fn, bound=want)


# --------------------------------------------------------------------------- sympify
@rule("C12.sympify", props=["C12"], min_instances=2, mutants=[
    ("strings kept as strings", ("multivector", "        if any(isinstance(v, str) for v in values):", "        if False and any(isinstance(v, str) for v in values):")),
])
def sympify_rule(ctx):
    """String coefficients are sympified on every constructor path."""
    repo = ctx.repo
    q = "multivector.MultiVector.__new__"
    fn = ctx.func(q)
    for label, args, kwargs in (("keys + values", [], {"keys": (1, 2), "values": ["a*b", Val("V")]}),
                                ("keyword blades", [], {"e1": "sin(t)", "e12": Val("V")})):
        c = f"{q}#sympify:{label}"
        it = make_interp(repo)
        alg = rep_algebra(3)
        it.algebra = alg
        it.standins["sympy.sympify"] = PyFunc(lambda s_: Obj("sympified", {"src": s_, "fmt": f"S({s_})"}), "sympify", True)
        try:
            out = it.run(q, [ClassRef("MultiVector"), alg] + args, kwargs)
        except NoValue as exc:
            raise Unknown(c, str(exc), fn)
        if out[0] == "raise":
            ctx.violation(c, f"raises {out[1]}", fn)
            continue
        vals = out[1].attrs.get("_values") if isinstance(out[1], Obj) else None
        if vals is None:
            raise Unknown(c, f"result {out[1]!r}", fn)
        if any(isinstance(v, str) for v in vals):
            ctx.violation(c, f"a string coefficient is stored as a string ({[v for v in vals if isinstance(v, str)]}): "
                             f"it is not recognised as symbolic and generated arithmetic concatenates/repeats text", fn)
        elif sum(1 for v in vals if isinstance(v, Obj) and v.kind == "sympified") == 1:
            ctx.ok(c, fn)
        else:
            raise Unknown(c, f"values {vals!r}", fn)


# --------------------------------------------------------------------------- which coefficients count as symbolic
@rule("C12.filter-history", props=["C12", "C06", "C09"], min_instances=3, mutants=[
    ("blades that cancelled once are remembered as structural zeros of the key pattern", [
        ("operator_dict", "    operator_dict: dict = field(default_factory=dict, init=False)\n", "    operator_dict: dict = field(default_factory=dict, init=False)\n    known_zeros: dict = field(default_factory=dict, init=False, repr=False)\n"),
        ("operator_dict", "        keysvalues = tuple((k, simpv) for k, v in zip(keys_out, values_out) if (simpv := self.algebra.simp_func(v)))\n        keys, values = zip(*keysvalues) if keysvalues else (tuple(), list())",
                          "        zeros = self.known_zeros.setdefault(tuple(keys_out), set())\n        keysvalues = tuple((k, simpv) for k, v in zip(keys_out, values_out) if k not in zeros and (simpv := self.algebra.simp_func(v)))\n        keys, values = zip(*keysvalues) if keysvalues else (tuple(), list())\n        zeros.update(set(keys_out) - set(keys))")]),
])
def filter_history(ctx):
    """The automatic simplification of a symbolic result is a function of THIS result only: each symbolic entry point is
    run twice on one operator-dictionary object (real entry point and real filter, interpreted from source) with the
    same key patterns - first with coefficients for which one blade cancels, then with coefficients for which nothing
    cancels - and the second result must keep every blade."""
    repo = ctx.repo
    for q, (kind, n) in ENTRY_POINTS.items():
        if kind == "Registry":
            continue
        fn = ctx.func(q)
        c = f"{q}#zero-filter history"
        keys_out = (1, 2, 4)
        rounds = [["P1", "ZERO", "P3"], ["Q1", "Q2", "Q3"]]
        state = {"round": 0}

        def sym(name):
            return Obj("Symbol", {"fmt": name, "name": name})

        def simp_func(v):
            return 0 if str(v) == "ZERO" else v
        func = Obj("function", {"__name__": "FN", "fmt": "<FN>"}, call=lambda *a: [sym(x) for x in rounds[state["round"]]])
        alg = Obj("algebra", {"wrapper": None, "simp_func": Obj("simp_func", call=simp_func), "numspace": {}, "codegen_symbolcls": None, "fmt": "ALG"})
        alg.methods["compare"] = lambda op, other, alg=alg: (other is alg) if op == "Eq" else (other is not alg) if op == "NotEq" else Unk("cmp")
        me = Obj(kind, {"algebra": alg, "name": "op", "codegen": tok("CODEGEN"), "operator_dict": {}}, {}, getitem=lambda key: (keys_out, func))
        it = make_interp(repo)
        it.instance_classes.update({"OperatorDict": "operator_dict.OperatorDict", "UnaryOperatorDict": "operator_dict.UnaryOperatorDict"})
        results = []
        try:
            for r in range(2):
                state["round"] = r
                ops = [Obj("MultiVector", {"algebra": alg, "_keys": (1 + i, 2 + i), "_values": [sym(f"a{r}{i}"), sym(f"b{r}{i}")], "issymbolic": True})
                       for i in range(n)]
                out = it.run(q, [me] + ops)
                if out[0] == "raise" or not (isinstance(out[1], Obj) and out[1].kind == "MultiVector"):
                    results.append(out)
                else:
                    results.append((tuple(out[1].attrs.get("_keys", ())), [str(v) for v in out[1].attrs.get("_values", [])]))
        except NoValue as exc:
            raise Unknown(c, str(exc), fn)
        want = [((1, 4), ["P1", "P3"]), ((1, 2, 4), ["Q1", "Q2", "Q3"])]
        if results == want:
            ctx.ok(c, fn, rounds=2)
        elif results[:1] != want[:1]:
            ctx.violation(c, f"a symbolic result with coefficients {rounds[0]} is filtered to {results[0]!r}, expected {want[0]}", fn)
        else:
            ctx.violation(c, f"after a call in which the coefficient of blade 2 cancelled, a second call with the same key patterns whose "
                             f"coefficients {rounds[1]} do not cancel returns {results[1]!r}, expected {want[1]}: a blade is dropped although "
                             f"its coefficient is not identically zero", fn)


VALUE_PRESERVING = {"simplify", "expand", "factor", "cancel", "together", "collect", "trigsimp", "radsimp", "ratsimp", "expand_mul",
                    "expand_trig", "expand_complex", "apart", "nsimplify", "sympify", "S", "Float", "Rational"}
ASSUMING = {"posify": "replaces symbols by positive ones", "refine": "simplifies under assumptions",
            "powdenest": "(x**a)**b -> x**(a*b) is valid only for positive x when forced", "powsimp": "combines powers under assumptions when forced",
            "logcombine": "combines logarithms under assumptions when forced", "expand_log": "valid only for positive arguments when forced",
            "expand_power_base": "valid only for non-negative bases when forced", "sqrtdenest": None, "N": "replaces exact numbers by floats",
            "evalf": "replaces exact numbers by floats"}


@rule("C12.simp-func", props=["C12"], min_instances=1, mutants=[
    ("default simplification de-nests powers by force", ("algebra", "sympy.simplify(sympy.expand(v)), repr=False, compare=False)", "sympy.powdenest(sympy.simplify(sympy.expand(v)), force=True), repr=False, compare=False)")),
    ("default simplification treats symbols as positive", ("algebra", "sympy.simplify(sympy.expand(v)), repr=False, compare=False)", "sympy.simplify(sympy.posify(sympy.expand(v))[0]), repr=False, compare=False)")),
    ("default simplification rounds", ("algebra", "sympy.simplify(sympy.expand(v)), repr=False, compare=False)", "sympy.simplify(sympy.expand(v)).evalf(6), repr=False, compare=False)")),
])
def simp_func_default(ctx):
    """The default simp_func, applied to every coefficient of every symbolic result, is a composition of sympy
    transformations that are valid for ALL values of the symbols (no forced / assumption-introducing rewriting, no
    rounding), and leaves non-sympy coefficients untouched."""
    cls = ctx.cls("algebra.Algebra")
    c = "algebra.Algebra.simp_func#default"
    fld = next((st for st in cls.body if isinstance(st, ast.AnnAssign) and isinstance(st.target, ast.Name) and st.target.id == "simp_func"), None)
    if fld is None:
        raise Unknown(c, "Algebra has no simp_func field", cls)
    default = fld.value
    if isinstance(default, ast.Call):
        default = next((kw.value for kw in default.keywords if kw.arg == "default"), None)
    if isinstance(default, ast.Name) and ctx.repo.has(f"algebra.{default.id}"):
        default = ctx.repo.lookup(f"algebra.{default.id}")
    if isinstance(default, ast.Constant) and default.value is None:
        ctx.ok(c, fld, default="None (no simplification)")
        return
    if not isinstance(default, (ast.Lambda, ast.FunctionDef)):
        raise Unknown(c, f"unrecognised default {un(default) if default is not None else None!r}", fld)
    problems = []
    for n in ast.walk(default):
        if not isinstance(n, ast.Call):
            continue
        name = (call_name(n) or un(n.func)).split(".")[-1]
        forced = any(kw.arg == "force" and not (isinstance(kw.value, ast.Constant) and kw.value.value is False) for kw in n.keywords)
        if name in ("isinstance", "hasattr", "getattr", "type", "callable"):
            continue
        if name in ASSUMING and (forced or name in ("posify", "refine", "N", "evalf")):
            problems.append(f"{un(n)[:60]}: {ASSUMING[name]}")
        elif forced:
            problems.append(f"{un(n)[:60]}: force=True rewrites under assumptions the symbols need not satisfy")
        elif name in VALUE_PRESERVING or name in ASSUMING:
            continue
        else:
            raise Unknown(c, f"the default simp_func calls {un(n.func)!r}, whose validity for all symbol values is not known to the checker", n)
    if problems:
        ctx.violation(c, "the default simp_func is not value preserving: " + "; ".join(problems) + " - a symbolic result then "
                         "differs from the numeric result for some values of the symbols (e.g. negative ones)", fld)
    else:
        ctx.ok(c, fld, default=un(default)[:120])


@rule("C12.issymbolic", props=["C12", "C16"], min_instances=7, mutants=[
    ("rational polynomials no longer count as symbolic", ("multivector", "        symbol_classes = (Expr, RationalPolynomial)", "        symbol_classes = (Expr,)")),
    ("all() instead of any(): mixed coefficients are numeric", ("multivector", "        return any(isinstance(v, symbol_classes) for v in self.values())", "        return all(isinstance(v, symbol_classes) for v in self.values())")),
])
def issymbolic(ctx):
    """A multivector is symbolic iff at least one coefficient is a sympy expression, a built-in rational
    polynomial, or an instance of the user's symbol class - any mix of symbolic and numeric coefficients included."""
    repo = ctx.repo
    q = "multivector.MultiVector.issymbolic"
    fn = ctx.func(q)
    expr = Obj("Expr", {"fmt": "sympy_expr"})
    ratp = Obj("RationalPolynomial", {"fmt": "ratpoly"})
    usersym = Obj("UserSymbol", {"fmt": "usersym"})
    user_cls = ClassRef("UserSymbol")
    bound_ctor = Obj("bound-method", {"__self__": ClassRef("UserSymbol"), "fmt": "UserSymbol.fromname"})
    cells = [
        ("numbers only", [1, 2.5], None, False), ("one sympy expression among numbers", [1, expr, 3], None, True),
        ("rational polynomial", [ratp], None, True), ("empty", [], None, False),
        ("user symbol class", [2, usersym], user_cls, True), ("user symbol class given as bound constructor", [usersym], bound_ctor, True),
        ("user class set, numeric coefficients", [1, 2], user_cls, False),
    ]
    for label, vals, symcls, want in cells:
        c = f"{q}#{label}"
        alg = rep_algebra(3, extra_attrs={"codegen_symbolcls": symcls})
        mv = mv_obj(alg, tuple(range(len(vals))), list(vals))
        it = make_interp(repo)
        try:
            got = it._instance_attr(mv, "issymbolic")
        except NoValue as exc:
            raise Unknown(c, str(exc), fn)
        if got is want:
            ctx.ok(c, fn)
        elif isinstance(got, Unk):
            raise Unknown(c, f"evaluates to {got!r}", fn)
        else:
            ctx.violation(c, f"issymbolic of coefficients ({label}) is {got!r}, expected {want}: symbolic operands would be "
                             f"sent down the numeric path (no zero filter, wrapped function) or vice versa", fn)


# --------------------------------------------------------------------------- the printer of generated functions
@rule("C12.reciprocal-print", props=["C12", "C16", "C07"], min_instances=1, mutants=[
    ("base and exponent of a reciprocal are printed side by side", ("codegen", "            return f'(1/({self._print(1 / expr)}))'", "            return f'(1/({self._print(expr.base)}**{-expr.exp}))'")),
    ("the reciprocal loses its exponent", ("codegen", "            return f'(1/({self._print(1 / expr)}))'", "            return f'(1/({self._print(expr.base)}))'")),
])
def reciprocal_print(ctx):
    """The package's own printer method for powers (a subclass of sympy's printer; sympy's own printing is trusted to bracket): the text
    it returns for base**(-n) must MEAN 1/base**n when the text of the base is a sum - evaluated here with exact fractions for the
    symbols.  (The rule applies only while the package defines such a method.)"""
    from fractions import Fraction
    repo = ctx.repo
    q = "codegen.ReciprocalLambdaPrinter._print_Pow"
    if not repo.has(q):
        ctx.ok("codegen#no printer method for powers of its own", None, module="codegen")
        return
    fn = ctx.func(q)
    env = {"a": Fraction(2), "b": Fraction(3)}

    def expr(text, value, kind="expr", **extra):
        o = Obj(kind, dict({"fmt": text, "value": value}, **extra))

        def binop(op, other, refl):
            if op == "Div" and refl and other == 1:
                return inverse_of[id(o)]
            return Unk("sympy arithmetic")
        o.methods["binop"] = binop
        return o

    def integer(n):
        o = Obj("Integer", {"fmt": str(n), "is_Integer": True, "is_negative": n < 0, "is_positive": n > 0, "value": n, "p": n})
        o.methods["unop"] = lambda op: integer(-n) if op == "USub" else o
        o.methods["compare"] = lambda op, other: {"Eq": n == other, "NotEq": n != other, "Lt": n < other, "Gt": n > other, "LtE": n <= other, "GtE": n >= other}[op] \
            if isinstance(other, int) else Unk("cmp")
        o.methods["__index__"] = lambda: n
        return o
    inverse_of = {}
    for base_text, base_val in (("a + b", Fraction(5)), ("a", Fraction(2)), ("a*b", Fraction(6))):
        for n in (1, 2, 3):
            c = f"{q}#({base_text})**(-{n})"
            base = expr(base_text, base_val)
            bracket = base_text if base_text.isidentifier() else f"({base_text})"
            pw = expr(f"{bracket}**(-{n})", 1 / base_val ** n, "Pow", base=base, exp=integer(-n))
            inv = expr(bracket if n == 1 else f"{bracket}**{n}", base_val ** n, "Pow" if n > 1 else "expr", base=base, exp=integer(n))
            inverse_of[id(pw)] = inv
            me = Obj("ReciprocalLambdaPrinter", {}, {
                "_print": lambda e, *a, **k: str(e) if isinstance(e, Obj) else repr(e),
                "_print_Pow": lambda e, *a, **k: str(e),          # sympy's own method (trusted): bracketed text
                "doprint": lambda e, *a, **k: str(e), "parenthesize": lambda e, *a, **k: f"({e})"})
            it = make_interp(repo)
            it.instance_classes["ReciprocalLambdaPrinter"] = "codegen.ReciprocalLambdaPrinter"
            try:
                out = it.run(q, [me, pw])
            except NoValue as exc:
                raise Unknown(c, str(exc), fn)
            if out[0] == "raise" or not isinstance(out[1], str):
                raise Unknown(c, f"prints {out!r}", fn)
            try:
                got = eval(compile(ast.parse(out[1], mode="eval"), "<printed>", "eval"), {"__builtins__": {}}, dict(env))
            except Exception as exc:        # noqa: BLE001 - any failure of the printed text is the finding
                ctx.violation(c, f"the text printed for ({base_text})**(-{n}) is {out[1]!r}, which does not evaluate ({type(exc).__name__})", fn)
                continue
            want = 1 / base_val ** n
            if got == want:
                ctx.ok(c, fn, printed=out[1])
            else:
                ctx.violation(c, f"the text printed for ({base_text})**(-{n}) is {out[1]!r}: with a = 2, b = 3 it evaluates to {got}, the power is {want} "
                                 f"- the base is printed without its brackets, so the generated function computes another expression", fn)
