"""C15 - Multivector construction and coefficient access round-trip."""
from __future__ import annotations

import ast

from ..astx import un, NoValue, call_name, kwarg, walk_shallow
from ..absint import Obj, Unk, Raised, ClassRef, Closure
from ..core import rule, fixture_for, Unknown
from ..symenv import make_interp, rep_algebra, Val, val_repr, mv_obj

INFO = {
    "id": "C15",
    "technique": "decision tables by abstract interpretation of MultiVector.__new__ / __getattr__ / accessors over "
                 "representatives of the input-form partition with symbolic coefficient tokens; literal-table check of "
                 "the convenience constructors",
    "explanation": "Clause-level. Decided on the source: (1) keyword construction - for each spelling class of a blade "
                   "(canonical, odd permutation, even permutation, unknown generator, two spellings of one blade) the "
                   "coefficient token ends up under the canonical key, negated iff the parity is odd, or an exception is "
                   "raised - never silently dropped; (2) __getattr__ decision table (non-blade name, unknown generator, "
                   "absent, present x parity); (3) convenience-constructor grade table; (4) the four inconsistency classes "
                   "raise before construction, and each consistent input form pairs every value token with its key; "
                   "(5) items/contains/grade/asfullmv/map/filter/indexing keep each value token with its own key. The "
                   "tokens are opaque, so each table row holds for every coefficient value. NOT decided: the full case "
                   "analysis of every combination of the seven input forms.",
    "decided": ["C15.kw-rekey", "C15.getattr", "C15.constructors", "C15.must-raise", "C15.input-forms", "C15.accessors"],
    "not_decided": ["combinations of input forms beyond the enumerated cells (value dependent)"],
    "assumptions": ["Algebra._blade2canon returns the canonical spelling and the swap count (C01.blade-parity)",
                    "Algebra.indices_for_grades maps a sorted grade tuple to the canonical key tuple of those grades"],
}

NEW = "multivector.MultiVector.__new__"
MVC = ClassRef("MultiVector")


def run_new(repo, alg, args=(), kwargs=None):
    it = make_interp(repo)
    it.algebra = alg
    return it.run(NEW, [MVC, alg] + list(args), dict(kwargs or {}))


def pairs_of(obj):
    """{key: token text} of a constructed multivector stand-in (or None)."""
    if not (isinstance(obj, Obj) and obj.kind == "MultiVector"):
        return None
    keys, vals = obj.attrs.get("_keys"), obj.attrs.get("_values")
    if isinstance(keys, (Unk, type(None))) or isinstance(vals, (Unk, type(None))):
        return None
    try:
        keys, vals = list(keys), list(vals)
    except TypeError:
        return None
    if len(keys) != len(vals):
        return {"__length_mismatch__": (len(keys), len(vals))}
    return {k: (val_repr(v) if isinstance(v, Obj) else v) for k, v in zip(keys, vals)}


# --------------------------------------------------------------------------- kw-rekey
KW_CELLS = [
    # label, kwargs (name -> token), expected pairs | 'raise' | ('either', [accepted pair dicts])
    ("canonical spelling", {"e12": "A"}, {3: "A"}),
    ("odd permutation", {"e21": "A"}, {3: "-A"}),
    ("even permutation", {"e312": "A"}, {7: "A"}),
    ("odd permutation of three", {"e132": "A"}, {7: "-A"}),
    ("even permutation next to a canonical blade", {"e312": "A", "e1": "B"}, {7: "A", 1: "B"}),
    ("odd permutation next to a canonical blade", {"e21": "A", "e3": "B"}, {3: "-A", 4: "B"}),
    ("unknown generator alone", {"e9": "A"}, "raise"),
    ("unknown generator next to a canonical blade", {"e9": "A", "e1": "B"}, "raise"),
    ("two spellings of one blade", {"e12": "A", "e21": "B"}, "raise"),
    ("the non-canonical spelling first", {"e21": "B", "e12": "A"}, "raise"),
    ("two non-canonical spellings of one blade", {"e132": "A", "e312": "B"}, "raise"),
    ("two non-canonical spellings next to another blade", {"e231": "A", "e2": "C", "e213": "B"}, "raise"),
]


def check_kw_rekey(ctx, repo, qual=NEW):
    fn = ctx.func(qual)
    for label, kw, want in KW_CELLS:
        c = f"{qual}#kw:{'+'.join(kw)}"
        alg = rep_algebra(3)
        try:
            out = run_new(repo, alg, kwargs={k: Val(v) for k, v in kw.items()})
        except NoValue as exc:
            raise Unknown(c, str(exc), fn)
        if out[0] == "raise":
            if want == "raise":
                ctx.ok(c, fn, cell=label, outcome=f"raises {out[1]}")
            else:
                ctx.violation(c, f"keyword construction ({label}: {kw}) raises {out[1]} instead of building "
                                 f"{want}", fn, cell=label)
            continue
        got = pairs_of(out[1])
        if got is None:
            raise Unknown(c, f"unrecognised construction result {out[1]!r}", fn)
        if want == "raise":
            supplied = set(kw.values())
            present = {str(v).lstrip("-") for v in got.values()}
            lost = sorted(supplied - present)
            if lost:
                ctx.violation(c, f"keyword construction ({label}: {kw}) silently drops the supplied coefficient(s) {lost}: "
                                 f"result is {got}; it must either keep every coefficient or raise", fn, cell=label, result=got)
            else:
                ctx.ok(c, fn, cell=label, outcome=got)
        elif got == want:
            ctx.ok(c, fn, cell=label, outcome=got)
        else:
            supplied = set(kw.values())
            present = {str(v).lstrip("-") for v in got.values()}
            lost = sorted(supplied - present)
            detail = f"drops {lost}" if lost else "puts a coefficient under the wrong key or with the wrong sign"
            ctx.violation(c, f"keyword construction ({label}: {kw}) gives {got}, expected {want}: {detail}", fn,
                          cell=label, result=got, expected=want)


@rule("C15.kw-rekey", props=["C15", "C01", "C14"], min_instances=12, mutants=[
    ("a duplicate is looked for among the spellings as typed only", ("multivector", "            for key in list(items.keys()):\n                if key not in algebra.canon2bin:\n                    target, swaps = algebra._blade2canon(key)\n                    if target not in algebra.canon2bin or target in items:", "            given = tuple(items)\n            for key in given:\n                if key not in algebra.canon2bin:\n                    target, swaps = algebra._blade2canon(key)\n                    if target not in algebra.canon2bin or target in given:")),
    ("negate on even parity", ("multivector", "items[target] = - value if swaps % 2 else value", "items[target] = value if swaps % 2 else - value")),
    ("never negate", ("multivector", "items[target] = - value if swaps % 2 else value", "items[target] = value")),
])
def kw_rekey(ctx):
    """Keyword blades are re-keyed to the canonical blade on every path; only the sign depends on parity (DT)."""
    check_kw_rekey(ctx, ctx.repo)


# --------------------------------------------------------------------------- getattr
GA = "multivector.MultiVector.__getattr__"
MV_KEYS = (4, 3, 0, 7)            # storage order e3, e12, e, e123
MV_VALS = ("V0", "V1", "V2", "V3")
GETATTR_CELLS = {
    "e12": "V1", "e21": "-V1", "e3": "V0", "e": "V2", "e123": "V3", "e312": "V3", "e231": "V3", "e132": "-V3",
    "e213": "-V3", "e2": 0, "e32": 0, "e9": 0, "e19": 0,
}


def _mv(alg=None, keys=MV_KEYS, vals=MV_VALS, as_list=True):
    alg = alg or rep_algebra(3)
    values = [Val(v) for v in vals]
    return mv_obj(alg, tuple(keys), values if as_list else tuple(values))


def check_getattr(ctx, repo, qual=GA):
    fn = ctx.func(qual)
    for name, want in GETATTR_CELLS.items():
        c = f"{qual}#{name}"
        it = make_interp(repo)
        try:
            out = it.run(qual, [_mv(), name])
        except NoValue as exc:
            raise Unknown(c, str(exc), fn)
        if out[0] == "raise":
            ctx.violation(c, f"x.{name} raises {out[1]}, expected {want}", fn)
            continue
        got = val_repr(out[1]) if isinstance(out[1], Obj) else out[1]
        if isinstance(out[1], Unk):
            raise Unknown(c, f"x.{name} evaluates to {out[1]!r}", fn)
        if got == want:
            ctx.ok(c, fn, value=got)
        else:
            ctx.violation(c, f"x.{name} reads {got!r} from a multivector storing e3=V0, e12=V1, e=V2, e123=V3; expected "
                             f"{want!r} (a permuted spelling flips the sign by its parity, absent blades read as 0)",
                          fn, got=got, expected=want)
    for name in ("shape_", "foo", "E1"):
        c = f"{qual}#non-blade:{name}"
        it = make_interp(repo)
        try:
            out = it.run(qual, [_mv(), name])
        except NoValue as exc:
            raise Unknown(c, str(exc), fn)
        if out == ("raise", "AttributeError"):
            ctx.ok(c, fn, outcome="AttributeError")
        else:
            ctx.violation(c, f"attribute {name!r} is not a blade name but gives {out} instead of AttributeError "
                             f"(hasattr/copy/numpy protocols rely on it)", fn)


@rule("C15.getattr", props=["C15"], min_instances=14, mutants=[
    ("drop the parity negation", ("multivector", "return self._values[idx] if swaps % 2 == 0 else - self._values[idx]", "return self._values[idx]")),
    ("parity test inverted", ("multivector", "return self._values[idx] if swaps % 2 == 0 else - self._values[idx]", "return self._values[idx] if swaps % 2 else - self._values[idx]")),
    ("index into canonical position", ("multivector", "            idx = self.keys().index(self.algebra.canon2bin[basis_blade])\n        except ValueError:\n            return 0\n        return self._values",
                                       "            idx = list(self.algebra.canon2bin.values()).index(self.algebra.canon2bin[basis_blade])\n        except ValueError:\n            return 0\n        return self._values")),
], rewrites=[
    ("(-1) ** swaps form", ("multivector", "return self._values[idx] if swaps % 2 == 0 else - self._values[idx]", "return - self._values[idx] if swaps & 1 else self._values[idx]")),
])
def getattr_table(ctx):
    """Coefficient access: parity sign, absent -> 0, non-blade -> AttributeError (DT)."""
    check_getattr(ctx, ctx.repo)


# --------------------------------------------------------------------------- constructors (literal table)
CONSTRUCTOR_GRADES = {
    "scalar": "0", "vector": "1", "bivector": "2", "trivector": "3", "quadvector": "4",
    "pseudoscalar": "d-0", "pseudovector": "d-1", "pseudobivector": "d-2", "pseudotrivector": "d-3",
    "pseudoquadvector": "d-4",
}


def _grade_form(node):
    """'k' or 'd-k' for an expression k / self.d - k."""
    if isinstance(node, ast.Constant) and isinstance(node.value, int):
        return str(node.value)
    if isinstance(node, ast.BinOp) and isinstance(node.op, ast.Sub) and un(node.left) == "self.d" \
            and isinstance(node.right, ast.Constant) and isinstance(node.right.value, int):
        return f"d-{node.right.value}"
    if un(node) == "self.d":
        return "d-0"
    return None


@rule("C15.constructors", props=["C15"], min_instances=12, mutants=[
    ("pseudobivector -> d - 3", ("algebra", "return self.purevector(*args, grade=self.d - 2, **kwargs)", "return self.purevector(*args, grade=self.d - 3, **kwargs)")),
    ("oddmv selects even grades", ("algebra", "grades = tuple(filter(lambda x: x % 2 == 1, range(self.d + 1)))", "grades = tuple(filter(lambda x: x % 2 == 0, range(self.d + 1)))")),
    ("evenmv misses the top grade", ("algebra", "grades = tuple(filter(lambda x: x % 2 == 0, range(self.d + 1)))", "grades = tuple(filter(lambda x: x % 2 == 0, range(self.d)))")),
])
def constructors(ctx):
    """Convenience constructors select the grades their names say (TAB)."""
    repo = ctx.repo
    for name, want in CONSTRUCTOR_GRADES.items():
        q = f"algebra.Algebra.{name}"
        fn = ctx.func(q)
        calls = [c for c in walk_shallow(fn) if isinstance(c, ast.Call) and (call_name(c) or "").endswith("purevector")]
        if len(calls) != 1 or kwarg(calls[0], "grade") is None:
            raise Unknown(q, "does not forward to purevector(grade=...)", fn)
        got = _grade_form(kwarg(calls[0], "grade"))
        if got is None:
            raise Unknown(q, f"unrecognised grade expression {un(kwarg(calls[0], 'grade'))}", fn)
        if got == want:
            ctx.ok(q, fn, grade=got)
        else:
            ctx.violation(q, f"Algebra.{name} builds grade {got}, its name means grade {want}", fn)
    # purevector -> grades=(grade,)
    q = "algebra.Algebra.purevector"
    fn = ctx.func(q)
    calls = [c for c in walk_shallow(fn) if isinstance(c, ast.Call) and call_name(c) == "MultiVector"]
    g = kwarg(calls[0], "grades") if calls else None
    if g is not None and isinstance(g, ast.Tuple) and len(g.elts) == 1 and un(g.elts[0]) == "grade":
        ctx.ok(q, fn, grades=un(g))
    elif g is None:
        raise Unknown(q, "no MultiVector(..., grades=...) call", fn)
    else:
        ctx.violation(q, f"purevector passes grades={un(g)}, expected (grade,)", fn)
    # evenmv / oddmv by abstract interpretation over the dimension
    for name, parity in (("evenmv", 0), ("oddmv", 1)):
        q = f"algebra.Algebra.{name}"
        fn = ctx.func(q)
        for d in (0, 1, 2, 3, 4, 5):
            seen = {}
            it = make_interp(repo)

            def cls_call(cname, args, kwargs, seen=seen):
                if cname == "MultiVector":
                    seen["grades"] = kwargs.get("grades")
                    return Obj("MultiVector")
                return NotImplemented
            it.class_call_hook = cls_call
            it.instance_classes["Algebra"] = "algebra.Algebra"     # helpers of the class are resolved from the source
            try:
                it.run(q, [Obj("Algebra", {"d": d})])
            except NoValue as exc:
                raise Unknown(q, str(exc), fn)
            want = tuple(g for g in range(d + 1) if g % 2 == parity)
            got = seen.get("grades")
            if isinstance(got, list):
                got = tuple(got)
            if not isinstance(got, tuple):
                raise Unknown(q, f"the grades handed to the constructor evaluate to {got!r}", fn)
            if got != want:
                ctx.violation(q, f"Algebra.{name} in {d} dimensions selects grades {got}, expected {want}", fn)
                break
        else:
            ctx.ok(q, fn, dims=[0, 1, 2, 3, 4, 5])


# --------------------------------------------------------------------------- must-raise / input forms
def check_must_raise(ctx, repo, qual=NEW):
    fn = ctx.func(qual)
    cells = [
        ("length mismatch (2 keys, 1 value)", rep_algebra(3), {"keys": (1, 2), "values": [Val("A")]}),
        ("length mismatch (1 key, 2 values)", rep_algebra(3), {"keys": (1,), "values": [Val("A"), Val("B")]}),
        ("length mismatch (3 values for grade 2 of 2D)", rep_algebra(2), {"values": [Val("A"), Val("B"), Val("C")], "grades": (2,)}),
        ("keys outside the declared grades", rep_algebra(3), {"keys": (3,), "values": [Val("A")], "grades": (1,)}),
        ("string key outside the declared grades", rep_algebra(3), {"keys": ("e12",), "values": [Val("A")], "grades": (1,)}),
        ("grade above d", rep_algebra(3), {"values": [Val("A")], "grades": (4,)}),
        ("negative grade", rep_algebra(3), {"values": [Val("A")], "grades": (-1,)}),
        ("incomplete grade in graded mode", rep_algebra(3, graded=True), {"keys": (1, 2), "values": [Val("A"), Val("B")]}),
        ("permuted grade in graded mode", rep_algebra(3, graded=True), {"keys": (2, 1, 4), "values": [Val("A"), Val("B"), Val("C")]}),
        ("incomplete grade in graded mode, as a mapping", rep_algebra(3, graded=True), {"values": {"e1": Val("A"), "e2": Val("B")}}),
        ("incomplete grade in graded mode, as a mapping with int keys", rep_algebra(3, graded=True), {"values": {1: Val("A")}}),
        ("permuted grade in graded mode, as a mapping", rep_algebra(3, graded=True), {"values": {2: Val("B"), 1: Val("A"), 4: Val("C")}}),
        ("one blade twice among the keys", rep_algebra(3), {"keys": (1, 1), "values": [Val("A"), Val("B")]}),
        ("one blade by name and by key", rep_algebra(3), {"keys": ("e1", 1), "values": [Val("A"), Val("B")]}),
        ("one blade by name and by key in a mapping", rep_algebra(3), {"values": {"e2": Val("A"), 2: Val("B")}}),
    ]
    for label, alg, kw in cells:
        c = f"{qual}#must-raise:{label}"
        try:
            out = run_new(repo, alg, kwargs=kw)
        except NoValue as exc:
            raise Unknown(c, str(exc), fn)
        if out[0] == "raise":
            ctx.ok(c, fn, outcome=f"raises {out[1]}")
        else:
            ctx.violation(c, f"inconsistent input ({label}) builds a multivector {pairs_of(out[1])} instead of raising", fn,
                          result=pairs_of(out[1]))
    # keyword blades next to values / keys (documented as mutually exclusive): raise, or keep every supplied coefficient
    mixed = [
        ("mapping and a keyword blade", rep_algebra(3), {"values": {"e1": Val("A")}, "e2": Val("B")}),
        ("keys, values and a keyword blade", rep_algebra(3), {"keys": (1,), "values": [Val("A")], "e12": Val("B")}),
        ("a grade's value list and a keyword blade", rep_algebra(3), {"values": [Val("A"), Val("C"), Val("D")], "grades": (1,), "e12": Val("B")}),
    ]
    for label, alg, kw in mixed:
        c = f"{qual}#mixed-forms:{label}"
        try:
            out = run_new(repo, alg, kwargs=kw)
        except NoValue as exc:
            raise Unknown(c, str(exc), fn)
        if out[0] == "raise":
            ctx.ok(c, fn, outcome=f"raises {out[1]}")
            continue
        got = pairs_of(out[1])
        if got is None:
            raise Unknown(c, f"unrecognised construction result {out[1]!r}", fn)
        if "B" in {str(v).lstrip("-") for v in got.values()}:
            ctx.ok(c, fn, outcome=got)
        else:
            ctx.violation(c, f"{label}: the coefficient B supplied as a keyword blade is silently dropped (result {got}); the forms are "
                             f"documented as mutually exclusive, so the call must raise (or keep every supplied coefficient)", fn, result=got)


@rule("C15.must-raise", props=["C15", "C13"], min_instances=18, mutants=[
    ("a blade may be given twice", ("multivector", "        if len(set(keys)) != len(keys):\n            raise ValueError(\"A basis blade is given more than once.\")\n", "")),
    ("keyword blades next to values are ignored", ("multivector", "        if items and (keys is not None or values is not None):\n            raise ValueError(\"Keyword blades cannot be combined with `values` or `keys`.\")\n", "")),
    ("graded check dropped", ("multivector", "if algebra.graded and keys and keys != algebra.indices_for_grades[grades]:", "if False and keys != algebra.indices_for_grades[grades]:")),
    ("graded check compares key sets", ("multivector", "if algebra.graded and keys and keys != algebra.indices_for_grades[grades]:", "if algebra.graded and keys and set(keys) != set(algebra.indices_for_grades[grades]):")),
    ("subset check dropped", ("multivector", "        if not set(keys) <= set(algebra.indices_for_grades[grades]):\n            raise ValueError(f\"All keys should be of grades {grades}.\")\n", "")),
    ("length check only one way", ("multivector", "elif len(keys) != len(values):", "elif len(keys) < len(values):")),
])
def must_raise(ctx):
    """Length mismatch, keys outside grades, invalid grades, incomplete graded keys raise before construction (DT)."""
    check_must_raise(ctx, ctx.repo)


def check_input_forms(ctx, repo, qual=NEW):
    fn = ctx.func(qual)
    A, B, C = "A", "B", "C"
    full2 = [f"F{i}" for i in range(4)]
    cells = [
        ("keys + values", rep_algebra(3), (), {"keys": (4, 1), "values": [Val(A), Val(B)]}, {4: A, 1: B}),
        ("positional values, keys", rep_algebra(3), ([Val(A), Val(B)], (4, 1)), {}, {4: A, 1: B}),
        ("string keys", rep_algebra(3), (), {"keys": ("e3", "e12"), "values": [Val(A), Val(B)]}, {4: A, 3: B}),
        ("mapping with int keys", rep_algebra(3), ({6: Val(A), 1: Val(B)},), {}, {6: A, 1: B}),
        ("mapping with blade names", rep_algebra(3), ({"e23": Val(A), "e1": Val(B)},), {}, {6: A, 1: B}),
        ("full value list (canonical order)", rep_algebra(2), ([Val(x) for x in full2],), {}, {0: "F0", 1: "F1", 2: "F2", 3: "F3"}),
        ("grade-restricted value list", rep_algebra(3), ([Val(A), Val(B), Val(C)],), {"grades": (2,)}, {3: A, 5: B, 6: C}),
        ("two grades value list", rep_algebra(2), ([Val(A), Val(B)],), {"grades": (0, 2)}, {0: A, 3: B}),
        ("keys + values + matching grades", rep_algebra(3), (), {"keys": (2, 1), "values": [Val(A), Val(B)], "grades": (1,)}, {2: A, 1: B}),
        ("graded mode, complete grade", rep_algebra(2, graded=True), (), {"keys": (1, 2), "values": [Val(A), Val(B)]}, {1: A, 2: B}),
        ("integer keys given as a list", rep_algebra(3), (), {"keys": [4, 1], "values": [Val(A), Val(B)]}, {4: A, 1: B}),
        ("graded mode, complete grade with the keys as a list", rep_algebra(2, graded=True), (), {"keys": [1, 2], "values": [Val(A), Val(B)]}, {1: A, 2: B}),
        ("graded mode, complete grade as a mapping", rep_algebra(2, graded=True), ({"e1": Val(A), "e2": Val(B)},), {}, {1: A, 2: B}),
        ("graded mode, complete grades as a mapping with int keys", rep_algebra(2, graded=True), ({0: Val(C), 1: Val(A), 2: Val(B)},), {}, {0: C, 1: A, 2: B}),
    ]
    for label, alg, args, kw, want in cells:
        c = f"{qual}#form:{label}"
        try:
            out = run_new(repo, alg, args, kw)
        except NoValue as exc:
            raise Unknown(c, str(exc), fn)
        if out[0] == "raise":
            ctx.violation(c, f"consistent input ({label}) raises {out[1]}", fn)
            continue
        got = pairs_of(out[1])
        if got is None:
            raise Unknown(c, f"unrecognised construction result {out[1]!r}", fn)
        given_keys = kw.get("keys") if "keys" in kw else (args[1] if len(args) > 1 else None)
        if got == want and not isinstance(out[1].attrs.get("_keys"), tuple):
            ctx.violation(c, f"construction from {label} stores the keys as a {type(out[1].attrs.get('_keys')).__name__}: the operator caches look "
                             f"multivectors up by their key tuple, every operator on this multivector raises 'unhashable type'", fn)
            continue
        if got == want and given_keys is not None and all(isinstance(k, int) for k in given_keys) \
                and tuple(out[1].attrs["_keys"]) != tuple(given_keys):
            ctx.violation(c, f"construction from {label} stores the keys as {tuple(out[1].attrs['_keys'])}, not in the given "
                             f"order {tuple(given_keys)}: the storage order of an operand is part of its key pattern", fn)
        elif got == want:
            ctx.ok(c, fn, pairs=got)
        else:
            ctx.violation(c, f"construction from {label} gives {got}, expected {want}: a supplied coefficient is "
                             f"dropped, negated or attached to another blade", fn, got=got, expected=want)
    # symbolic by name: one symbol per key, named after the blade of that key
    seen = []
    it = make_interp(repo)
    alg = rep_algebra(3)
    it.algebra = alg
    symcls = Obj("symbolcls", call=lambda name, *a, **k: (seen.append(name), Val(str(name)))[1])
    c = f"{qual}#form:name"
    try:
        out = it.run(NEW, [MVC, alg], {"name": "x", "keys": (6, 1, 3), "symbolcls": symcls})
    except NoValue as exc:
        raise Unknown(c, str(exc), fn)
    got = pairs_of(out[1]) if out[0] == "return" else None
    want = {6: "x23", 1: "x1", 3: "x12"}
    if got == want and tuple(out[1].attrs["_keys"]) != (6, 1, 3):
        ctx.violation(c, f"symbolic construction by name with keys (6, 1, 3) stores the keys as {tuple(out[1].attrs['_keys'])}: the "
                         f"symbolic operand of a cache miss no longer has the storage order of the key pattern it is "
                         f"generated for, so the generated function unpacks coefficients in another order than they are "
                         f"passed", fn)
    elif got == want:
        ctx.ok(c, fn, pairs=got)
    elif got is None:
        raise Unknown(c, f"symbolic construction gives {out!r}", fn)
    else:
        ctx.violation(c, f"symbolic construction by name gives {got}, expected {want} (symbol of a key is named after "
                         f"that key's blade)", fn)


@rule("C15.input-forms", props=["C15"], min_instances=11, mutants=[
    ("mapping values reversed", ("multivector", "            keys, values = zip(*values.items()) if values else (tuple(), list())\n            values = list(values)", "            keys, values = zip(*values.items()) if values else (tuple(), list())\n            values = list(reversed(values))")),
    ("symbol named after position", ("multivector", "values = list(symbolcls(f'{name}{algebra.bin2canon[k][1:]}') for k in keys)", "values = list(symbolcls(f'{name}{algebra.bin2canon[k][1:]}') for k in sorted(keys))")),
])
def input_forms(ctx):
    """Every consistent input form pairs each supplied value with its own key (DT with value tokens)."""
    check_input_forms(ctx, ctx.repo)


# --------------------------------------------------------------------------- accessors
def _lam(src):
    return Closure(ast.parse(src, mode="eval").body, {}, "multivector")


def check_accessors(ctx, repo):
    M = "multivector.MultiVector"
    stored = dict(zip(MV_KEYS, MV_VALS))   # {4: V0, 3: V1, 0: V2, 7: V3}

    def run(method, args=(), kwargs=None, mv=None):
        it = make_interp(repo)
        q = f"{M}.{method}"
        fn = ctx.func(q)
        try:
            return fn, it.run(q, [mv or _mv()] + list(args), kwargs or {})
        except NoValue as exc:
            raise Unknown(q, str(exc), fn)

    def expect_pairs(c, fn, out, want, what):
        if out[0] == "raise":
            ctx.violation(c, f"{what} raises {out[1]}", fn)
            return
        got = pairs_of(out[1])
        if got is None:
            raise Unknown(c, f"{what} gives {out[1]!r}", fn)
        if got == want:
            ctx.ok(c, fn, pairs=got)
        else:
            ctx.violation(c, f"{what} gives {got}, expected {want} from a multivector storing {stored}", fn, got=got, expected=want)

    # items
    fn, out = run("items")
    c = f"{M}.items"
    if out[0] == "return" and isinstance(out[1], list) and {k: val_repr(v) for k, v in out[1]} == stored \
            and [k for k, _ in out[1]] == list(MV_KEYS):
        ctx.ok(c, fn)
    elif out[0] == "return" and isinstance(out[1], Unk):
        raise Unknown(c, f"items() gives {out[1]!r}", fn)
    else:
        ctx.violation(c, f"items() gives {out[1]!r}, expected the stored (key, value) pairs in storage order", fn)
    # contains
    for item, want in ((3, True), ("e12", True), (1, False), ("e1", False), (0, True)):
        fn, out = run("__contains__", [item])
        c = f"{M}.__contains__#{item}"
        if out == ("return", want):
            ctx.ok(c, fn)
        else:
            ctx.violation(c, f"{item!r} in mv gives {out}, expected {want} for stored keys {MV_KEYS}", fn)
    # grade
    for grades, want in (((1,), {4: "V0"}), ((0, 2), {0: "V2", 3: "V1"}), ((3,), {7: "V3"}), ((2, 3), {3: "V1", 7: "V3"}),
                         (((0, 1),), {0: "V2", 4: "V0"}), ((2, 0), {0: "V2", 3: "V1"}), ((1, 1), {4: "V0"}), (((3, 2),), {3: "V1", 7: "V3"})):
        fn, out = run("grade", list(grades))
        expect_pairs(f"{M}.grade#{grades}", fn, out, want, f"grade{grades}")
    # a multivector holding EVERY blade, stored in binary and in a shuffled order (not the canonical one)
    for label, dkeys in (("binary order", tuple(range(8))), ("shuffled", (6, 0, 3, 5, 7, 1, 4, 2))):
        dense = mv_obj(rep_algebra(3), dkeys, [Val(f"D{k}") for k in dkeys])
        for grades in ((1,), (2,), (0, 3)):
            fn, out = run("grade", list(grades), mv=dense)
            want = {k: f"D{k}" for k in range(8) if bin(k).count("1") in grades}
            c = f"{M}.grade#dense, {label}:{grades}"
            got = pairs_of(out[1]) if out[0] == "return" else None
            if out[0] == "raise":
                ctx.violation(c, f"grade{grades} of a dense multivector stored in {label} raises {out[1]}", fn)
            elif got is None:
                raise Unknown(c, f"grade gives {out!r}", fn)
            elif got == want:
                ctx.ok(c, fn)
            else:
                ctx.violation(c, f"grade{grades} of a multivector holding all 8 blades in {label} {dkeys} gives {got}, expected {want}: "
                                 f"coefficients are taken by position in another order than they are stored", fn)
    # the coefficients held in ONE ndarray (two elements per blade), blades stored in a non-canonical order: every accessor must
    # pair each blade with its own row (a block slice taken in storage order, a scatter by position ... do not), and must not
    # copy the user's coefficients into an array of a fixed element type (complex, Fraction / sympy, integer coefficients)
    from ..symenv import symarray, symarray_values, numpy_alloc_standin

    def nd_mv():
        return mv_obj(rep_algebra(3), (4, 2, 1, 7), symarray("W", (4, 2)))
    rows = {4: ["W[0,0]", "W[0,1]"], 2: ["W[1,0]", "W[1,1]"], 1: ["W[2,0]", "W[2,1]"], 7: ["W[3,0]", "W[3,1]"]}

    def nd_pairs(o):
        if not (isinstance(o, Obj) and o.kind == "MultiVector"):
            return None
        keys, vals = o.attrs.get("_keys"), o.attrs.get("_values")
        try:
            vals = symarray_values(vals)
            keys = list(keys)
        except Exception:
            return None
        if not isinstance(vals, list) or len(keys) != len(vals):
            return None
        return dict(zip(keys, vals))

    def nd_run(method, args=(), kwargs=None):
        it = make_interp(repo)
        it.standins["numpy"] = numpy_alloc_standin()
        q = f"{M}.{method}"
        fn = ctx.func(q)
        try:
            return fn, it.run(q, [nd_mv()] + list(args), kwargs or {})
        except NoValue as exc:
            return fn, ("gap", str(exc))
    for grades, want in (((1,), {1: rows[1], 2: rows[2], 4: rows[4]}), ((1, 3), {1: rows[1], 2: rows[2], 4: rows[4], 7: rows[7]}), ((3,), {7: rows[7]})):
        fn, out = nd_run("grade", list(grades))
        c = f"{M}.grade#one ndarray, keys (4, 2, 1, 7):{grades}"
        got = nd_pairs(out[1]) if out[0] == "return" else None
        if out[0] == "raise":
            ctx.violation(c, f"grade{grades} of an ndarray-backed multivector raises {out[1]}", fn)
        elif got is None:
            ctx.unknown(c, f"grade gives {out!r}", fn)
        elif got == want:
            ctx.ok(c, fn)
        else:
            ctx.violation(c, f"grade{grades} of a multivector whose coefficients are the rows of one array, blades stored as (4, 2, 1, 7), gives "
                             f"{got}, expected {want}: rows are attached to other blades than they are stored for", fn)
    for kw, order in (({}, [0, 1, 2, 4, 3, 5, 6, 7]), ({"canonical": False}, list(range(8)))):
        fn, out = nd_run("asfullmv", [], kw)
        c = f"{M}.asfullmv#one ndarray, keys (4, 2, 1, 7):{'canonical' if not kw else 'binary'}"
        got = nd_pairs(out[1]) if out[0] == "return" else None
        want = {k: rows.get(k, [0, 0]) for k in range(8)}
        vals = out[1].attrs.get("_values") if out[0] == "return" and isinstance(out[1], Obj) else None
        if out[0] == "raise":
            ctx.violation(c, f"asfullmv({kw}) of an ndarray-backed multivector raises {out[1]}", fn)
        elif isinstance(vals, Obj) and vals.attrs.get("narrowed"):
            ctx.violation(c, f"asfullmv({kw}) copies the coefficient array into an array allocated with {vals.attrs.get('allocated')}: complex coefficients lose "
                             f"their imaginary part, object coefficients (Fraction, sympy) are cast or refused, whatever the user's array held", fn)
        elif got is None:
            ctx.unknown(c, f"asfullmv gives {out!r}", fn)
        elif {k: (v if isinstance(v, list) else [v, v]) for k, v in got.items()} == want and list(out[1].attrs["_keys"]) == order:
            ctx.ok(c, fn)
        else:
            ctx.violation(c, f"asfullmv({kw}) of an ndarray-backed multivector storing (4, 2, 1, 7) gives keys {list(out[1].attrs['_keys'])} / {got}, "
                             f"expected keys {order} / {want}", fn)
    # asfullmv
    full = {k: stored.get(k, 0) for k in range(8)}
    fn, out = run("asfullmv")
    c = f"{M}.asfullmv#canonical"
    got = pairs_of(out[1]) if out[0] == "return" else None
    if got == full and list(out[1].attrs["_keys"]) == [0, 1, 2, 4, 3, 5, 6, 7]:
        ctx.ok(c, fn)
    elif got is None:
        raise Unknown(c, f"asfullmv() gives {out!r}", fn)
    else:
        ctx.violation(c, f"asfullmv() gives keys {list(out[1].attrs['_keys'])} / pairs {got}; expected canonical key order "
                         f"with pairs {full}", fn)
    fn, out = run("asfullmv", [], {"canonical": False})
    c = f"{M}.asfullmv#binary"
    got = pairs_of(out[1]) if out[0] == "return" else None
    if got == full and list(out[1].attrs["_keys"]) == list(range(8)):
        ctx.ok(c, fn)
    elif got is None:
        raise Unknown(c, f"asfullmv(canonical=False) gives {out!r}", fn)
    else:
        ctx.violation(c, f"asfullmv(canonical=False) gives keys {list(out[1].attrs['_keys'])} / pairs {got}; expected binary "
                         f"key order with pairs {full}", fn)
    # map
    fn, out = run("map", [_lam("lambda v: ('f', v)")])
    c = f"{M}.map#1-arg"
    got = None
    if out[0] == "return" and isinstance(out[1], Obj):
        try:
            got = {k: (v[0], val_repr(v[1])) for k, v in zip(out[1].attrs["_keys"], out[1].attrs["_values"])}
        except Exception:
            got = None
    if got == {k: ("f", v) for k, v in stored.items()}:
        ctx.ok(c, fn)
    elif got is None:
        raise Unknown(c, f"map gives {out!r}", fn)
    else:
        ctx.violation(c, f"map(f) gives {got}: f(value) is not stored under the key of that value", fn)
    fn, out = run("map", [_lam("lambda k, v: (k, v)")])
    c = f"{M}.map#2-arg"
    got = None
    if out[0] == "return" and isinstance(out[1], Obj):
        try:
            got = {k: (v[0], val_repr(v[1])) for k, v in zip(out[1].attrs["_keys"], out[1].attrs["_values"])}
        except Exception:
            got = None
    if got == {k: (k, v) for k, v in stored.items()}:
        ctx.ok(c, fn)
    elif got is None:
        raise Unknown(c, f"map gives {out!r}", fn)
    else:
        ctx.violation(c, f"map(f(k, v)) gives {got}: f is not called with each value's own key", fn)
    # a callable that is not a Python function (a class such as Fraction or complex, a builtin such as round) and merely
    # ACCEPTS a second, optional argument: it is applied to the values, like every one-argument function
    calls = []
    cls_like = Obj("builtin", {"fmt": "<class with an optional second parameter>", "__signature__": ["value", "denominator"], "__name__": "Fraction"},
                   call=lambda *a, **k: (calls.append(a), ("f", a[0]))[1])
    fn, out = run("map", [cls_like])
    c = f"{M}.map#class-like callable with an optional second parameter"
    if out[0] == "return" and isinstance(out[1], Obj) and all(len(a) == 1 for a in calls) and len(calls) == len(stored):
        got = {k: (v[0], val_repr(v[1])) for k, v in zip(out[1].attrs["_keys"], out[1].attrs["_values"])}
        if got == {k: ("f", v) for k, v in stored.items()}:
            ctx.ok(c, fn)
        else:
            ctx.violation(c, f"map(Class) gives {got}", fn)
    elif calls and any(len(a) != 1 for a in calls):
        ctx.violation(c, f"map(f) with a class / builtin whose second parameter is optional (Fraction, complex, round) calls it as "
                         f"f(key, value) ({[tuple(str(x) for x in a) for a in calls[:2]]}): the key is taken for the value", fn)
    else:
        raise Unknown(c, f"map gives {out!r} after {len(calls)} calls", fn)
    calls2 = []
    pred2 = Obj("builtin", {"fmt": "<class-like predicate>", "__signature__": ["value", "base"], "__name__": "int"},
                call=lambda *a, **k: (calls2.append(a), isinstance(a[0], Obj) and val_repr(a[0]) in {"V0", "V3"})[1])
    fn, out = run("filter", [pred2])
    c = f"{M}.filter#class-like callable with an optional second parameter"
    if calls2 and any(len(a) != 1 for a in calls2):
        ctx.violation(c, f"filter(f) with a class / builtin whose second parameter is optional calls it as f(key, value)", fn)
    else:
        expect_pairs(c, fn, out, {4: "V0", 7: "V3"}, "filter(class-like value predicate keeping V0, V3)")
    # filter
    fn, out = run("filter", [_lam("lambda k, v: k in (3, 7)")])
    expect_pairs(f"{M}.filter#2-arg", fn, out, {3: "V1", 7: "V3"}, "filter(lambda k, v: k in (3, 7))")
    fn, out = run("filter", [_lam("lambda k, v: False")])
    expect_pairs(f"{M}.filter#none", fn, out, {}, "filter(lambda k, v: False)")
    keep = {"V0", "V3"}
    pred = Obj("predicate", call=lambda v: val_repr(v) in keep)
    fn, out = run("filter", [pred])
    expect_pairs(f"{M}.filter#1-arg", fn, out, {4: "V0", 7: "V3"}, "filter(value predicate keeping V0, V3)")
    # default filter uses the algebra's simp_func
    alg = rep_algebra(3, extra_attrs={"simp_func": Obj("simp_func", call=lambda v: val_repr(v) in {"V1"})})
    fn, out = run("filter", [], mv=_mv(alg))
    expect_pairs(f"{M}.filter#default", fn, out, {3: "V1"}, "filter() with simp_func keeping V1")


@rule("C15.accessors", props=["C15", "C08", "C04"], min_instances=19, mutants=[
    ("consecutive rows of a coefficient array are taken as one block, in stored order", ("multivector", "        vals = {k: getattr(self, self.algebra.bin2canon[k])\n                for k in self.algebra.indices_for_grades[grades] if k in self.keys()}",
        "        if hasattr(self._values, 'shape'):\n            keys = tuple(k for k in self.algebra.indices_for_grades[grades] if k in self._keys)\n            rows = [self._keys.index(k) for k in keys]\n            if rows and max(rows) - min(rows) + 1 == len(rows):\n                return self.fromkeysvalues(self.algebra, keys, list(self._values[min(rows):max(rows) + 1]))\n        vals = {k: getattr(self, self.algebra.bin2canon[k])\n                for k in self.algebra.indices_for_grades[grades] if k in self.keys()}")),
    ("asfullmv scatters a coefficient array into np.zeros", ("multivector", "        values = [getattr(self, self.algebra.bin2canon[k]) for k in keys]\n        return self.fromkeysvalues(self.algebra, keys=keys, values=values)",
        "        if hasattr(self._values, 'shape'):\n            import numpy as np\n            values = np.zeros((len(keys), *self.shape[1:]))\n            values[[keys.index(k) for k in self.keys()]] = self._values\n        else:\n            values = [getattr(self, self.algebra.bin2canon[k]) for k in keys]\n        return self.fromkeysvalues(self.algebra, keys=keys, values=values)")),
    ("grade reads the canonical position", ("multivector", "vals = {k: getattr(self, self.algebra.bin2canon[k])\n                for k in self.algebra.indices_for_grades[grades] if k in self.keys()}",
                                           "vals = {k: self._values[i]\n                for i, k in enumerate(self.algebra.indices_for_grades[grades]) if k in self.keys()}")),
    ("asfullmv binary order uses canonical names", ("multivector", "            keys = tuple(range(len(self.algebra)))\n        values = [getattr(self, self.algebra.bin2canon[k]) for k in keys]",
                                                    "            keys = tuple(range(len(self.algebra)))\n        values = [getattr(self, b) for b in self.algebra.canon2bin]")),
    ("filter keeps keys of the rejected", ("multivector", "keysvalues = tuple((k, v) for k, v in self.items() if func(v))", "keysvalues = tuple((k, v) for k, v in self.items() if not func(v))")),
    ("contains looks at values", ("multivector", "return item in self._keys", "return item in self._values")),
])
def accessors(ctx):
    """items / contains / grade / asfullmv / map / filter keep each value with its own key (ORD by tokens)."""
    check_accessors(ctx, ctx.repo)


# --------------------------------------------------------------------------- grade index tables and views
@rule("C15.grade-indices", props=["C15", "C04", "C13"], min_instances=3, mutants=[
    ("grade table keyed by name length", ("algebra", "        return {length - 1: tuple(self.canon2bin[blade] for blade in blades)", "        return {length: tuple(self.canon2bin[blade] for blade in blades)")),
    ("multi-grade table concatenates in reverse", ("algebra", "        return {comb: sum((self.indices_for_grade[grade] for grade in comb), ())", "        return {comb: sum((self.indices_for_grade[grade] for grade in reversed(comb)), ())")),
])
def grade_indices(ctx):
    """Algebra.indices_for_grade / indices_for_grades list, per grade (tuple), the keys of that grade in canonical
    order - the tables the constructor, grade(), asfullmv() and graded mode rely on."""
    from .c01 import build_algebra, read_named_basis
    from ..absint import Raised
    repo = ctx.repo
    basis, pqr = read_named_basis(repo, "2DPGA")
    for label, kwargs in (("default d=3", dict(p=3)), ("named basis 2DPGA", dict(p=pqr[0], q=pqr[1], r=pqr[2], basis=basis)),
                          ("default d=1", dict(p=1))):
        c = f"algebra.Algebra.indices_for_grades#{label}"
        fn = ctx.func("algebra.Algebra.indices_for_grades")
        try:
            it, alg = build_algebra(repo, **kwargs)
            one = it._instance_attr(alg, "indices_for_grade")
            alg.attrs["indices_for_grade"] = one
            many = it._instance_attr(alg, "indices_for_grades")
        except NoValue as exc:
            raise Unknown(c, str(exc), fn)
        except Raised as r:
            ctx.violation(c, f"raises {r.name}", fn)
            continue
        c2b = alg.attrs["canon2bin"]
        d = alg.attrs["d"]
        want_one = {g: tuple(k for n, k in c2b.items() if len(n) - 1 == g) for g in range(d + 1)}
        problems = []
        if not isinstance(one, dict) or one != want_one:
            problems.append(f"indices_for_grade is {one!r}, expected {want_one}")
        if isinstance(many, dict):
            from itertools import combinations
            for r_ in range(d + 2):
                for comb in combinations(range(d + 1), r_):
                    want = tuple(k for g in comb for k in want_one[g])
                    if many.get(comb) != want:
                        problems.append(f"indices_for_grades[{comb}] is {many.get(comb)!r}, expected {want}")
                        break
                else:
                    continue
                break
        else:
            problems.append(f"indices_for_grades is {many!r}")
        if problems:
            ctx.violation(c, "; ".join(problems[:2]), fn)
        else:
            ctx.ok(c, fn, grades=d + 1)


@rule("C15.views", props=["C15"], min_instances=6, mutants=[
    ("grades from the number of stored values", ("multivector", "        return tuple(sorted({bin(ind).count('1') for ind in self.keys()}))", "        return tuple(sorted({bin(ind).count('1') for ind in range(len(self.keys()))}))")),
    ("len counts the keys of the algebra", ("multivector", "    def __len__(self):\n        return len(self._values)", "    def __len__(self):\n        return len(self.algebra)")),
])
def views(ctx):
    """grades, len, bool, keys, values of a stored multivector reflect exactly what is stored."""
    repo = ctx.repo
    M = "multivector.MultiVector"
    cells = [((4, 3, 0, 7), (0, 1, 2, 3)), ((6,), (2,)), ((), ()), ((1, 2, 4), (1,))]
    for keys, want_grades in cells:
        mv = _mv(keys=keys, vals=tuple(f"V{i}" for i in range(len(keys))))
        for name, want in (("grades", want_grades), ("__len__", len(keys)), ("__bool__", bool(keys)), ("keys", keys)):
            c = f"{M}.{name}#{keys}"
            fn = ctx.func(f"{M}.{name}")
            it = make_interp(repo)
            try:
                if name == "grades":
                    got = it._instance_attr(mv, "grades")
                    out = ("return", got)
                else:
                    out = it.run(f"{M}.{name}", [mv])
            except NoValue as exc:
                raise Unknown(c, str(exc), fn)
            if out == ("return", want) or (out[0] == "return" and isinstance(out[1], (tuple, list)) and tuple(out[1]) == want):
                ctx.ok(c, fn)
            else:
                ctx.violation(c, f"{name} of a multivector storing keys {keys} is {out[1]!r}, expected {want!r}", fn)
