#!/usr/bin/env python3
"""Differential test of kverif's abstract interpreter against CPython (development tool; analyses no kingdon code).

Every function t*/u* of tools/interp_corpus.py and tools/interp_corpus2.py is evaluated by CPython and by the interpreter
(on the parsed source).  MISMATCH = the interpreter computed another concrete value or raised where CPython does not: a
soundness bug of the analyser.  GAP / abstract = the interpreter declines (NoValue) or returns an abstract value: allowed,
listed.  Exit 1 on any MISMATCH that is not in the list of documented differences."""
import importlib.util
import os
import sys

HERE = os.path.dirname(os.path.dirname(os.path.abspath(__file__)))
sys.path.insert(0, HERE)
from kverif.absint import Interp, Obj, Unk  # noqa: E402
from kverif.astx import NoValue  # noqa: E402
from kverif.model import Repo  # noqa: E402
from kverif.optree import T  # noqa: E402

# eager generators run a generator's side effects (here: its `finally`) before the consumer's loop body
DOCUMENTED = {"u006"}


def norm(v):
    if isinstance(v, (Obj, Unk, T)):
        raise LookupError(f"abstract {v!r}")
    if isinstance(v, (list, tuple)):
        return ("L" if isinstance(v, list) else "T", [norm(x) for x in v])
    if isinstance(v, dict):
        return ("D", [(norm(k), norm(x)) for k, x in v.items()])
    if isinstance(v, (set, frozenset)):
        return ("S", sorted(repr(norm(x)) for x in v))
    if isinstance(v, bool) or v is None or isinstance(v, (int, float, complex, str, bytes)) or type(v).__name__ == "Fraction":
        return (type(v).__name__, v)
    return ("?", repr(v))


def main():
    stats = {"equal": 0, "gap": 0, "abstract": 0, "MISMATCH": 0, "documented": 0}
    for modname in ("interp_corpus", "interp_corpus2", "interp_corpus3"):
        path = os.path.join(HERE, "tools", modname + ".py")
        spec = importlib.util.spec_from_file_location(modname, path)
        mod = importlib.util.module_from_spec(spec)
        sys.modules[modname] = mod
        spec.loader.exec_module(mod)
        repo = Repo({modname: (path, open(path).read())}, {}, os.path.dirname(path))
        for k in sorted(n for n in dir(mod) if n[:2] in ("t0", "u0", "v0") and callable(getattr(mod, n))):
            want = getattr(mod, k)()
            try:
                out = Interp(repo, {}, {}, max_steps=200000).run(f"{modname}.{k}", [])
            except NoValue as e:
                stats["gap"] += 1
                print(k, "GAP", str(e)[:120])
                continue
            bad = None
            if out[0] == "raise":
                bad = f"raises {out[1]}"
            else:
                got = out[1]
                pairs = list(zip(got, want)) if isinstance(got, tuple) and isinstance(want, tuple) and len(got) == len(want) else [(got, want)]
                abstract = 0
                for i, (g, w) in enumerate(pairs):
                    try:
                        if norm(g) != norm(w):
                            bad = f"component {i}: {g!r} != {w!r}"
                            break
                    except LookupError:
                        abstract += 1
                if bad is None and abstract:
                    stats["abstract"] += 1
                    print(k, f"abstract in {abstract} component(s)")
                    continue
            if bad is None:
                stats["equal"] += 1
            elif k in DOCUMENTED:
                stats["documented"] += 1
                print(k, "documented difference:", bad[:100])
            else:
                stats["MISMATCH"] += 1
                print(k, "MISMATCH", bad[:160])
    print(stats)
    return 1 if stats["MISMATCH"] else 0


if __name__ == "__main__":
    sys.exit(main())
